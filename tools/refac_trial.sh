#!/bin/sh
# usage: refac_trial.sh <patchdir> <tag>   -> runs all 20 quick checks against a scratch worktree with the patch
pd=$1; tag=$2
wt=/tmp/refac_trial_$tag
git -C /repo worktree add --detach -q $wt HEAD || exit 2
(cd $wt && patch -p1 -s < $pd/patch.diff) || { echo "$tag PATCH-FAILED"; git -C /repo worktree remove --force $wt; exit 2; }
cd /verif
for p in C01 C02 C03 C04 C05 C06 C07 C08 C09 C10 C11 C12 C13 C14 C15 C16 C17 C18 C19 C20; do
  out=$(VERDE_REPO=$wt VERIF_EVIDENCE_DIR=/verif/build/refac_ev_$tag ./check $p 2>&1); rc=$?
  echo "$tag $p rc=$rc $(echo "$out" | grep '^VIOLATION' | head -3 | tr '\n' ' ')"
  for r in $(echo "$out" | grep '^VIOLATION' | sed 's/.*replay=\([^ ]*\).*/\1/' | head -2); do cp $r /verif/build/refac_replays_${tag}_${p}_$(basename $r) 2>/dev/null; done
done
git -C /repo worktree remove --force $wt
rm -rf /verif/build/refac_ev_$tag
echo "$tag DONE"
