"""Run every property's search() - the case generator used only after a proof obligation or the
correspondence broke - on the tree under test and report any case it would present as a failing input.
On the unchanged tree there must be none (otherwise a harmless refactoring that breaks a tie would be
reported with a bogus failing input).  usage: PYTHONPATH=/verif:/repo python tools/search_selftest.py [ids...]"""
import importlib, json, os, sys, time
sys.path.insert(0, os.path.dirname(os.path.dirname(os.path.abspath(__file__))))
from harness import core

def main(ids):
    bad = 0
    for pid in ids:
        mod = importlib.import_module("harness." + pid.lower())
        search = getattr(mod, "search", None)
        if search is None:
            print(pid, "no search()"); continue
        from harness import driver
        known = driver._finding_keys(pid)
        fkey = getattr(mod, "finding_key", lambda c: None)
        for tier in ("quick",):
            t0 = time.time()
            more = search([], tier, 20260928)
            core.eval_cases(pid + "_searchtest", more, mod.IMPORTS, shard=getattr(mod, "SHARD", 300), prelude=getattr(mod, "PRELUDE", ""))
            hits = [c for c in more if c.verdict in ("violation", "both") and not (fkey(c) in known)]
            dis = [c for c in more if c.verdict == "disagree"]
            print("%s search(tier=%s): %d cases, %d would-be failing inputs, %d disagreements, %.0f s" % (pid, tier, len(more), len(hits), len(dis), time.time() - t0), flush=True)
            for c in hits[:2]:
                print("   ", c.kind, json.dumps(c.inp, default=str)[:300])
            bad += len(hits)
    return 1 if bad else 0

if __name__ == "__main__":
    sys.exit(main(sys.argv[1:] or ["C%02d" % i for i in range(1, 21)]))
