#!/venv/bin/python
"""Regenerate MANIFEST.json from harness/cNN.meta.json files (one per claimed property)."""
import json, os, glob
V = os.path.dirname(os.path.dirname(os.path.abspath(__file__)))
props = [json.loads(l) for l in open(os.path.join(V, "properties.jsonl"))]
NA = json.load(open(os.path.join(V, "tools", "not_applicable.json"))) if os.path.exists(os.path.join(V, "tools", "not_applicable.json")) else {}
checks = []
claimed = []
for p in props:
    pid = p["id"]
    mp = os.path.join(V, "harness", "%s.meta.json" % pid.lower())
    if not os.path.exists(mp) or not os.path.exists(os.path.join(V, "harness", "%s.py" % pid.lower())):
        continue
    m = json.load(open(mp))
    claimed.append(pid)
    checks.append({
        "property_id": pid,
        "quick_cmd": "./check %s --tier quick" % pid,
        "thorough_cmd": "./check %s --tier thorough" % pid,
        "evidence_file": "/verif/evidence/%s.json" % pid,
        "replay_cmd_template": "./check %s --replay {path}" % pid,
        "engine": "coq-correspondence",
        "level_claimed": {"category": "proof", "text": m["level_text"], "design_ref": "DESIGN.md section 8 / %s" % pid},
        "level_note": m["level_note"],
        "technique": m["technique"],
    })
na = [{"property_id": p["id"], "reason": NA.get(p["id"], "check not built yet (in progress); the technique applies, see DESIGN.md section 8")}
      for p in props if p["id"] not in claimed]
man = {
    "version": 1,
    "setup_cmd": "sh /verif/setup.sh",
    "hooks": {"guard": "VERDE_VERIF",
              "enable": "no source hooks are used; checks import verde from /repo's working tree (PYTHONPATH=/repo) and export VERDE_VERIF=1, which nothing in /repo reads",
              "baseline_off_cmd": "cd /repo && /venv/bin/python -m pytest -ra -q -p no:cacheprovider --timeout=900 --continue-on-collection-errors",
              "source_commits": [], "add_only": True},
    "engines": [{"name": "coq-correspondence", "path": "/verif/check", "serves_properties": claimed,
                 "kind_free_text": "Coq 8.16.1 development (coq/theories: Lib, Model, Proofs, Props) + python harness that runs verde from /repo and has coqc evaluate the model and the decidable property statement on the same inputs (vm_compute)"}],
    "checks": checks,
    "notes": "See DESIGN.md. known_findings.json lists fixed and known findings; fix: commits are in /repo.",
    "not_applicable": na,
}
json.dump(man, open(os.path.join(V, "MANIFEST.json"), "w"), indent=1)
print("claimed:", claimed)
