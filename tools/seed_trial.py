#!/venv/bin/python
"""Run a property's check against a seeded change: apply <dir>/patch.diff to a scratch worktree of
/repo's HEAD (so that checks running concurrently against /repo are not disturbed; VERDE_REPO points the
check at it), run the demo and ./check <ID> (quick, optionally thorough), remove the worktree, record what
happened in <dir>/meta.json.  With --in-repo the patch is applied to /repo itself and undone afterwards.

usage: tools/seed_trial.py <seeded-dir> [--tier quick|thorough] [--also C07,C13]
"""
import json, os, subprocess, sys, time
V = os.path.dirname(os.path.dirname(os.path.abspath(__file__)))
d = os.path.abspath(sys.argv[1])
tier = "quick"
also = []
in_repo = False
with_tests = False
args = sys.argv[2:]
while args:
    a = args.pop(0)
    if a == "--tier":
        tier = args.pop(0)
    elif a == "--also":
        also = args.pop(0).split(",")
    elif a == "--in-repo":
        in_repo = True
    elif a == "--tests":
        with_tests = True
meta_p = os.path.join(d, "meta.json")
meta = json.load(open(meta_p)) if os.path.exists(meta_p) else {}
pid = meta.get("property") or os.path.basename(os.path.dirname(d))
patch = os.path.join(d, "patch.diff")
TREE = "/repo"


def run(cmd, **kw):
    p = subprocess.run(cmd, stdout=subprocess.PIPE, stderr=subprocess.STDOUT, text=True, **kw)
    return p.returncode, p.stdout


assert run(["git", "-C", "/repo", "status", "--porcelain", "--untracked-files=no"])[1].strip() == "", "/repo not clean"
if not in_repo:
    TREE = "/tmp/verde_trial_%d" % os.getpid()
    rc, out = run(["git", "-C", "/repo", "worktree", "add", "--detach", TREE, "HEAD"])
    assert rc == 0, out
env = dict(os.environ, PYTHONPATH=TREE, PYTHONHASHSEED="0", VERDE_REPO=TREE,
           VERIF_EVIDENCE_DIR=os.path.join(V, "build", "trial_evidence"))
res = {"ran_at": time.strftime("%Y-%m-%d %H:%M:%S"), "tier": tier, "tree": "scratch worktree of /repo HEAD" if not in_repo else "/repo"}
demo = os.path.join(d, "demo.py")
if os.path.exists(demo):
    res["demo_unchanged_rc"] = run(["/venv/bin/python", demo], env=env, cwd=TREE)[0]


def failing_tests(tree):
    """run the pinned test command in the tree (thread-limited) and return the sorted list of non-passing tests"""
    import xml.etree.ElementTree as ET
    xmlp = os.path.join(V, "build", "trial_junit_%d.xml" % os.getpid())
    e2 = dict(env, OMP_NUM_THREADS="1", OPENBLAS_NUM_THREADS="1", MKL_NUM_THREADS="1")
    run(["/venv/bin/python", "-m", "pytest", "-q", "-p", "no:cacheprovider", "--timeout=900",
         "--continue-on-collection-errors", "--junitxml=" + xmlp], env=e2, cwd=tree)
    bad = []
    for tc in ET.parse(xmlp).iter("testcase"):
        if any(c.tag in ("failure", "error") for c in tc):
            bad.append(tc.get("classname") + "::" + tc.get("name"))
    os.unlink(xmlp)
    return sorted(bad)


if with_tests:
    res["tests_failing_unchanged"] = failing_tests(TREE)
rc, out = run(["git", "-C", TREE, "apply", patch])
assert rc == 0, out
if with_tests:
    res["tests_failing_patched"] = failing_tests(TREE)
    res["tests_same_outcome"] = res["tests_failing_patched"] == res["tests_failing_unchanged"]
try:
    if os.path.exists(demo):
        res["demo_patched_rc"] = run(["/venv/bin/python", demo], env=env, cwd=TREE)[0]
    res["checks"] = {}
    for p in [pid] + also:
        t0 = time.time()
        rc, out = run([os.path.join(V, "check"), p, "--tier", tier], cwd=V, env=env)
        lines = [l for l in out.splitlines() if l.startswith("VIOLATION") or l.startswith("KNOWN-FINDING")]
        res["checks"][p] = {"exit": rc, "violation_lines": lines[:5], "wall_s": round(time.time() - t0, 1),
                            "caught": rc != 0 and any(l.startswith("VIOLATION") for l in lines),
                            "with_failing_input": any(l.startswith("VIOLATION") and "no-failing-input-found" not in l for l in lines)}
        # keep one replay as the recorded failing input
        for l in lines:
            if l.startswith("VIOLATION") and "replay=" in l:
                rp = l.split("replay=")[1].split()[0]
                if os.path.exists(rp):
                    r = json.load(open(rp))
                    r.pop("coq_term", None)
                    res["checks"][p]["replay_excerpt"] = json.dumps(r, default=str)[:1500]
                break
finally:
    if in_repo:
        subprocess.run(["git", "-C", "/repo", "checkout", "--", "."], check=True)
    else:
        subprocess.run(["git", "-C", "/repo", "worktree", "remove", "--force", TREE], check=True)
    subprocess.run(["rm", "-rf", os.path.join(V, "replays")])
meta.setdefault("trials", []).append(res)
json.dump(meta, open(meta_p, "w"), indent=1)
print(json.dumps({k: {"caught": v["caught"], "input": v["with_failing_input"], "s": v["wall_s"]} for k, v in res["checks"].items()}),
      "demo:", res.get("demo_unchanged_rc"), "->", res.get("demo_patched_rc"), "tests_same:", res.get("tests_same_outcome"))
