"""Evidence for the C12 finding "SplineCV(client=...) ignores scoring": run with PYTHONPATH=/repo python harness/c12_finding_client.py
(historical evidence: repaired in /repo a67f133; the client= path is now exercised by the splinecv-client stream of harness/c12.py)."""
import warnings, numpy as np, verde as vd
warnings.simplefilter("ignore")
class Fut:
    def __init__(self, v): self.v = v
    def result(self): return self.v
class FakeClient:
    "stand-in for dask.distributed.Client: runs the submitted call at once"
    def submit(self, f, *a, **k): return Fut(f(*a, **k))
rs = np.random.RandomState(3); n = 30
e, no = rs.uniform(0, 6, n), rs.uniform(-3, 3, n)
d = np.sin(e) * 2 + 0.5 * no + rs.normal(0, 0.4, n)
d[::7] += 6.0   # a few outliers: MAE and R2 rank the dampings differently
kw = dict(mindists=[0.5], dampings=[1e-4, 1e-2, 1.0, 100.0], scoring="neg_mean_absolute_error")
a = vd.SplineCV(**kw).fit((e, no), d)
b = vd.SplineCV(client=FakeClient(), **kw).fit((e, no), d)
c = vd.SplineCV(mindists=[0.5], dampings=kw["dampings"]).fit((e, no), d)
print("serial  scoring=neg MAE :", a.scores_, a.damping_)
print("client  scoring=neg MAE :", np.asarray(b.scores_), b.damping_)
print("serial  scoring=None(R2):", c.scores_, c.damping_)
for seed in range(200):
    rs = np.random.RandomState(seed); n = 24
    e, no = rs.uniform(0, 6, n), rs.uniform(-3, 3, n)
    d = np.sin(e) * 2 + 0.5 * no + rs.normal(0, 0.4, n); d[::5] += rs.normal(0, 6, d[::5].size)
    a = vd.SplineCV(**kw).fit((e, no), d)
    b = vd.SplineCV(client=FakeClient(), **kw).fit((e, no), d)
    if a.damping_ != b.damping_:
        print("seed", seed, "serial picks", a.damping_, "client picks", b.damping_); break
