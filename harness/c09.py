"""C09 BlockReduce.filter: one correctly reduced value per non-empty block.

Generator: random / clustered / gridded point clouds with distinct data values
(1..3 components), no weights or per-component distinct weights, the five
reductions, spacing or shape, region given or inferred, center_coordinates and
drop_coords on/off, extra coordinates, 1-D and 2-D inputs, plus a small
malformed stream (shape mismatches -> ValueError).  Block labels and block
centres are observed from verde.block_split on the same arguments and handed to
the Coq model, which groups and reduces in exact rational arithmetic."""
import math
import random

import numpy as np

from . import core
from .core import Case, cD, cZ, clist, cbool

ID = "C09"
PROPS_FILE = "Props/C09.v"
IMPORTS = "From Verde Require Import Lib.QList Model.BlockReduce."
SHARD = 40
RULE = ("point clouds of 1..60 points (uniform, clustered so that interior blocks stay empty, regular grids given as "
        "2-D arrays, every point its own block, all points in one block) on a dyadic lattice; data of 1..3 components "
        "with pairwise distinct values; weights absent or one distinct positive array per component (some zero "
        "weights, never a whole block); reductions numpy mean/median/sum/min/average (weights only with average); "
        "spacing (scalar or pair, adjust spacing/region) or shape; region given (sometimes larger or smaller than the "
        "cloud) or inferred; center_coordinates, drop_coords on/off; 0..2 extra coordinates. Labels and block centres "
        "come from verde.block_split on the same arguments. A case is non-trivial when the call returns, at least one "
        "block has >= 2 members and there are >= 2 non-empty blocks; distinct = distinct full input.")
ASSUMPTIONS = [
    "pandas DataFrame.groupby(key).aggregate(f) calls f once per distinct key on the rows carrying it (in row order) and returns the results sorted by key; numpy.unique returns the sorted distinct labels - modelled by the executable specifications groupby / ukeys and re-validated against the implementation on every run",
    "block labels and block centres are taken from verde.block_split (observed on the same arguments); block geometry is outside this property",
    "floats are read as the rationals they denote; reductions are computed exactly in Q and compared with the floating-point results within relative 2^-40 of the largest magnitude in the column (block centres: exactly)",
    "weights are non-negative with a positive sum in every block (numpy.average raises ZeroDivisionError otherwise); weights are given only with numpy.average (the other numpy reductions take no weights keyword)",
]
TRUSTED = ["python harness harness/c09.py (generators, exact float -> dyadic transfer, verdict parsing)"]

REDS = {"RMean": "np.mean", "RMedian": "np.median", "RSum": "np.sum", "RMin": "np.min", "RAverage": "np.average"}
BAD = "(1,600)%Z"


def _cd(x):
    x = float(x)
    return cD(x) if math.isfinite(x) else BAD


def _cdl(a):
    return clist([_cd(v) for v in np.ravel(a)])


def _cdll(arrs):
    return clist([_cdl(a) for a in arrs])


def _lattice(rnd, lo, hi, q):
    """a random multiple of 1/q in [lo, hi]"""
    return rnd.randint(int(math.ceil(lo * q)), int(math.floor(hi * q))) / q


def _cloud(rnd, layout, n, box):
    w, e, s, nn = box
    if layout == "uniform":
        east = [_lattice(rnd, w, e, 64) for _ in range(n)]
        north = [_lattice(rnd, s, nn, 64) for _ in range(n)]
    elif layout == "clustered":
        k = rnd.randint(1, 4)
        cs = [(_lattice(rnd, w, e, 4), _lattice(rnd, s, nn, 4)) for _ in range(k)]
        east, north = [], []
        for _ in range(n):
            c = rnd.choice(cs)
            east.append(min(e, max(w, c[0] + _lattice(rnd, -0.75, 0.75, 64))))
            north.append(min(nn, max(s, c[1] + _lattice(rnd, -0.75, 0.75, 64))))
    else:
        raise ValueError(layout)
    return east, north


def _distinct_values(rnd, count, q, lo, hi):
    """count distinct multiples of 1/q in [lo, hi], in random order"""
    pool = rnd.sample(range(int(lo * q), int(hi * q) + 1), count)
    return [p / q for p in pool]


def _fmt(a):
    return "np.array(%r)" % (np.asarray(a).tolist(),)


def observe(vd, red, coords, data, weights, kw, tuple1=False):
    """run the real code; returns ('ok', coords_list, data_list) | ('ValueError',) | ('other', name)"""
    try:
        br = vd.BlockReduce(getattr(np, REDS[red][3:]), **kw)
        d = tuple(data) if len(data) != 1 or tuple1 else data[0]
        w = None if weights is None else (tuple(weights) if len(weights) != 1 else weights[0])
        oc, od = br.filter(tuple(coords), d, w)
    except ValueError:
        return ("ValueError",)
    except Exception as exc:
        return ("other", type(exc).__name__ + ": " + str(exc)[:100])
    od = list(od) if isinstance(od, tuple) else [od]
    oc = list(oc)
    extra = []
    for a in od + oc:
        if np.asarray(a).ndim != 1:
            extra = [np.zeros(1)]
    return ("ok", [np.asarray(a, dtype=float).ravel() for a in oc] + extra,
            [np.asarray(a, dtype=float).ravel() for a in od] + extra)


def make_case(vd, red, coords, data, weights, kw, kind, expect_valid=True):
    """coords/data/weights: lists of numpy arrays; kw: BlockReduce keyword arguments"""
    kwc = {k: v for k, v in kw.items() if not k.startswith("_")}
    split_kw = {k: kwc[k] for k in ("spacing", "shape", "adjust", "region") if k in kwc}
    try:
        blocks, labels = vd.block_split(tuple(coords), **split_kw)
        labels = [int(v) for v in np.ravel(labels)]
        centres = (np.ravel(blocks[0]), np.ravel(blocks[1]))
    except Exception:
        # malformed coordinates: no labels to give; the model rejects on the shapes alone
        labels = list(range(np.asarray(coords[0]).size))
        centres = (np.zeros(1), np.zeros(1))
    obs = observe(vd, red, coords, data, weights, kwc, bool(kw.get("_tuple1")))
    cw = "None" if weights is None else "(Some %s)" % _cdll(weights)
    if obs[0] == "ok":
        cobs = "(Some (%s, %s))" % (_cdll(obs[1]), _cdll(obs[2]))
    elif obs[0] == "ValueError":
        cobs = "None"
    else:
        cobs = "None" if expect_valid else "(Some ([], []))"
    term = "c09_case %s %s %s %s %s (%s, %s) %s %s %s" % (
        red, clist([cZ(v) for v in labels]), _cdll(coords), _cdll(data), cw,
        _cdl(centres[0]), _cdl(centres[1]),
        cbool(kwc.get("center_coordinates", False)), cbool(kwc.get("drop_coords", True)), cobs)
    counts = {}
    for v in labels:
        counts[v] = counts.get(v, 0) + 1
    nontrivial = obs[0] == "ok" and len(counts) >= 2 and max(counts.values()) >= 2
    repro = ("import numpy as np, verde; print(verde.BlockReduce(%s, **%r).filter((%s,), (%s,), %s))" % (
        REDS[red], kwc, ", ".join(_fmt(c) for c in coords), ", ".join(_fmt(d) for d in data),
        "None" if weights is None else "(%s,)" % ", ".join(_fmt(w) for w in weights)))
    inp = {"reduction": REDS[red], "kwargs": kwc, "coordinates": [np.asarray(c).tolist() for c in coords],
           "data": [np.asarray(d).tolist() for d in data],
           "weights": None if weights is None else [np.asarray(w).tolist() for w in weights],
           "labels_from_block_split": labels}
    out = [obs[0]] + ([[a.tolist() for a in obs[1]], [a.tolist() for a in obs[2]]] if obs[0] == "ok" else list(obs[1:]))
    return Case(inp, out, term, repro, kind, nontrivial=nontrivial)


def _fix_weights(ws, labels):
    """make sure every block has a positive weight sum in every component"""
    for w in ws:
        flat = w.ravel()
        sums = {}
        for l, v in zip(labels, flat):
            sums[l] = sums.get(l, 0.0) + v
        for i, l in enumerate(labels):
            if sums[l] == 0.0:
                flat[i] = 0.5
                sums[l] = 0.5
    return ws


def random_config(rnd, vd, i, weighted, kind=None):
    box = (rnd.choice([0, -4, 2]), 0, rnd.choice([0, -3, 1]), 0)
    box = (box[0], box[0] + rnd.choice([6, 8, 10]), box[2], box[2] + rnd.choice([5, 8]))
    layout = rnd.choice(["uniform", "uniform", "clustered", "clustered", "grid"])
    shape2d = None
    if layout == "grid":
        a, b = rnd.randint(2, 6), rnd.randint(2, 8)
        ee = np.linspace(box[0], box[1], b)
        nn = np.linspace(box[2], box[3], a)
        ee = np.round(ee * 64) / 64
        nn = np.round(nn * 64) / 64
        east, north = np.meshgrid(ee, nn)
        n = a * b
        shape2d = (a, b)
        east, north = east.ravel().tolist(), north.ravel().tolist()
    else:
        n = rnd.choice([1, 2, 3, 5, 8, 13, 21, 34, 48, 60]) if i % 6 == 0 else rnd.randint(4, 60)
        east, north = _cloud(rnd, layout, n, box)
        if rnd.random() < 0.25:
            for a, b in [(a, b) for a in range(2, 9) for b in range(2, 9) if a * b == n][:1]:
                shape2d = (a, b)
    ncomp = rnd.choice([1, 1, 2, 3])
    nextra = rnd.choice([0, 0, 1, 2])
    vals = _distinct_values(rnd, n * (ncomp + nextra), 8, -60, 60)
    data = [np.array(vals[c * n:(c + 1) * n]) for c in range(ncomp)]
    extra = [np.array(vals[(ncomp + c) * n:(ncomp + c + 1) * n]) for c in range(nextra)]
    coords = [np.array(east, dtype=float), np.array(north, dtype=float)] + extra
    kw = {}
    # blocks: spacing or shape
    if rnd.random() < 0.55:
        sp = rnd.choice([1.5, 2, 2.5, 3, 4, (2, 3), (3, 1.5), (2.5, 2.5), 20])
        kw["spacing"] = sp
        if rnd.random() < 0.3:
            kw["adjust"] = "region"
    else:
        kw["shape"] = (rnd.randint(1, 6), rnd.randint(1, 6))
    # region given or inferred
    r = rnd.random()
    degenerate = n == 1 or len(set(east)) == 1 or len(set(north)) == 1
    if r < 0.5 or degenerate:
        if rnd.random() < 0.3:
            kw["region"] = (box[0] - 2, box[1] + 3, box[2] - 1, box[3] + 2)   # larger: empty border blocks
        elif rnd.random() < 0.2:
            kw["region"] = (box[0] + 1, box[1] - 1, box[2] + 1, box[3] - 1)   # smaller: outside points snap to the border blocks
        else:
            kw["region"] = box
    kw["center_coordinates"] = rnd.random() < 0.45
    kw["drop_coords"] = rnd.random() < 0.5
    if weighted:
        red = "RAverage"
        weights = []
        for c in range(ncomp):
            wv = _distinct_values(rnd, n, 16, 0.0625, 8)
            if rnd.random() < 0.4:
                for j in rnd.sample(range(n), max(1, n // 8)):
                    wv[j] = 0.0
            weights.append(np.array(wv))
    else:
        red = rnd.choice(["RMean", "RMedian", "RSum", "RMin", "RAverage", "RMedian", "RSum", "RMin"])
        weights = None
    if shape2d is not None:
        coords = [c.reshape(shape2d) for c in coords]
        data = [d.reshape(shape2d) for d in data]
        if weights is not None:
            weights = [w.reshape(shape2d) for w in weights]
    if weights is not None:
        try:
            _, labels = vd.block_split(tuple(coords), **{k: kw[k] for k in ("spacing", "shape", "adjust", "region") if k in kw})
            _fix_weights(weights, [int(v) for v in np.ravel(labels)])
        except Exception:
            pass
    if ncomp == 1 and rnd.random() < 0.3:
        kw["_tuple1"] = True
    return red, coords, data, weights, kw


def edge_cases(rnd, vd):
    """first/last/single/empty-between structures"""
    out = []
    A = np.array
    for red in ["RMean", "RMedian", "RSum", "RMin", "RAverage"]:
        # every point its own block / all points in one block / two far clusters with empty blocks between
        e = A([0.5, 1.5, 2.5, 0.5, 1.5, 2.5]); n = A([0.5, 0.5, 0.5, 1.5, 1.5, 1.5])
        d = A([3.0, -1.5, 7.25, 0.125, 9.0, -4.0]); up = A([10.0, 30.0, 20.0, 60.0, 50.0, 40.0])
        for center in (False, True):
            for drop in (False, True):
                kw = dict(center_coordinates=center, drop_coords=drop)
                out.append((red, [e, n, up], [d], None, dict(kw, spacing=1, region=(0, 3, 0, 2))))
                out.append((red, [e, n, up], [d], None, dict(kw, shape=(1, 1), region=(0, 3, 0, 2))))
                out.append((red, [e[::-1].copy(), n[::-1].copy(), up], [d, d[::-1] * 2 + 100], None, dict(kw, shape=(2, 3))))
                e2 = A([0.25, 9.75, 0.5, 9.5, 0.75, 9.25, 5.0]); n2 = A([0.25, 7.75, 0.5, 7.5, 0.25, 7.75, 0.125])
                d2 = A([1.0, 2.0, 4.0, 8.0, 16.0, 32.0, 64.0])
                out.append((red, [e2, n2, d2 * 3], [d2, -d2 + 0.5, d2 * d2], None, dict(kw, spacing=2, region=(0, 10, 0, 8))))
                out.append((red, [A([1.0]), A([1.0]), A([5.0])], [A([2.5])], None, dict(kw, spacing=1, region=(0, 2, 0, 2))))
    # weighted: zero weight on an outlier, per-component weights
    e2 = A([0.25, 9.75, 0.5, 9.5, 0.75, 9.25, 5.0]); n2 = A([0.25, 7.75, 0.5, 7.5, 0.25, 7.75, 0.125])
    d2 = A([1.0, 2.0, 4.0, 8.0, 16.0, 32.0, 64.0])
    w0 = A([1.0, 2.0, 0.0, 0.5, 3.0, 4.0, 0.25]); w1 = A([0.5, 0.0, 1.0, 3.0, 2.0, 0.125, 1.5]); w2 = A([2.0, 1.0, 1.0, 0.0, 0.25, 5.0, 1.0])
    for center in (False, True):
        for drop in (False, True):
            kw = dict(center_coordinates=center, drop_coords=drop, spacing=2, region=(0, 10, 0, 8))
            out.append(("RAverage", [e2, n2, d2 * 3], [d2, -d2 + 0.5, d2 * d2], [w0, w1, w2], kw))
            out.append(("RAverage", [e2, n2], [d2], [w1], dict(kw, _tuple1=True)))
    return out


def malformed(rnd, vd):
    out = []
    A = np.array
    e = A([0.5, 1.5, 2.5, 0.5]); n = A([0.5, 0.5, 0.5, 1.5]); d = A([3.0, -1.5, 7.25, 0.125]); w = A([1.0, 2.0, 3.0, 4.0])
    kw = dict(spacing=1, region=(0, 3, 0, 2))
    out.append(("RMean", [e, n], [d[:3]], None, kw))
    out.append(("RMean", [e, n], [d, d[:2]], None, kw))
    out.append(("RMedian", [e, n[:3]], [d], None, kw))
    out.append(("RSum", [e, n, d[:2]], [d], None, dict(kw, drop_coords=False)))
    out.append(("RAverage", [e, n], [d], [w[:3]], kw))
    out.append(("RAverage", [e, n], [d, d * 2], [w], kw))
    out.append(("RAverage", [e, n], [d], [w, w], kw))
    out.append(("RAverage", [e, n], [d, d * 2], [w, w[:1]], kw))
    return out


def generate(tier, seed):
    import verde as vd
    rnd = random.Random(seed)
    cases = []
    for cfg in edge_cases(rnd, vd):
        cases.append(make_case(vd, *cfg, kind="edge"))
    for cfg in malformed(rnd, vd):
        cases.append(make_case(vd, *cfg, kind="malformed", expect_valid=False))
    n_rand = 360 if tier == "quick" else 4200
    for i in range(n_rand):
        weighted = i % 3 == 0
        red, coords, data, weights, kw = random_config(rnd, vd, i, weighted)
        kind = ("weighted" if weighted else "unweighted") + ("-center" if kw["center_coordinates"] else "")
        cases.append(make_case(vd, red, coords, data, weights, kw, kind))
    return cases


def search(dis, tier, seed):
    return generate("thorough" if tier == "quick" else "quick", seed + 1)
