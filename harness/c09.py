"""C09 BlockReduce.filter: one correctly reduced value per non-empty block.

Generator: random / clustered / gridded point clouds with distinct data values
(1..3 components), no weights or per-component distinct weights, the five
reductions, spacing or shape, region given or inferred, center_coordinates and
drop_coords on/off, extra coordinates, 1-D and 2-D inputs, plus a small
malformed stream (shape mismatches -> ValueError).  Block labels and block
centres are observed from verde.block_split on the same arguments and handed to
the Coq model, which groups and reduces in exact rational arithmetic."""
import math
import random

import numpy as np

from . import core, pylite_tie
from .core import Case, cD, cZ, clist, cbool

obligations = pylite_tie.blockreduce_obligations   # source-regenerated tie of BlockReduce._block_coordinates (harness/pylite_blockreduce.v.tmpl)
ID = "C09"
PROPS_FILE = "Props/C09.v"
IMPORTS = "From Verde Require Import Lib.QList Model.BlockReduce Model.Weights Model.BlockGeo."
SHARD = 40
RULE = ("\one call with more points than a k-d tree query batch (130001 quick; 150000 and 250001 thorough: subsample to the model, numpy oracle over all points); a quarter of the random cases and 39 edge cases make 1-3 non-empty blocks all-zero or exactly cancelling in every component (reductions incl. np.max); \"no weights\" is passed alternately as None and as a tuple of None (one per component), a single weight array bare or as a 1-tuple; every case of every stream configures the estimator by one of five routes in fixed shares (one fifth each, cycling in generation "
        "order): constructor arguments; construction with deliberately different options followed by set_params(**all options); the same "
        "followed by plain attribute assignment of every option; sklearn.base.clone of a configured instance; construction with one or two "
        "options different (cycling over all options), one filter() call, then those options changed (set_params / assignment alternately) - the "
        "observed filter() must follow the options in force when it is called and equal a constructor-configured instance bitwise. Streams: a fixed geometry stream (c09.geometry_configs: spacings at exact half-integer ratios extent/spacing 0.5, 1.5, 2.5, 4.5 "
        "independently in both directions, adjust=region and adjust=spacing with non-dividing scalar and (north, east) spacings, shapes; region "
        "given and inferred; 14-point clouds holding the region corners) followed by: point clouds of 1..60 points (uniform, clustered so that interior blocks stay empty, regular grids given as "
        "2-D arrays, every point its own block, all points in one block) on a dyadic lattice; data of 1..3 components "
        "with pairwise distinct values; weights absent or one array per component whose pattern is chosen independently "
        "per component from {uniform 1, another uniform constant, varying, varying with zeros (never a whole block)} - all "
        "16 combinations for 2 components and 8 for 3 are also fixed edge cases; reductions numpy mean/median/sum/min/average (weights only with average); "
        "spacing (scalar or pair, adjust spacing/region) or shape; region given (sometimes larger or smaller than the "
        "cloud) or inferred; center_coordinates, drop_coords on/off; 0..2 extra coordinates. Labels and block centres "
        "come from verde.block_split on the same arguments. About 30 % of the random cases (and fixed edge cases) hold integer values in int64 / int32 / float32 arrays - data, weights, extra and sometimes the horizontal coordinates - "
        "with reductions whose block results are not whole numbers (float32: compared within relative 2^-20); 2-D inputs are given in "
        "mixed memory layouts (C, Fortran, transposed view of a transposed copy, strided view of a larger buffer, negative "
        "strides), a different one per array; a quarter of the cases are observed on an instance that has already filtered "
        "other data, and the result must be bitwise that of a fresh instance. The other data is another survey: a cloud with a different point count and a clearly different bounding box "
        "(shifted far away / three times larger / four times smaller), and 70 % of these instances (plus fixed edge cases with "
        "spacing, shape and adjust=region) have region=None so that each call must infer its own region. For every case "
        "get_params() of the instance is compared before and after filter(): a written constructor parameter makes holds false. A case is non-trivial when the call returns, at least one "
        "block has >= 2 members and there are >= 2 non-empty blocks; distinct = distinct full input.")
ASSUMPTIONS = [
    "block labels and centres are observed from verde.block_split on the arguments the filter uses, and are themselves checked in coqc against the documented block grid computed from region / spacing / shape / adjust by the C07/C08 coordinate models (Model/BlockGeo.v: block count with round-half-to-even, adjusted spacing or adjusted region, centre coordinates within 2^-40 x scale, every point in a block that contains it up to 2^-30 x scale at shared edges); skipped when the horizontal coordinates are float32 or extent/spacing is within 2^-30 of a rounding tie without being one",
    "pandas DataFrame.groupby(key).aggregate(f) calls f once per distinct key on the rows carrying it (in row order) and returns the results sorted by key; numpy.unique returns the sorted distinct labels - modelled by the executable specifications groupby / ukeys and re-validated against the implementation on every run",
    "block labels and block centres are taken from verde.block_split (observed on the same arguments); block geometry is outside this property",
    "floats are read as the rationals they denote; reductions are computed exactly in Q and compared with the floating-point results within relative 2^-40 of the largest magnitude in the column (block centres: exactly)",
    "results computed from float32 arrays are compared within relative 2^-20 (single precision), everything else within 2^-40; integer arrays hold values below 2^24 so that they are exact in every dtype used",
    "weights are non-negative with a positive sum in every block (numpy.average raises ZeroDivisionError otherwise); weights are given only with numpy.average (the other numpy reductions take no weights keyword)",
]
TRUSTED = ["python harness harness/c09.py (generators, exact float -> dyadic transfer, verdict parsing)",
           "for the large cases only: the numpy floating-point oracle in harness/c09.py large_case (labels by floor division on the regular block grid, per-block reductions) - the Coq model sees a subsample of the positions"]

REDS = {"RMean": "np.mean", "RMedian": "np.median", "RSum": "np.sum", "RMin": "np.min", "RAverage": "np.average",
        "RMax": "np.max"}
BAD = "(1,600)%Z"


def _cd(x):
    x = float(x)
    return cD(x) if math.isfinite(x) else BAD


def _cdl(a):
    return clist([_cd(v) for v in np.ravel(a)])


def _cdll(arrs):
    return clist([_cdl(a) for a in arrs])


def _lattice(rnd, lo, hi, q):
    """a random multiple of 1/q in [lo, hi]"""
    return rnd.randint(int(math.ceil(lo * q)), int(math.floor(hi * q))) / q


def _cloud(rnd, layout, n, box):
    w, e, s, nn = box
    if layout == "uniform":
        east = [_lattice(rnd, w, e, 64) for _ in range(n)]
        north = [_lattice(rnd, s, nn, 64) for _ in range(n)]
    elif layout == "clustered":
        k = rnd.randint(1, 4)
        cs = [(_lattice(rnd, w, e, 4), _lattice(rnd, s, nn, 4)) for _ in range(k)]
        east, north = [], []
        for _ in range(n):
            c = rnd.choice(cs)
            east.append(min(e, max(w, c[0] + _lattice(rnd, -0.75, 0.75, 64))))
            north.append(min(nn, max(s, c[1] + _lattice(rnd, -0.75, 0.75, 64))))
    else:
        raise ValueError(layout)
    return east, north


def _distinct_values(rnd, count, q, lo, hi):
    """count distinct multiples of 1/q in [lo, hi], in random order"""
    pool = rnd.sample(range(int(lo * q), int(hi * q) + 1), count)
    return [p / q for p in pool]


def geo_term(kwc, coords, split_ok):
    """the block-defining arguments for the model-side geometry check (Model/BlockGeo.v): None when block_split
    raised or the horizontal coordinates are single precision (block centres are then float32)"""
    if not split_ok or any(np.asarray(c).dtype == np.float32 for c in coords[:2]):
        return "None"
    sp = kwc.get("spacing")
    if sp is None:
        csp = "None"
    else:
        sp = list(sp) if isinstance(sp, (tuple, list)) else [sp]
        csp = "(Some %s)" % clist([cD(float(v)) for v in sp])
    reg = kwc.get("region")
    creg = "None" if reg is None else "(Some %s)" % clist([cD(float(v)) for v in reg])
    shp = kwc.get("shape")
    cshp = "None" if shp is None else "(Some (%s, %s))" % (cZ(shp[0]), cZ(shp[1]))
    adj = {"spacing": 0, "region": 1}.get(kwc.get("adjust", "spacing"), 2)
    return "(Some (%s, %s, %s, %s))" % (csp, cZ(adj), creg, cshp)


LAYOUTS = ["C", "F", "TT", "strided", "neg"]


def apply_layout(a, tag):
    """the same logical 2-D array in another memory layout (no-op for 1-D arrays / tag C)"""
    a = np.asarray(a)
    if a.ndim != 2 or tag == "C":
        return a
    if tag == "F":
        return np.asfortranarray(a)
    if tag == "TT":                       # transposed view of a transposed copy
        return a.T.copy().T
    if tag == "strided":                  # every 2nd row / 3rd column of a larger buffer
        big = np.full((a.shape[0] * 2, a.shape[1] * 3), 99, dtype=a.dtype)
        big[::2, ::3] = a
        return big[::2, ::3]
    if tag == "neg":                      # negative strides
        return a[::-1, ::-1].copy()[::-1, ::-1]
    raise ValueError(tag)


def _fmt(a, tag="C"):
    a = np.asarray(a)
    base = "np.array(%r, dtype=%r)" % (a.tolist(), str(a.dtype))
    if a.ndim != 2 or tag == "C":
        return base
    return {"F": "np.asfortranarray(%s)", "TT": "%s.T.copy().T",
            "strided": "np.repeat(np.repeat(%s, 2, 0), 3, 1)[::2, ::3]",
            "neg": "%s[::-1, ::-1].copy()[::-1, ::-1]"}[tag] % base


def first_call_args(coords, data, weights, weighted_ok):
    """arguments for a first call on an instance that is then reused for the case's data: another survey -
    a cloud with a different number of points and a clearly different bounding box (shifted far away /
    three times larger / four times smaller, chosen by the point count), other values, a single component, 1-D"""
    flat = [np.asarray(c, dtype=float).ravel() for c in coords]
    n = flat[0].size
    m = n // 2 + 3 if n % 2 else n + 5
    idx = np.arange(m) % n
    jit = (np.arange(m) // n) * 0.03125          # repeated points are moved a little
    mode = n % 3
    c1 = []
    for k, c in enumerate(flat):
        v = c[idx] + jit
        if k < 2:
            c0 = float(c.min())
            if mode == 0:
                v = v + (17.5 if k == 0 else -11.25)              # shifted
            elif mode == 1:
                v = (v - c0) * 3.0 + c0 - 5.0                     # larger
            else:
                v = (v - c0) * 0.25 + c0 + 0.5                    # smaller
        c1.append(v)
    d1 = np.arange(m) * 0.5 - 3.0
    w1 = None
    if weights is not None and weighted_ok:
        w1 = (np.arange(m) % 7 + 1) * 0.25
    return tuple(c1), d1, w1


def params_snapshot(est):
    """constructor parameters as get_params() reports them (filter() must not write them)"""
    return {k: (v if callable(v) else repr(v)) for k, v in est.get_params().items()}


CONFIG_MODES = ["ctor", "set_params", "attr", "clone", "change"]
OPTION_DEFAULTS = dict(spacing=None, region=None, adjust="spacing", center_coordinates=False, shape=None, drop_coords=True)
_COUNTER = [0]


def next_mode():
    """configuration routes in fixed shares (one fifth each), cycling over every stream in generation order;
    returns (mode, step) - step selects which options a 'change' case alters"""
    k = _COUNTER[0]
    _COUNTER[0] += 1
    return CONFIG_MODES[k % len(CONFIG_MODES)], k // len(CONFIG_MODES)


def configured(vd, cls_name, opts, mode, step=0, first=None):
    """an estimator whose options in force are `opts` (reduction included for BlockReduce), reached by
    ctor        constructor arguments
    set_params  construction with deliberately different options, then set_params(**all options)
    attr        construction with deliberately different options, then plain attribute assignment of every option
    clone       sklearn.base.clone of a configured instance
    change      construction with some options different, one filter() call (on `first`), then those options are
                changed (set_params / attribute assignment alternately) - the next filter() must follow the new ones"""
    import sklearn.base
    cls = getattr(vd, cls_name)
    full = dict(OPTION_DEFAULTS)
    if cls_name == "BlockMean":
        full["uncertainty"] = False
    full.update(opts)
    if mode == "ctor":
        return cls(**opts)
    if mode == "clone":
        return sklearn.base.clone(cls(**opts))
    decoy = dict(spacing=3.0 if full["spacing"] == 7.0 else 7.0, region=(-100.0, 100.0, -100.0, 100.0),
                 adjust="region" if full["adjust"] == "spacing" else "spacing",
                 center_coordinates=not full["center_coordinates"], shape=None if full["shape"] is not None else (2, 2),
                 drop_coords=not full["drop_coords"])
    if "uncertainty" in full:
        decoy["uncertainty"] = not full["uncertainty"]
    if "reduction" in full:
        decoy["reduction"] = np.max if full["reduction"] is not np.max else np.min
    if mode == "set_params":
        est = cls(**decoy)
        est.set_params(**full)
        return est
    if mode == "attr":
        est = cls(**decoy)
        for k, v in full.items():
            setattr(est, k, v)
        return est
    if mode == "change":
        names = sorted(full)
        # alter one option (cycling over all of them) and, every other time, a second one
        alter = [names[step % len(names)]] + ([names[(step * 3 + 1) % len(names)]] if step % 2 else [])
        start = dict(full)
        for k in alter:
            start[k] = decoy[k]
        if start["shape"] is not None and start["spacing"] is not None:     # keep the first call well-formed
            start["spacing" if "shape" in alter else "shape"] = None
            alter = sorted(set(alter) | {"spacing", "shape"})
        est = cls(**start)
        if first is not None:
            try:
                est.filter(*first)
            except Exception:
                pass
        if step % 2:
            est.set_params(**{k: full[k] for k in alter})
        else:
            for k in alter:
                setattr(est, k, full[k])
        return est
    raise ValueError(mode)


_SPELL = [0]


def next_spelling(options):
    k = _SPELL[0]
    _SPELL[0] += 1
    return options[k % len(options)]


def _call_args(coords, data, weights, tuple1, wspell=None):
    """the arguments of filter(); wspell: how the weights argument is spelled -
    no weights: None | "tuple_none" (None,)*ncomp | "list_none" [None]*ncomp | "mixed" (None, array, ...) |
    "mixed_last" (array, ..., None) (the last three only where the call must be rejected);
    one weight array: bare | "tuple" (w,); several: always a tuple"""
    d = tuple(data) if len(data) != 1 or tuple1 else data[0]
    if weights is None:
        some = lambda comp: np.full(np.shape(comp), 2.0)
        if wspell == "tuple_none":
            w = tuple([None] * len(data))
        elif wspell == "list_none":
            w = [None] * len(data)
        elif wspell == "mixed" and len(data) >= 2:
            w = tuple([None] + [some(c) for c in data[1:]])
        elif wspell == "mixed_last" and len(data) >= 2:
            w = tuple([some(c) for c in data[:-1]] + [None])
        elif wspell in ("mixed", "mixed_last"):
            w = (None,)
        else:
            w = None
    elif len(weights) == 1:
        w = (weights[0],) if wspell == "tuple" else weights[0]
    else:
        w = tuple(weights)
    return tuple(coords), d, w


def replay(cls_name, red, opts, mode, step, twice, tuple1, coords, data, weights, wspell=None):
    """re-run one observation (used by the repro strings of the cases)"""
    import verde as vd
    opts = dict(opts)
    if cls_name == "BlockReduce":
        opts["reduction"] = getattr(np, red)
    c, d, w = _call_args(coords, data, weights, tuple1, wspell)
    print("weights argument:", "None" if w is None else type(w).__name__ + " of " + ", ".join("None" if x is None else "array" for x in w)
          if isinstance(w, (tuple, list)) else "array")
    est = configured(vd, cls_name, opts, mode, step, first=(c, d, w))
    before = params_snapshot(est)
    if twice:
        try:
            est.filter(*first_call_args(coords, data, weights, True))
        except Exception as exc:
            print("first call:", exc)
    print("configured by %s%s:" % (mode, " + reused" if twice else ""), est.filter(c, d, w))
    print("get_params unchanged by filter:", params_snapshot(est) == before)
    print("fresh instance from the constructor:", getattr(vd, cls_name)(**opts).filter(c, d, w))


def _same(a, b):
    """bitwise-equal results (tuples of arrays / arrays)"""
    if isinstance(a, tuple) != isinstance(b, tuple):
        return False
    if isinstance(a, tuple):
        return len(a) == len(b) and all(_same(x, y) for x, y in zip(a, b))
    a, b = np.asarray(a), np.asarray(b)
    return a.shape == b.shape and a.dtype == b.dtype and a.tobytes() == b.tobytes()


def observe(vd, red, coords, data, weights, kw, tuple1=False, twice=False, mode="ctor", step=0, wspell=None):
    """run the real code; returns ('ok', coords_list, data_list) | ('ValueError',) | ('other', name).
    twice: the instance has already filtered other data; its result must be that of a fresh instance;
    mode/step: how the options were put in force (see configured)"""
    stale = False
    params_ok = True
    try:
        opts = dict(kw, reduction=getattr(np, REDS[red][3:]))
        c_, d, w = _call_args(coords, data, weights, tuple1, wspell)
        br = configured(vd, "BlockReduce", opts, mode, step, first=(c_, d, w))
        params = params_snapshot(br)
        if twice:
            try:
                br.filter(*first_call_args(coords, data, weights, True))
            except Exception:
                pass
            params_ok = params_snapshot(br) == params
        try:
            oc, od = br.filter(tuple(coords), d, w)
        finally:
            params_ok = params_ok and params_snapshot(br) == params
        if twice or mode != "ctor":
            fresh = vd.BlockReduce(getattr(np, REDS[red][3:]), **kw).filter(tuple(coords), d, w)
            stale = not _same((tuple(oc), od), (tuple(fresh[0]), fresh[1]))
    except ValueError:
        return ("ValueError", params_ok)
    except Exception as exc:
        return ("other", type(exc).__name__ + ": " + str(exc)[:100], params_ok)
    od = list(od) if isinstance(od, tuple) else [od]
    oc = list(oc)
    extra = [np.zeros(1)] if stale else []
    for a in od + oc:
        if np.asarray(a).ndim != 1:
            extra = [np.zeros(1)]
    return ("ok", [np.asarray(a, dtype=float).ravel() for a in oc] + extra,
            [np.asarray(a, dtype=float).ravel() for a in od] + extra, params_ok)


def make_case(vd, red, coords, data, weights, kw, kind, expect_valid=True):
    """coords/data/weights: lists of numpy arrays; kw: BlockReduce keyword arguments"""
    kwc = {k: v for k, v in kw.items() if not k.startswith("_")}
    split_kw = {k: kwc[k] for k in ("spacing", "shape", "adjust", "region") if k in kwc}
    try:
        blocks, labels = vd.block_split(tuple(coords), **split_kw)
        labels = [int(v) for v in np.ravel(labels)]
        centres = (np.ravel(blocks[0]), np.ravel(blocks[1]))
        split_ok = True
    except Exception:
        # malformed coordinates: no labels to give; the model rejects on the shapes alone
        labels = list(range(np.asarray(coords[0]).size))
        centres = (np.zeros(1), np.zeros(1))
        split_ok = False
    mode, step = kw.get("_mode") or next_mode()
    if not expect_valid:
        mode = "ctor"
    wspell = kw.get("_wspelling")
    if wspell is None and expect_valid:
        # "no weights" as None or as a tuple of None; a single weight array bare or as a 1-tuple
        wspell = next_spelling(["none", "tuple_none"]) if weights is None else (
            next_spelling(["bare", "tuple"]) if len(weights) == 1 else "tuple")
    obs = observe(vd, red, coords, data, weights, kwc, bool(kw.get("_tuple1")), bool(kw.get("_twice")), mode, step, wspell)
    tags = list(kw.get("_layouts") or []) + ["C"] * 16
    tc, td, tw = tags[:len(coords)], tags[len(coords):len(coords) + len(data)], tags[len(coords) + len(data):]
    cw = "None" if weights is None else "(Some %s)" % _cdll(weights)
    if obs[0] == "ok":
        cobs = "(Some (%s, %s))" % (_cdll(obs[1]), _cdll(obs[2]))
    elif obs[0] == "ValueError":
        cobs = "None"
    else:
        cobs = "None" if expect_valid else "(Some ([], []))"
    term = "c09_case_geo %s %s %s %s %s %s %s %s (%s, %s) %s %s %s %s" % (
        geo_term(kwc, coords, split_ok), kw.get("_epsd", "eps40"), kw.get("_epsc", "eps40"), red, clist([cZ(v) for v in labels]), _cdll(coords), _cdll(data), cw,
        _cdl(centres[0]), _cdl(centres[1]),
        cbool(kwc.get("center_coordinates", False)), cbool(kwc.get("drop_coords", True)), cbool(bool(obs[-1])), cobs)
    counts = {}
    for v in labels:
        counts[v] = counts.get(v, 0) + 1
    nontrivial = obs[0] == "ok" and len(counts) >= 2 and max(counts.values()) >= 2
    repro = ("import numpy as np; from harness.c09 import replay; replay('BlockReduce', %r, %r, %r, %d, %r, %r, [%s], [%s], %s)" % (
        REDS[red][3:], kwc, mode, step, bool(kw.get("_twice")), bool(kw.get("_tuple1")),
        ", ".join(_fmt(c, t) for c, t in zip(coords, tc)), ", ".join(_fmt(d, t) for d, t in zip(data, td)),
        "None" if weights is None else "[%s]" % ", ".join(_fmt(w, t) for w, t in zip(weights, tw))))
    repro = repro[:-1] + ", %r)" % wspell
    inp = {"reduction": REDS[red], "kwargs": kwc, "coordinates": [np.asarray(c).tolist() for c in coords],
           "data": [np.asarray(d).tolist() for d in data],
           "weights": None if weights is None else [np.asarray(w).tolist() for w in weights],
           "labels_from_block_split": labels,
           "dtypes": [str(np.asarray(a).dtype) for a in list(coords) + list(data) + (list(weights) if weights is not None else [])],
           "layouts": kw.get("_layouts"), "instance_reused": bool(kw.get("_twice")),
           "weight_patterns": kw.get("_wpatterns"), "configured_by": mode, "config_step": step,
           "weights_spelled": wspell, "blocks_made_zero_or_cancelling": kw.get("_zero_blocks")}
    out = [obs[0]] + ([[a.tolist() for a in obs[1]], [a.tolist() for a in obs[2]]] if obs[0] == "ok" else list(obs[1:-1])) \
        + [{"get_params_unchanged": bool(obs[-1])}]
    return Case(inp, out, term, repro, kind, nontrivial=nontrivial)


def _fix_weights(ws, labels):
    """make sure every block has a positive weight sum in every component"""
    for w in ws:
        flat = w.ravel()
        sums = {}
        for l, v in zip(labels, flat):
            sums[l] = sums.get(l, 0.0) + v
        for i, l in enumerate(labels):
            if sums[l] == 0.0:
                flat[i] = 1 if flat.dtype.kind in "iu" else 0.5
                sums[l] = float(flat[i])
    return ws


def cast_variant(rnd, n, ncomp, nextra, box, weighted, dt, int_coords, east, north):
    """integer-valued arrays in dtype dt (int64 / int32 / float32): data, extra coordinates, weights and
    (int_coords) the horizontal coordinates; block means / even medians / weighted averages of integers
    are not whole numbers, so a result forced back to the input dtype shows"""
    vals = [int(v) for v in _distinct_values(rnd, n * (ncomp + nextra), 1, -480, 480)]
    data = [np.array(vals[c * n:(c + 1) * n]).astype(dt) for c in range(ncomp)]
    extra = [np.array(vals[(ncomp + c) * n:(ncomp + c + 1) * n]).astype(dt) for c in range(nextra)]
    if int_coords:
        east = [rnd.randint(box[0], box[1]) for _ in range(n)]
        north = [rnd.randint(box[2], box[3]) for _ in range(n)]
        hc = [np.array(east).astype(dt), np.array(north).astype(dt)]
    else:
        hc = [np.array(east, dtype=float), np.array(north, dtype=float)]
    weights = None
    if weighted:
        weights = []
        for c in range(ncomp):
            wv = [int(v) for v in _distinct_values(rnd, n, 1, 1, n + 40)]
            if rnd.random() < 0.4:
                for j in rnd.sample(range(n), max(1, n // 8)):
                    wv[j] = 0
            weights.append(np.array(wv).astype(dt))
    return hc + extra, data, weights


def weight_patterns(rnd, weights, n, piecewise=False):
    """choose a pattern for every weight component independently: uniform 1, another uniform constant, (piecewise
    constant,) or the generated varying weights (which carry zeros in 40 % of the cases) - so that a uniform first
    component meets varying later ones and vice versa; returns (weights, pattern names)"""
    out, names = [], []
    for w in weights:
        ints = w.dtype.kind in "iu" or w.dtype == np.float32
        levels = [2, 3, 5, 7, 11, 13] if ints else [0.25, 0.5, 2.0, 2.5, 3.0, 7.0]
        pat = rnd.choice(["ones", "const", "piecewise" if piecewise else "varying", "varying", "varying"])
        if pat == "ones":
            w = np.ones(n).astype(w.dtype)
        elif pat == "const":
            w = np.full(n, rnd.choice(levels)).astype(w.dtype)
        elif pat == "piecewise":
            k = rnd.randint(2, 3)
            cuts = sorted(rnd.sample(range(1, n), min(k - 1, n - 1))) if n > 1 else []
            lv = rnd.sample(levels, k)
            w = np.array([lv[sum(j >= c for c in cuts)] for j in range(n)]).astype(w.dtype)
        else:
            pat = "varying+zeros" if (np.asarray(w) == 0).any() else "varying"
        out.append(w)
        names.append(pat)
    return out, names


def random_config(rnd, vd, i, weighted, kind=None):
    box = (rnd.choice([0, -4, 2]), 0, rnd.choice([0, -3, 1]), 0)
    box = (box[0], box[0] + rnd.choice([6, 8, 10]), box[2], box[2] + rnd.choice([5, 8]))
    layout = rnd.choice(["uniform", "uniform", "clustered", "clustered", "grid", "grid"])
    shape2d = None
    if layout == "grid":
        a, b = rnd.randint(2, 6), rnd.randint(2, 8)
        ee = np.linspace(box[0], box[1], b)
        nn = np.linspace(box[2], box[3], a)
        ee = np.round(ee * 64) / 64
        nn = np.round(nn * 64) / 64
        east, north = np.meshgrid(ee, nn)
        n = a * b
        shape2d = (a, b)
        east, north = east.ravel().tolist(), north.ravel().tolist()
    else:
        n = rnd.choice([1, 2, 3, 5, 8, 13, 21, 34, 48, 60]) if i % 6 == 0 else rnd.randint(4, 60)
        east, north = _cloud(rnd, layout, n, box)
        if rnd.random() < 0.35:
            for a, b in [(a, b) for a in range(2, 9) for b in range(2, 9) if a * b == n][:1]:
                shape2d = (a, b)
    ncomp = rnd.choice([1, 1, 2, 3])
    nextra = rnd.choice([0, 0, 1, 2])
    kw = {}
    dt = None
    if rnd.random() < 0.3:
        dt = rnd.choice([np.int64, np.int32, np.float32])
    if dt is not None:
        int_coords = rnd.random() < 0.4 and layout != "grid"
        coords, data, weights = cast_variant(rnd, n, ncomp, nextra, box, weighted, dt, int_coords, east, north)
        if dt is np.float32:
            kw["_epsd"] = "eps20"
            if int_coords or nextra:
                kw["_epsc"] = "eps20"
    else:
        int_coords = False
        vals = _distinct_values(rnd, n * (ncomp + nextra), 8, -60, 60)
        data = [np.array(vals[c * n:(c + 1) * n]) for c in range(ncomp)]
        extra = [np.array(vals[(ncomp + c) * n:(ncomp + c + 1) * n]) for c in range(nextra)]
        coords = [np.array(east, dtype=float), np.array(north, dtype=float)] + extra
        weights = None
        if weighted:
            weights = []
            for c in range(ncomp):
                wv = _distinct_values(rnd, n, 16, 0.0625, 8)
                if rnd.random() < 0.4:
                    for j in rnd.sample(range(n), max(1, n // 8)):
                        wv[j] = 0.0
                weights.append(np.array(wv))
    if weights is not None:
        # every component gets its own pattern: the weighted reduction of a component must use that component's
        # weights whatever the other components' weights look like
        weights, kw["_wpatterns"] = weight_patterns(rnd, weights, n)
    # blocks: spacing or shape
    if rnd.random() < 0.55:
        sp = rnd.choice([1.5, 2, 2.5, 3, 4, (2, 3), (3, 1.5), (2.5, 2.5), 20])
        kw["spacing"] = sp
        if rnd.random() < 0.3:
            kw["adjust"] = "region"
    else:
        kw["shape"] = (rnd.randint(1, 6), rnd.randint(1, 6))
    # region given or inferred
    r = rnd.random()
    e0, n0 = np.ravel(coords[0]), np.ravel(coords[1])
    degenerate = n == 1 or len(set(e0.tolist())) == 1 or len(set(n0.tolist())) == 1
    # a quarter of the cases run on an instance that has filtered another survey before; most of those leave
    # the region to be inferred from each call's own points
    twice = rnd.random() < 0.25
    if (r < 0.5 and not (twice and rnd.random() < 0.7)) or degenerate:
        if rnd.random() < 0.3:
            kw["region"] = (box[0] - 2, box[1] + 3, box[2] - 1, box[3] + 2)   # larger: empty border blocks
        elif rnd.random() < 0.2:
            kw["region"] = (box[0] + 1, box[1] - 1, box[2] + 1, box[3] - 1)   # smaller: outside points snap to the border blocks
        else:
            kw["region"] = box
    kw["center_coordinates"] = rnd.random() < 0.45
    kw["drop_coords"] = rnd.random() < 0.5
    if weighted:
        red = "RAverage"
    else:
        red = rnd.choice(["RMean", "RMedian", "RSum", "RMin", "RAverage", "RMedian", "RSum", "RMin", "RMax", "RSum"])
        if dt is not None and rnd.random() < 0.6:
            red = rnd.choice(["RMean", "RMedian", "RAverage"])
    if shape2d is not None:
        coords = [c.reshape(shape2d) for c in coords]
        data = [d.reshape(shape2d) for d in data]
        if weights is not None:
            weights = [w.reshape(shape2d) for w in weights]
    if weights is not None:
        try:
            _, labels = vd.block_split(tuple(coords), **{k: kw[k] for k in ("spacing", "shape", "adjust", "region") if k in kw})
            _fix_weights(weights, [int(v) for v in np.ravel(labels)])
        except Exception:
            pass
    if rnd.random() < 0.25:
        # blocks whose members are all zero and blocks whose members cancel exactly, in every component: such a
        # block is not empty and keeps its entry (value 0 for a sum)
        try:
            _, lab = vd.block_split(tuple(coords), **{k: kw[k] for k in ("spacing", "shape", "adjust", "region") if k in kw})
            lab = np.ravel(lab)
            chosen = rnd.sample(sorted(set(lab.tolist())), min(len(set(lab.tolist())), rnd.randint(1, 3)))
            for b_ in chosen:
                idx = np.flatnonzero(lab == b_)
                zero = rnd.random() < 0.5
                for j, dcomp in enumerate(data):
                    flat = dcomp.reshape(-1)          # a view: the arrays are still C-contiguous here
                    a_ = (j + 1) * (3 if dcomp.dtype.kind in "iu" or dcomp.dtype == np.float32 else 1.5)
                    vals = [0] * idx.size if zero else [(a_ + k_ // 2) * (1 if k_ % 2 == 0 else -1) for k_ in range(idx.size - idx.size % 2)] + [0] * (idx.size % 2)
                    flat[idx] = np.array(vals).astype(dcomp.dtype)
            kw["_zero_blocks"] = [int(b_) for b_ in chosen]
        except Exception:
            pass
    if shape2d is not None and rnd.random() < 0.7:
        # the same logical arrays in different memory layouts, a different one per array
        nw = 0 if weights is None else len(weights)
        tags = [rnd.choice(LAYOUTS) for _ in range(len(coords) + len(data) + nw)]
        kw["_layouts"] = tags
        coords = [apply_layout(c, t) for c, t in zip(coords, tags)]
        data = [apply_layout(d, t) for d, t in zip(data, tags[len(coords):])]
        if weights is not None:
            weights = [apply_layout(w, t) for w, t in zip(weights, tags[len(coords) + len(data):])]
    if ncomp == 1 and rnd.random() < 0.3:
        kw["_tuple1"] = True
    if twice:
        kw["_twice"] = True
    return red, coords, data, weights, kw


def edge_cases(rnd, vd):
    """first/last/single/empty-between structures"""
    out = []
    A = np.array
    for red in ["RMean", "RMedian", "RSum", "RMin", "RAverage"]:
        # every point its own block / all points in one block / two far clusters with empty blocks between
        e = A([0.5, 1.5, 2.5, 0.5, 1.5, 2.5]); n = A([0.5, 0.5, 0.5, 1.5, 1.5, 1.5])
        d = A([3.0, -1.5, 7.25, 0.125, 9.0, -4.0]); up = A([10.0, 30.0, 20.0, 60.0, 50.0, 40.0])
        for center in (False, True):
            for drop in (False, True):
                kw = dict(center_coordinates=center, drop_coords=drop)
                out.append((red, [e, n, up], [d], None, dict(kw, spacing=1, region=(0, 3, 0, 2))))
                out.append((red, [e, n, up], [d], None, dict(kw, shape=(1, 1), region=(0, 3, 0, 2))))
                out.append((red, [e[::-1].copy(), n[::-1].copy(), up], [d, d[::-1] * 2 + 100], None, dict(kw, shape=(2, 3))))
                e2 = A([0.25, 9.75, 0.5, 9.5, 0.75, 9.25, 5.0]); n2 = A([0.25, 7.75, 0.5, 7.5, 0.25, 7.75, 0.125])
                d2 = A([1.0, 2.0, 4.0, 8.0, 16.0, 32.0, 64.0])
                out.append((red, [e2, n2, d2 * 3], [d2, -d2 + 0.5, d2 * d2], None, dict(kw, spacing=2, region=(0, 10, 0, 8))))
                out.append((red, [A([1.0]), A([1.0]), A([5.0])], [A([2.5])], None, dict(kw, spacing=1, region=(0, 2, 0, 2))))
    # weighted: zero weight on an outlier, per-component weights
    e2 = A([0.25, 9.75, 0.5, 9.5, 0.75, 9.25, 5.0]); n2 = A([0.25, 7.75, 0.5, 7.5, 0.25, 7.75, 0.125])
    d2 = A([1.0, 2.0, 4.0, 8.0, 16.0, 32.0, 64.0])
    w0 = A([1.0, 2.0, 0.0, 0.5, 3.0, 4.0, 0.25]); w1 = A([0.5, 0.0, 1.0, 3.0, 2.0, 0.125, 1.5]); w2 = A([2.0, 1.0, 1.0, 0.0, 0.25, 5.0, 1.0])
    for center in (False, True):
        for drop in (False, True):
            kw = dict(center_coordinates=center, drop_coords=drop, spacing=2, region=(0, 10, 0, 8))
            out.append(("RAverage", [e2, n2, d2 * 3], [d2, -d2 + 0.5, d2 * d2], [w0, w1, w2], kw))
            out.append(("RAverage", [e2, n2], [d2], [w1], dict(kw, _tuple1=True)))
    # integer-valued data / weights / coordinates in integer and single-precision dtypes: blocks of 2, 3, 1, 2, 1, 4
    # members whose means, even medians and weighted averages are not whole numbers; 2-D inputs in mixed layouts
    ei = A([0, 0, 1, 1, 1, 2, 0, 0, 1, 2, 2, 2, 2]); ni = A([0, 0, 0, 0, 0, 0, 1, 1, 1, 1, 1, 1, 1])
    di = A([3, 8, 1, 2, 12, 5, 7, 10, -4, 1, 2, 4, 10]); dj = A([-7, 2, 30, 11, 9, 6, 1, 0, 8, 21, 3, 5, 14])
    wi = A([1, 2, 3, 1, 2, 1, 5, 2, 1, 1, 0, 3, 2]); wj = A([2, 1, 1, 4, 0, 3, 1, 1, 2, 7, 1, 1, 2])
    ui = A([10, 30, 20, 60, 50, 40, 70, 90, 80, 100, 120, 110, 131])
    for dt in (np.int64, np.int32, np.float32):
        eps = {"_epsd": "eps20", "_epsc": "eps20"} if dt is np.float32 else {}
        for red in ["RMean", "RMedian", "RAverage", "RSum", "RMin"]:
            for center in (False, True):
                kw = dict(eps, center_coordinates=center, drop_coords=False, spacing=1, region=(-0.5, 2.5, -0.5, 1.5))
                out.append((red, [ei + 0.0, ni + 0.0, ui.astype(dt)], [di.astype(dt), dj.astype(dt)], None, dict(kw)))
                out.append((red, [ei.astype(dt), ni.astype(dt), ui.astype(dt)], [di.astype(dt)], None, dict(kw, _twice=True)))
        for center in (False, True):
            kw = dict(eps, center_coordinates=center, drop_coords=False, spacing=1, region=(-0.5, 2.5, -0.5, 1.5))
            out.append(("RAverage", [ei + 0.0, ni + 0.0], [di.astype(dt), dj.astype(dt)], [wi.astype(dt), wj.astype(dt)], dict(kw)))
            out.append(("RAverage", [ei.astype(dt), ni.astype(dt), ui.astype(dt)], [dj.astype(dt)], [wi.astype(dt)], dict(kw, _twice=True)))
        # 2-D (3 x 4) with a different layout per array
        e2 = np.arange(12).reshape(3, 4) % 4; n2 = np.arange(12).reshape(3, 4) // 4
        d2 = A([[5, 2, 9, 4], [7, 12, 1, 0], [3, 8, 6, 11]])
        for k, red in enumerate(["RMean", "RMedian", "RAverage"]):
            tags = [LAYOUTS[(k + j) % 5] for j in range(1, 6)]
            kw = dict(eps, spacing=2, region=(-0.5, 3.5, -0.5, 2.5), drop_coords=False, _layouts=tags)
            arrs = [e2 + 0.0, n2 + 0.0, (d2 * 3).astype(dt), d2.astype(dt), (d2 * d2).astype(dt)]
            arrs = [apply_layout(a, t) for a, t in zip(arrs, tags)]
            out.append((red, arrs[:3], arrs[3:], None, kw))
    # every combination of per-component weight patterns (uniform 1, another uniform constant, varying, varying with
    # zeros) for 2 components and a selection for 3, on blocks of 2, 3, 1, 2, 1, 4 members: each component must be
    # averaged with its own weights, whatever the first (or any other) component's weights look like
    e5 = A([0.25, 0.5, 1.25, 1.5, 1.75, 2.5, 0.25, 0.75, 1.5, 2.25, 2.5, 2.75, 2.875])
    n5 = A([0.5, 0.5, 0.5, 0.5, 0.5, 0.5, 1.5, 1.5, 1.5, 1.5, 1.5, 1.5, 1.5])
    dd = [A([0.0, 2.0, 0.0, 3.0, 6.0, 5.0, 1.5, -1.0, 7.0, 1.0, 2.0, 4.0, 8.0]),
          A([1.0, 5.0, 2.0, 3.0, 7.0, -5.0, 0.25, -0.75, 0.5, 10.0, 20.0, 40.0, 80.0]),
          A([9.0, -3.0, 4.5, 6.0, 0.0, 9.0, 3.0, 4.0, 0.25, -1.0, -2.0, -4.0, -8.5])]
    pats = {"ones": np.ones(13), "const": np.full(13, 2.5),
            "varying": A([1.0, 2.0, 0.5, 3.0, 1.5, 4.0, 0.25, 0.75, 2.5, 1.25, 5.0, 3.5, 2.25]),
            "zeros": A([0.5, 0.0, 4.0, 1.0, 0.0, 0.125, 3.0, 1.0, 6.0, 0.0, 2.0, 1.0, 0.375])}
    names = list(pats)
    combos = [(a, b) for a in names for b in names]
    combos += [("ones", "varying", "zeros"), ("const", "ones", "varying"), ("varying", "ones", "const"),
               ("ones", "ones", "varying"), ("const", "const", "zeros"), ("varying", "zeros", "ones"),
               ("zeros", "varying", "varying"), ("ones", "const", "ones")]
    for k, combo in enumerate(combos):
        kw = dict(spacing=1, region=(0, 3, 0, 2), center_coordinates=bool(k % 2), drop_coords=bool(k % 3),
                  _wpatterns=list(combo))
        out.append(("RAverage", [e5, n5, dd[2] * 2 + 1], [dd[j] for j in range(len(combo))],
                    [pats[c].copy() * (1 if c in ("ones", "const") else j + 1) for j, c in enumerate(combo)], kw))
    # non-empty blocks whose members are all zero (blocks 1 and 2) or cancel exactly (blocks 0 and 5), in every
    # component: one value per non-empty block, for every reduction, unweighted and weighted, 1-3 components
    z0 = A([1.5, -1.5, 0.0, 0.0, 0.0, 0.0, 3.0, 7.0, -2.0, 2.0, -2.0, 0.5, -0.5])
    z1 = A([-4.0, 4.0, 0.0, 0.0, 0.0, 0.0, 1.0, 2.0, 5.0, 0.25, -0.25, 8.0, -8.0])
    z2 = A([0.0, 0.0, 0.0, 0.0, 0.0, 0.0, -1.0, 6.0, 9.0, 1.0, 1.0, -1.0, -1.0])
    wz = A([1.0, 2.0, 0.5, 3.0, 1.5, 4.0, 0.25, 0.75, 2.5, 1.25, 5.0, 3.5, 2.25])
    for red in ["RSum", "RMean", "RMedian", "RMin", "RMax", "RAverage"]:
        for ncomp in (1, 2, 3):
            for center in (False, True):
                kw = dict(spacing=1, region=(0, 3, 0, 2), center_coordinates=center, drop_coords=(ncomp != 2))
                out.append((red, [e5, n5, dd[2] * 2 + 1], [z0, z1, z2][:ncomp], None, dict(kw)))
                # every block sums to zero
                out.append((red, [e5, n5], [z2 * 0, z0 * 0 + A([2.0, -2.0] + [0.0] * 11), z2 * 0][:ncomp], None, dict(kw)))
    for ncomp in (1, 2, 3):
        kw = dict(spacing=1, region=(0, 3, 0, 2), center_coordinates=bool(ncomp % 2), drop_coords=False)
        out.append(("RAverage", [e5, n5, dd[2] * 2 + 1], [z0, z1, z2][:ncomp], [wz, wz[::-1].copy(), wz * 2][:ncomp], kw))
    # one object, two surveys: the instance first filters a cloud with another bounding box (shifted / larger /
    # smaller, by point count) and point count; region=None, so each call must infer its own region
    for npts in (12, 13, 14):
        e3 = (np.arange(npts) * 11 % npts) * 0.5 + 1.0; n3 = (np.arange(npts) * 5 % npts) * 0.25 - 2.0
        d3 = np.arange(npts) * 1.5 - 4.0; w3 = (np.arange(npts) % 5 + 1) * 0.5; u3 = np.arange(npts)[::-1] * 2.0 + 7.0
        for blk in (dict(spacing=1.5), dict(shape=(3, 2)), dict(spacing=(1, 2), adjust="region")):
            for center in (False, True):
                kw = dict(blk, center_coordinates=center, drop_coords=not center, _twice=True)
                out.append(("RMedian", [e3, n3, u3], [d3], None, dict(kw)))
                out.append(("RSum", [e3, n3, u3], [d3, d3 * d3], None, dict(kw)))
                out.append(("RAverage", [e3, n3, u3], [d3, -d3], [w3, w3[::-1].copy()], dict(kw)))
    return out


def geometry_configs(full=True):
    """block-defining arguments on the decision boundaries of the documented rule, each with a cloud of 14 points
    (the four corners of the region, so that an inferred region is the same one, interior points, points on block
    edges): returns [(east, north, block kwargs)].
    * spacings at EXACT half-integer ratios extent / spacing = 0.5, 1.5, 2.5, 4.5 (Python rounds these to the even
      neighbour: 0 -> one block, 2, 2, 4), independently in both directions, region given and inferred, both adjust modes
    * adjust="region" / "spacing" with spacings that do not divide the region (blocks exactly the spacing wide over
      the adjusted region vs. the whole region divided evenly), scalar and (north, east) spacings
    * shape=(n_north, n_east)"""
    out = []
    fr = [0.0, 1.0, 0.21875, 0.59375, 0.40625, 0.78125, 0.09375, 0.90625, 0.5, 0.34375, 0.65625, 0.96875, 0.03125, 0.71875]
    fn = [0.0, 1.0, 0.84375, 0.15625, 0.53125, 0.28125, 0.46875, 0.71875, 0.96875, 0.0625, 0.375, 0.625, 0.90625, 0.5]
    fe = [0.0, 1.0, 1.0, 0.0] + fr[4:]
    fn2 = [0.0, 1.0, 0.0, 1.0] + fn[4:]

    def cloud(w, e, s_, n):
        return (np.array([w + f * (e - w) for f in fe]), np.array([s_ + f * (n - s_) for f in fn2]))

    ratios = [0.5, 1.5, 2.5, 4.5]
    k = 0
    for rx in ratios:
        for ry in ratios:
            for sp, (w, s_) in ((2.0, (0.0, 0.0)), (0.5, (-3.0, 1.5))):
                if not full and (k % 2):
                    k += 1
                    continue
                k += 1
                e, n = w + rx * sp, s_ + ry * sp
                for adjust in ("spacing", "region"):
                    for given in (True, False):
                        kw = dict(spacing=sp, adjust=adjust)
                        if given:
                            kw["region"] = (w, e, s_, n)
                        out.append(cloud(w, e, s_, n) + (kw,))
    # (north, east) spacings with a tie in one direction only
    for (sn, se), (w, e, s_, n) in (((2.0, 3.0), (0.0, 7.5, 0.0, 5.0)), ((0.5, 2.0), (1.0, 10.0, -1.0, 0.25)),
                                    ((1.5, 1.0), (0.0, 2.5, 0.0, 6.75)), ((4.0, 0.25), (-1.0, 0.125, 2.0, 12.0))):
        for adjust in ("spacing", "region"):
            for given in (True, False):
                kw = dict(spacing=(sn, se), adjust=adjust)
                if given:
                    kw["region"] = (w, e, s_, n)
                out.append(cloud(w, e, s_, n) + (kw,))
    # spacings that do not divide the region
    for sp, (w, e, s_, n) in ((3, (0.0, 10.0, -5.0, 5.0)), ((3, 4), (0.0, 10.0, -5.0, 5.0)), (1.5, (2.0, 9.0, 0.0, 5.0)),
                              (2.5, (0.0, 8.0, 0.0, 6.0)), ((0.75, 2.0), (-4.0, 3.0, 1.0, 3.0)), (7, (0.0, 10.0, 0.0, 8.0)),
                              (20, (0.0, 10.0, 0.0, 8.0)), ((1.25, 3.5), (0.0, 10.0, -5.0, 5.0))):
        for adjust in ("region", "spacing"):
            for given in (True, False):
                kw = dict(spacing=sp, adjust=adjust)
                if given:
                    kw["region"] = (w, e, s_, n)
                out.append(cloud(w, e, s_, n) + (kw,))
    # shapes
    for shp, (w, e, s_, n) in (((2, 3), (0.0, 10.0, -5.0, 5.0)), ((1, 4), (0.0, 10.0, -5.0, 5.0)), ((5, 1), (2.0, 9.0, 0.0, 5.0)),
                               ((3, 3), (-4.0, 3.0, 1.0, 3.0)), ((1, 1), (0.0, 8.0, 0.0, 6.0)), ((4, 2), (0.0, 5.0, 0.0, 9.0))):
        for given in (True, False):
            kw = dict(shape=shp)
            if given:
                kw["region"] = (w, e, s_, n)
            out.append(cloud(w, e, s_, n) + (kw,))
    return out


def geometry_cases(vd, tier):
    out = []
    d = np.array([3.0, -1.5, 7.25, 0.125, 9.0, -4.0, 2.5, 11.0, -6.75, 5.5, 1.0, -2.25, 8.0, 4.75])
    u = np.arange(14)[::-1] * 2.0 + 7.0
    w = np.array([1.0, 2.0, 0.5, 3.0, 1.5, 4.0, 0.25, 0.75, 2.5, 1.25, 5.0, 3.5, 2.25, 0.125])
    reds = ["RMean", "RMedian", "RSum", "RMin", "RAverage"]
    for k, (e, n, blk) in enumerate(geometry_configs(full=(tier != "quick"))):
        kw = dict(blk, center_coordinates=(k % 3 != 0), drop_coords=bool(k % 2))
        if k % 5 == 4:
            out.append(make_case(vd, "RAverage", [e, n, u], [d, d * d], [w, w[::-1].copy()], kw, "geometry"))
        else:
            out.append(make_case(vd, reds[k % 5], [e, n, u], [d], None, kw, "geometry"))
    return out


def large_case(vd, npts, red, kw, seed):
    """one call with more points than a k-d tree query batch.  The Coq model sees a fixed subsample of positions
    (first, last, every 997th, a run around every multiple of 100000) and checks their labels against the documented
    grid; over ALL points a floating-point numpy oracle (floor division on the regular block grid; points within
    2^-30 of an edge excluded) must give the same block populations as the observed labels, and the filter must
    return one entry per occupied block with the oracle's values"""
    rs = np.random.RandomState(seed)
    w_, e_, s_, n_ = kw["region"]
    # odd multiples of 1/8192: never on a block edge of the grids used
    east = (np.floor(rs.uniform(w_, e_, npts) * 4096) + 0.5) / 4096
    north = (np.floor(rs.uniform(s_, n_, npts) * 4096) + 0.5) / 4096
    data = np.round(rs.uniform(-50, 50, npts) * 64) / 64
    split_kw = {k: kw[k] for k in ("spacing", "shape", "adjust", "region") if k in kw}
    blocks, labels = vd.block_split((east, north), **split_kw)
    labels = np.asarray(labels)
    ce, cn = np.ravel(blocks[0]), np.ravel(blocks[1])
    oc, od = vd.BlockReduce(getattr(np, REDS[red][3:]), **kw).filter((east, north), data)
    od = np.asarray(od, dtype=float)
    # floating-point oracle: the regular grid spanned by the observed centres
    xs, ys = np.unique(ce), np.unique(cn)
    dx = (xs[1] - xs[0]) if xs.size > 1 else 1.0
    dy = (ys[1] - ys[0]) if ys.size > 1 else 1.0
    fx, fy = (east - (xs[0] - dx / 2)) / dx, (north - (ys[0] - dy / 2)) / dy
    ix = np.clip(np.floor(fx).astype(int), 0, xs.size - 1)
    iy = np.clip(np.floor(fy).astype(int), 0, ys.size - 1)
    oracle = iy * xs.size + ix
    safe = (np.abs(fx - np.round(fx)) > 2.0 ** -30) & (np.abs(fy - np.round(fy)) > 2.0 ** -30)
    nb = ce.size
    pops_ok = labels.shape == oracle.shape and np.array_equal(np.bincount(labels[safe], minlength=nb), np.bincount(oracle[safe], minlength=nb))
    occ = np.flatnonzero(np.bincount(oracle, minlength=nb))
    count_ok = od.shape == (occ.size,) and all(np.asarray(c).shape == (occ.size,) for c in oc)
    values_ok = False
    if count_ok:
        fn = getattr(np, REDS[red][3:])
        order = np.argsort(oracle, kind="stable")
        cuts = np.flatnonzero(np.diff(oracle[order])) + 1
        ref = np.array([fn(g) for g in np.split(data[order], cuts)])
        values_ok = bool(np.allclose(od, ref, rtol=1e-9, atol=1e-9))
        if kw.get("center_coordinates"):
            values_ok = values_ok and np.array_equal(oc[0], ce[occ]) and np.array_equal(oc[1], cn[occ])
    oracle_ok = bool(pops_ok and count_ok and values_ok)
    pos = {0, npts - 1} | set(range(0, npts, 997))
    for m in range(100000, npts + 1, 100000):
        pos |= {p_ for p_ in range(m - 3, m + 4) if 0 <= p_ < npts}
    pos = sorted(pos)
    kwc = {k: v for k, v in kw.items() if not k.startswith("_")}
    term = "c09_large_case %s %s (%s, %s) %s %s" % (
        geo_term(kwc, [east, north], True), _cdll([east[pos], north[pos]]), _cdl(ce), _cdl(cn),
        clist([cZ(int(v)) for v in labels[pos]]), cbool(oracle_ok))
    repro = ("import numpy as np, verde; rs = np.random.RandomState(%d); n = %d; "
             "east = (np.floor(rs.uniform(%r, %r, n) * 4096) + 0.5) / 4096; north = (np.floor(rs.uniform(%r, %r, n) * 4096) + 0.5) / 4096; "
             "data = np.round(rs.uniform(-50, 50, n) * 64) / 64; b, l = verde.block_split((east, north), **%r); "
             "print('labels of the last 5 points:', l[-5:], 'populations:', np.bincount(l)); "
             "print(verde.BlockReduce(%s, **%r).filter((east, north), data))" % (seed, npts, w_, e_, s_, n_, split_kw, REDS[red], kwc))
    inp = {"large": True, "points": npts, "numpy_seed": seed, "reduction": REDS[red], "kwargs": kwc,
           "positions_given_to_the_model": len(pos)}
    out = ["ok", {"entries": int(od.size), "populations_match_oracle": bool(pops_ok), "entry_count_ok": bool(count_ok),
                  "values_match_oracle": bool(values_ok), "labels_tail": [int(v) for v in labels[-5:]]}]
    return Case(inp, out, term, repro, "large", nontrivial=True)


def malformed(rnd, vd):
    out = []
    A = np.array
    e = A([0.5, 1.5, 2.5, 0.5]); n = A([0.5, 0.5, 0.5, 1.5]); d = A([3.0, -1.5, 7.25, 0.125]); w = A([1.0, 2.0, 3.0, 4.0])
    kw = dict(spacing=1, region=(0, 3, 0, 2))
    out.append(("RMean", [e, n], [d[:3]], None, kw))
    out.append(("RMean", [e, n], [d, d[:2]], None, kw))
    out.append(("RMedian", [e, n[:3]], [d], None, kw))
    out.append(("RSum", [e, n, d[:2]], [d], None, dict(kw, drop_coords=False)))
    out.append(("RAverage", [e, n], [d], [w[:3]], kw))
    out.append(("RAverage", [e, n], [d, d * 2], [w], kw))
    out.append(("RAverage", [e, n], [d], [w, w], kw))
    out.append(("RAverage", [e, n], [d, d * 2], [w, w[:1]], kw))
    return out


def generate(tier, seed):
    import verde as vd
    rnd = random.Random(seed)
    _COUNTER[0] = 0
    _SPELL[0] = 0
    cases = []
    for cfg in edge_cases(rnd, vd):
        cases.append(make_case(vd, *cfg, kind="edge"))
    for cfg in malformed(rnd, vd):
        cases.append(make_case(vd, *cfg, kind="malformed", expect_valid=False))
    cases.extend(geometry_cases(vd, tier))
    # more points than one k-d tree query batch, count not a multiple of the batch size
    if tier == "quick":
        cases.append(large_case(vd, 130001, "RMean", dict(spacing=2.5, region=(0.0, 10.0, -5.0, 5.0), center_coordinates=True), seed % 1000))
    else:
        cases.append(large_case(vd, 150000, "RMedian", dict(spacing=2.5, region=(0.0, 10.0, -5.0, 5.0), center_coordinates=True), seed % 1000))
        cases.append(large_case(vd, 250001, "RSum", dict(shape=(3, 5), region=(-4.0, 11.0, 2.0, 8.0)), seed % 1000 + 1))
    n_rand = 360 if tier == "quick" else 4200
    for i in range(n_rand):
        weighted = i % 3 == 0
        red, coords, data, weights, kw = random_config(rnd, vd, i, weighted)
        kind = "weighted" if weighted else "unweighted"
        dts = {str(np.asarray(a).dtype) for a in data}
        if dts != {"float64"}:
            kind += "-" + sorted(dts)[0]
        elif kw.get("_layouts"):
            kind += "-layouts"
        elif kw.get("_twice"):
            kind += "-reused"
        cases.append(make_case(vd, red, coords, data, weights, kw, kind))
    return cases


def search(dis, tier, seed):
    return generate("thorough" if tier == "quick" else "quick", seed + 1)
