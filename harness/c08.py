"""C08 block_split: every point gets the label of the block that contains it."""
import random
import numpy as np
from . import core, layouts, pylite_tie
from .core import Case, cZ, cD, clist, cbool, copt

obligations = pylite_tie.blocksplit_obligations   # source-regenerated tie of block_split (harness/pylite_blocksplit.v.tmpl)
ID = "C08"
PROPS_FILE = "Props/C08.v"
IMPORTS = "From Verde Require Import Model.Coordinates Model.CoordCases Model.Blocks Model.BlocksHuge."
SHARD = 60
RULE = ("point clouds (1-D and 2-D arrays, optionally with an ignored third coordinate) against regions on a dyadic lattice and random "
        "float regions (given, or inferred from the cloud), block sizes given as scalar / (north, east) spacing with both adjust modes "
        "or as shapes incl. single row / single column / one block; streams: random interior points, clusters hugging one block, "
        "points placed exactly on shared block edges and corners (either neighbour accepted, never a non-adjacent block), points "
        "outside the region on every side and diagonal (nearest border block demanded), degenerate and invalid arguments. "
        "2-D inputs (and the extra coordinate) come in varied memory layouts with the same logical element sequence - C, Fortran-ordered "
        "copies, transposed views of transposed copies, strided windows of larger C / Fortran arrays, slices of transposed views, easting "
        "and northing with different layouts, non-square shapes - and integer-valued lattice clouds also as int64 / int32 arrays; easting, northing and the extra coordinate also with DIFFERENT dtypes (int32/int64/float32/float64 in all orders) and values needing the wider type (fractions next to integers, 7.5e6 + fractions next to float32), regions also smaller than the data extent with both adjust modes; the model "
        "always receives the logical C-order ravel. Every call is made twice on the same argument objects (identical result, arguments "
        "unchanged); grids with 17 .. 600 blocks with points strictly inside a block at 1e-6 .. 1e-2 of its size from an edge (compared exactly) and points up to three region widths outside; grids of 129..256, 32768..65536 and > 65536 blocks with most points in the last rows / columns (every label range-checked, labels compared with the closed-form geometry in Coq, centres on a sample of block numbers); 2-D inputs with more than 10000 points (model evaluated on a fixed subsample of positions incl. runs around every multiple of 10000, all labels range-checked); region passed as tuple / list / float64 / integer ndarray in rotation; a sequence stream calls, modifies the same array objects in place (shift, scale, centre, overwrite) and calls again "
        "(must match the model on the new values and a call on fresh copies). Non-trivial = the call returns labels for a non-empty cloud; distinct = distinct argument tuples. Points within 2^-30 x scale "
        "of a shared edge are excluded point-wise from the label equality (the statement is still evaluated on them); cases whose "
        "extent/spacing quotient is within 2^-30 of a rounding tie without being one are skipped.")
ASSUMPTIONS = [
    "the k-d tree nearest query (scipy cKDTree / pykdtree) returns an index attaining the minimum Euclidean distance; ties broken arbitrarily (modelled by the first arg-min, theorems quantified over any arg-min)",
    "floats are read as the exact rationals they denote; centres compared with tolerance 2^-40 x scale; labels compared exactly for points farther than 2^-30 x scale from every shared block edge",
    "coordinate arrays are passed raveled (C order); their common shape is checked by the harness (labels must be 1-D with one entry per point)",
]
TRUSTED = ["harness/layouts.py (builds the argument arrays in each memory layout / dtype; replays rebuild them from the same source)", "harness/c08.py (generators, observation of numpy arrays as exact dyadics and integers)"]

ADJ = {0: "spacing", 1: "region", 2: "bogus"}


def dl(xs):
    return clist([cD(float(x)) for x in xs])


def subsample_indices(n):
    """positions compared through the model for very large inputs: first, last, every 97th, and a run of
    positions on both sides of every multiple of 10000"""
    idx = set(range(0, n, 97)) | {0, n - 1}
    for k in range(10000, n, 10000):
        idx |= set(range(max(0, k - 5), min(n, k + 60)))
    return sorted(idx)


def block_case(vd, spec, spacing, adj, region, shape, kind, pre=None, rkind="tuple", recipe=None):
    """spec: [(values, layout, dtype), ...] (harness/layouts.py); the model gets the logical C-order ravel.
    pre = (first, ops): an earlier call on the same array objects followed by in-place modifications.
    rkind: the kind of object the region is passed as (the same object for both calls).
    recipe: python source building the coordinate tuple `c` of a very large input (then spec is ignored, the model
    is evaluated on a fixed subsample of positions and all labels are range-checked here)"""
    if recipe:
        env = {}
        exec(recipe, env)
        coords = env["c"]
    else:
        coords = layouts.build(spec)
    if pre:
        layouts.first_call(vd, coords, pre[0])
        layouts.apply_ops(coords, pre[1])
    snap = layouts.snapshot(coords)
    east, north = coords[0], coords[1]
    sub = subsample_indices(east.size) if recipe else None
    kw = {}
    kwsrc = []
    if spacing is not None:
        kw["spacing"] = spacing
        kwsrc.append("spacing=%r" % (spacing,))
    if shape is not None:
        kw["shape"] = shape
        kwsrc.append("shape=%r" % (shape,))
    if region is not None:
        kw["region"], rsrc = layouts.arg_obj(rkind, region)
        kwsrc.append("region=r")
    if adj != 0:
        kw["adjust"] = ADJ[adj]
        kwsrc.append("adjust=%r" % ADJ[adj])
    shape_ok = True
    try:
        bc, labels = vd.block_split(coords, **kw)
        labels = np.asarray(labels)
        shape_ok = (len(bc) == 2 and bc[0].ndim == 1 and bc[1].ndim == 1 and labels.ndim == 1
                    and labels.shape[0] == east.size and np.issubdtype(labels.dtype, np.integer)
                    and bc[0].dtype == np.float64 and bc[1].dtype == np.float64)
        # same argument objects again: identical result, coordinate arrays untouched
        bc2, labels2 = vd.block_split(coords, **kw)
        stable = (layouts.unchanged(coords, snap) and np.array_equal(np.asarray(labels2), labels)
                  and all(np.array_equal(a, b) for a, b in zip(bc, bc2)))
        if pre:   # and the same as a call on fresh copies of the modified arrays
            bc3, labels3 = vd.block_split(layouts.fresh(coords), **kw)
            stable = stable and np.array_equal(np.asarray(labels3), labels) and all(np.array_equal(a, b) for a, b in zip(bc, bc3))
        if shape_ok:
            lab = labels if sub is None else labels[sub]
            obs = {"centres_east": [float(x) for x in bc[0]], "centres_north": [float(x) for x in bc[1]],
                   "labels": [int(x) for x in lab], "second_call_identical_and_arguments_unchanged": bool(stable)}
            if region is not None:
                obs["region_object_unchanged"] = layouts.same_values(kw["region"], region)
            if sub is not None:
                obs["labels_are_of_positions"] = "first, last, every 97th and around every multiple of 10000 (%d of %d)" % (len(sub), east.size)
                obs["all_labels_in_range"] = bool(labels.min() >= 0 and labels.max() < bc[0].size)
                obs["label_histogram"] = np.bincount(labels, minlength=bc[0].size).tolist() if obs["all_labels_in_range"] else None
                shape_ok = shape_ok and obs["all_labels_in_range"]
            cobs = "(Some (%s, %s, %s))" % (dl(bc[0]), dl(bc[1]), clist([cZ(x) for x in lab]))
        else:
            obs = {"bad_output_shapes": [list(np.shape(b)) for b in bc] + [list(labels.shape), str(labels.dtype)]}
            cobs = "(Some ([], [], []))"
        shape_ok = shape_ok and bool(stable)
    except ValueError:
        obs = "ValueError"
        cobs = "None"
    except Exception as exc:   # any other exception on these inputs is a failure of the implementation
        obs = {"unexpected_exception": repr(exc)}
        cobs = "(Some ([], [], []))"
        shape_ok = False
    if spacing is None:
        csp = "None"
    elif np.isscalar(spacing):
        csp = "(Some %s)" % dl([spacing])
    else:
        csp = "(Some %s)" % dl(spacing)
    cshape = "None" if shape is None else "(Some (%s, %s))" % (cZ(shape[0]), cZ(shape[1]))
    creg = "None" if region is None else "(Some %s)" % dl(region)
    le, ln = layouts.logical(east), layouts.logical(north)
    if sub is not None:
        le, ln = [le[i] for i in sub], [ln[i] for i in sub]
    term = "c08_case %s %s %s %s %s %s %s %s" % (dl(le), dl(ln), csp, cZ(adj), creg, cshape, cobs, cbool(shape_ok))
    repro = ((recipe if recipe else layouts.repro_args(spec)) + (layouts.repro_sequence(*pre) if pre else "")
             + ("import numpy as np; r = %s\n" % rsrc if region is not None else "")
             + "import verde; print(verde.block_split(c, %s)); print(verde.block_split(c, %s))" % (", ".join(kwsrc), ", ".join(kwsrc)))
    inp = {"fn": "block_split", "coordinates": recipe if recipe else layouts.describe(spec), "spacing": spacing, "shape": shape,
           "region": None if region is None else [float(r) for r in region], "region_passed_as": rkind if region is not None else None,
           "adjust": ADJ[adj]}
    if pre:
        inp["after"] = {"earlier_call_on_same_objects": [pre[0][0], repr(pre[0][1])], "then_in_place": [list(o) for o in pre[1]]}
    return Case(inp, obs, term, repro, kind, nontrivial=(obs != "ValueError" and east.size > 0))


def huge_case(vd, rnd, region, spacing, shape, adj, kind):
    """block grids with hundreds to tens of thousands of blocks: most points in the LAST rows / columns (high block
    numbers), a few elsewhere; every label range-checked here; labels compared in Coq with the closed-form geometry
    (c08_huge), centres on a sample of block numbers"""
    w, e, s0, n = region
    bc0 = vd.grid_coordinates(region, spacing=spacing, shape=shape, adjust=ADJ[adj], pixel_register=True, meshgrid=False)
    nc, nr = len(bc0[0]), len(bc0[1])
    dx = (bc0[0][1] - bc0[0][0]) if nc > 1 else (e - w)
    dy = (bc0[1][1] - bc0[1][0]) if nr > 1 else (n - s0)
    xs, ys = [], []
    for _ in range(200):     # the last three rows / the last columns of the last rows
        r = nr - 1 - rnd.randrange(min(3, nr))
        c = nc - 1 - rnd.randrange(min(nc, 40)) if rnd.random() < 0.7 else rnd.randrange(nc)
        xs.append(w + (c + rnd.uniform(0.05, 0.95)) * dx)
        ys.append(s0 + (r + rnd.uniform(0.05, 0.95)) * dy)
    for _ in range(40):
        xs.append(w + (rnd.randrange(nc) + rnd.uniform(0.05, 0.95)) * dx)
        ys.append(s0 + (rnd.randrange(nr) + rnd.uniform(0.05, 0.95)) * dy)
    xs = [round(x * 4096) / 4096 for x in xs]
    ys = [round(y * 4096) / 4096 for y in ys]
    spec = [(np.reshape(xs, (12, 20)).tolist(), rnd.choice(layouts.KINDS), "float64"), (np.reshape(ys, (12, 20)).tolist(), rnd.choice(layouts.KINDS), "float64")]
    coords = layouts.build(spec)
    kw = {"region": region}
    if spacing is not None:
        kw["spacing"] = spacing
    if shape is not None:
        kw["shape"] = shape
    if adj != 0:
        kw["adjust"] = ADJ[adj]
    inp = {"fn": "block_split", "coordinates": layouts.describe(spec), "spacing": spacing, "shape": shape,
           "region": [float(r) for r in region], "adjust": ADJ[adj], "n_blocks": nr * nc}
    repro = layouts.repro_args(spec) + "import verde; b, l = verde.block_split(c, **%r); print(b[0].size, l.dtype, l.min(), l.max(), l)" % (kw,)
    try:
        bc, labels = vd.block_split(coords, **kw)
        labels = np.asarray(labels)
        bc2, labels2 = vd.block_split(coords, **kw)
        nblocks = int(bc[0].size)
        in_range = bool(labels.size == 0 or (labels.min() >= 0 and labels.max() < nblocks))
        py_ok = (len(bc) == 2 and bc[0].ndim == 1 and bc[1].ndim == 1 and bc[1].size == nblocks and labels.ndim == 1
                 and labels.shape[0] == coords[0].size and np.issubdtype(labels.dtype, np.integer) and in_range
                 and np.array_equal(labels, np.asarray(labels2)) and all(np.array_equal(a, b) for a, b in zip(bc, bc2)))
        ks = sorted({0, nblocks - 1, min(nc - 1, nblocks - 1), max(0, nblocks - nc)} | {int(k) for k in labels[:25] if 0 <= k < nblocks})
        obs = {"n_centres": nblocks, "labels": [int(x) for x in labels], "label_dtype": str(labels.dtype), "all_labels_in_range": in_range,
               "centres_sample": [[k, float(bc[0][k]), float(bc[1][k])] for k in ks]}
        sample = clist(["(%s, %s, %s)" % (cZ(k), cD(bc[0][k]), cD(bc[1][k])) for k in ks])
        csp = "None" if spacing is None else "(Some %s)" % dl([spacing] if np.isscalar(spacing) else spacing)
        cshape = "None" if shape is None else "(Some (%s, %s))" % (cZ(shape[0]), cZ(shape[1]))
        term = "c08_huge %s %s %s %s %s %s %s %s %s %s" % (
            dl(layouts.logical(coords[0])), dl(layouts.logical(coords[1])), csp, cZ(adj), dl(region), cshape, cZ(nblocks), sample,
            "(%s)%%Z" % clist([core.cZraw(int(x)) for x in labels]), cbool(py_ok))
    except Exception as exc:
        obs = {"unexpected_exception": repr(exc)}
        term = "Vboth"
    return Case(inp, obs, term, repro, kind)


# ---------------------------------------------------------------------------
def geometry(vd, region, spacing, shape, adj):
    """exact-ish block geometry used only to PLACE generated points (edges, clusters); not part of the check"""
    bc = vd.grid_coordinates(region, spacing=spacing, shape=shape, adjust=ADJ[adj], pixel_register=True, meshgrid=False)
    e1, n1 = bc
    nc, nr = len(e1), len(n1)
    dx = (e1[1] - e1[0]) if nc > 1 else 2 * (e1[0] - region[0])
    dy = (n1[1] - n1[0]) if nr > 1 else 2 * (n1[0] - region[2])
    return region[0], dx, nc, region[2], dy, nr


class Uni:
    """uniform floats: full 53-bit mantissas one case in five, else multiples of 2^-12 (cheaper exact arithmetic in coqc)"""
    def __init__(self, rnd):
        self.rnd = rnd
        self.full = rnd.random() < 0.2

    def __call__(self, a, b):
        x = self.rnd.uniform(a, b)
        if self.full:
            return x
        y = round(x * 4096) / 4096
        return y if a <= y <= b else x


def pick_blocks(rnd, lattice=True, uni=None):
    """a region and a block specification: returns (region, spacing, shape, adj)"""
    if lattice:
        w = rnd.randint(-8, 8) / 4
        s = rnd.randint(-8, 8) / 4
        width = rnd.choice([1.0, 2.0, 2.5, 3.0, 4.0, 6.0])
        height = rnd.choice([1.0, 1.5, 2.0, 3.0, 4.0, 5.0])
    else:
        w = uni(-1000, 1000)
        s = uni(-1000, 1000)
        width = uni(0.5, 50)
        height = uni(0.5, 50)
    region = (w, w + width, s, s + height)
    mode = rnd.choice(["shape", "shape", "scalar", "pair", "pair"])
    adj = 0
    if mode == "shape":
        shape = rnd.choice([(1, 1), (1, 4), (5, 1), (2, 2), (2, 3), (3, 2), (4, 5), (6, 3), (1, 7), (3, 3)])
        spacing = None
        if rnd.random() < 0.2:
            adj = 1
    else:
        shape = None
        adj = rnd.choice([0, 1])
        if lattice:
            cands = [0.5, 0.75, 1.0, 1.25, 1.5, 2.0, 3.0, 8.0]
        else:
            cands = [min(width, height) * f for f in (0.21, 0.37, 0.5, 0.77, 1.0, 1.9, 3.0)]
        if mode == "scalar":
            spacing = rnd.choice(cands)
        else:
            spacing = (rnd.choice(cands), rnd.choice(cands))
        # keep the number of blocks small
        spn, spe = (spacing, spacing) if np.isscalar(spacing) else spacing
        if (width / spe + 1) * (height / spn + 1) > 48:
            spacing = max(width, height) / 3.0 if mode == "scalar" else (height / 3.0, width / 4.0)
    return region, spacing, shape, adj


def cloud(rnd, vd, region, spacing, shape, adj, stream, m, uni):
    w, dx, nc, s, dy, nr = geometry(vd, region, spacing, shape, adj)
    e = w + nc * dx
    n = s + nr * dy
    xs, ys = [], []
    if stream == "interior":
        for _ in range(m):
            xs.append(uni(w, e))
            ys.append(uni(s, n))
    elif stream == "cluster":
        c, r = rnd.randrange(nc), rnd.randrange(nr)
        for _ in range(m):
            f = rnd.choice([0.01, 0.25, 0.5, 0.75, 0.99, rnd.random()])
            g = rnd.choice([0.01, 0.25, 0.5, 0.75, 0.99, rnd.random()])
            xs.append(w + (c + f) * dx)
            ys.append(s + (r + g) * dy)
    elif stream == "edges":
        for _ in range(m):
            how = rnd.randrange(4)
            c, r = rnd.randint(0, nc), rnd.randint(0, nr)
            x = w + c * dx if how in (0, 2) else uni(w, e)
            y = s + r * dy if how in (1, 2) else uni(s, n)
            if how == 3:   # a whisker off an edge (within round-off or just beyond)
                x = np.nextafter(w + c * dx, rnd.choice([-np.inf, np.inf]))
            xs.append(float(x))
            ys.append(float(y))
    elif stream == "outside":
        for _ in range(m):
            sx = rnd.choice([-1, 0, 1])
            sy = rnd.choice([-1, 0, 1]) if sx != 0 else rnd.choice([-1, 1])
            ox = rnd.choice([0.001, 0.3, 1.0, 7.0]) * max(dx, 1e-3)
            oy = rnd.choice([0.001, 0.3, 1.0, 7.0]) * max(dy, 1e-3)
            x = w - ox if sx < 0 else (e + ox if sx > 0 else uni(w, e))
            y = s - oy if sy < 0 else (n + oy if sy > 0 else uni(s, n))
            xs.append(x)
            ys.append(y)
    return xs, ys


def generate(tier, seed):
    import verde as vd
    rnd = random.Random(seed)
    cases = []
    nper = 80 if tier == "quick" else 500
    for stream in ("interior", "cluster", "edges", "outside"):
        for i in range(nper):
            lattice = stream == "edges" or rnd.random() < 0.5
            uni = Uni(rnd)
            region, spacing, shape, adj = pick_blocks(rnd, lattice, uni)
            m = rnd.choice([1, 2, 3, 5, 6, 6, 8, 8, 10, 12, 12, 14, 15])
            xs, ys = cloud(rnd, vd, region, spacing, shape, adj, stream, m, uni)
            if stream == "edges":   # a few plain points too
                x2, y2 = cloud(rnd, vd, region, spacing, shape, adj, "interior", 2, uni)
                xs, ys = xs + x2, ys + y2
            arrs = [xs, ys]
            if i % 5 == 0:
                arrs.append([rnd.uniform(-1e3, 1e3) for _ in xs])   # ignored extra coordinate
            cases.append(block_case(vd, layouts.arrange(rnd, arrs), spacing, adj, region, shape, stream, rkind=layouts.ARG_KINDS[i % 4]))
    # region inferred from the cloud
    for i in range(nper):
        lat = rnd.random() < 0.5
        uni = Uni(rnd)
        m = rnd.choice([2, 3, 5, 6, 6, 8, 8, 10, 12, 12, 14, 15])
        if lat:
            xs = [rnd.randint(-12, 12) / 4 for _ in range(m)]
            ys = [rnd.randint(-12, 12) / 4 for _ in range(m)]
        else:
            cx, cy = uni(-100, 100), uni(-100, 100)
            xs = [cx + uni(0, 10) for _ in range(m)]
            ys = [cy + uni(0, 6) for _ in range(m)]
        if i % 7 == 3:
            xs = [xs[0]] * m     # degenerate west-east extent
        mode = rnd.choice(["shape", "scalar", "pair"])
        adj = 0 if mode == "shape" else rnd.choice([0, 1])
        shape = rnd.choice([(1, 1), (2, 2), (3, 4), (1, 5), (4, 1)]) if mode == "shape" else None
        spacing = None if mode == "shape" else (rnd.choice([0.75, 1.0, 2.0, 2.5, 5.0]) if mode == "scalar"
                                                else (rnd.choice([1.0, 1.5, 3.0]), rnd.choice([1.0, 2.0, 2.5])))
        arrs = [xs, ys] + ([[float(k) for k in range(m)]] if i % 4 == 0 else [])
        cases.append(block_case(vd, layouts.arrange(rnd, arrs), spacing, adj, None, shape, "region-inferred"))
    # the docstring examples
    g = vd.grid_coordinates((-5, 0, 5, 10), spacing=1)
    cases.append(block_case(vd, layouts.from_arrays(g), 2.5, 0, None, None, "docstring"))
    cases.append(block_case(vd, layouts.from_arrays(g), None, 0, None, (4, 2), "docstring"))
    cases.append(block_case(vd, layouts.from_arrays((g[0].ravel(), g[1].ravel())), (2.5, 1.25), 1, (-5.0, 0.0, 5.0, 10.0), None, "docstring"))
    # the docstring grid (6 x 6) and a non-square 4 x 6 part of it in every memory layout, easting and northing alike and different
    for ke in layouts.KINDS:
        for kn in ("C", "F", "Tslice"):
            spec = [(g[0].tolist(), ke, "float64"), (g[1].tolist(), kn, "float64")]
            cases.append(block_case(vd, spec, 2.5, 0, None, None, "layout-grid"))
            spec = [(g[0][:4].tolist(), ke, "float64"), (g[1][:4].tolist(), kn, "float64")]
            cases.append(block_case(vd, spec, None, 0, (-5.0, 0.0, 5.0, 10.0), (3, 2), "layout-grid"))
    # easting, northing (and the extra coordinate) of different dtypes, values needing the wider one; regions given
    # (also smaller than the data extent, both adjust modes) or - without float32 coordinates - inferred
    for i in range(nper // 2):
        m = rnd.choice([4, 6, 6, 8, 10, 12, 12, 15])
        we, hn = rnd.choice([4, 6, 8]), rnd.choice([3, 5, 6])
        arrs, dts, be, bn = layouts.mixed_axes(rnd, m, we, hn, spill=rnd.choice([0.0, 0.25]))
        inferred = "float32" not in dts[:2] and rnd.random() < 0.3
        reg = None if inferred else (be, be + we, bn, bn + hn)
        if rnd.random() < 0.6:
            sp, sh, adj = rnd.choice([1.0, 1.5, 2.0, (1.0, 2.0), (2.5, 1.25)]), None, rnd.choice([0, 1])
        else:
            sp, sh, adj = None, rnd.choice([(2, 3), (3, 2), (3, 4), (1, 4), (5, 1)]), 0
        keep = 3 if i % 2 == 0 else 2
        cases.append(block_case(vd, layouts.arrange(rnd, arrs[:keep], dt=dts[:keep]), sp, adj, reg, sh, "mixed-dtype"))
    # many blocks (more than one k-d tree leaf: 17 .. 600), points strictly inside a block at relative distances
    # 1e-6 .. 1e-2 of the block size from an edge (far beyond the 2^-30 near-tie allowance: these are not ties), and
    # points outside the region by up to several region widths (still: the nearest centre = the clamped border block)
    nbig = 24 if tier == "quick" else 160
    for i in range(nbig):
        w, s0 = float(rnd.randint(-8, 8)), float(rnd.randint(-8, 8))
        width, height = rnd.choice([(10.0, 10.0), (20.0, 30.0), (12.0, 6.0), (8.0, 16.0), (15.0, 5.0)])
        reg = (w, w + width, s0, s0 + height)
        if i == 0:
            reg, sp, sh, adj = (0.0, 20.0, 0.0, 30.0), 1.0, None, 0          # 30 x 20 blocks
        elif i == 1:
            reg, sp, sh, adj = (0.0, 10.0, 0.0, 10.0), 1.0, None, 0
        elif rnd.random() < 0.5:
            sp, sh, adj = rnd.choice([1.0, 1.0, 2.0, (1.0, 2.0), (2.5, 1.0), 1.5]), None, rnd.choice([0, 1])
        else:
            sp, sh, adj = None, rnd.choice([(3, 6), (6, 3), (5, 5), (10, 4), (4, 12), (1, 20), (18, 1)]), 0
        gw, dx, nc, gs, dy, nr = geometry(vd, reg, sp, sh, adj)
        width, height = reg[1] - reg[0], reg[3] - reg[2]
        xs, ys = [], []
        if i == 1:
            xs, ys = [5.001, -30.0], [0.5, 5.25]
        for _ in range(10):     # a whisker inside a block, next to one (or two) of its edges, on either side
            c, r = rnd.randrange(nc), rnd.randrange(nr)
            rel = 10.0 ** -(rnd.uniform(2.7, 6) if rnd.random() < 0.75 else rnd.uniform(2, 2.7))
            fx, fy = rnd.choice([rel, 1 - rel]), rnd.choice([rel, 1 - rel])
            which = rnd.randrange(3)
            if which == 0:
                fy = rnd.uniform(0.3, 0.7)
            elif which == 1:
                fx = rnd.uniform(0.3, 0.7)
            xs.append(gw + (c + fx) * dx)
            ys.append(gs + (r + fy) * dy)
        for _ in range(4):      # far outside, all directions
            sx, sy = rnd.choice([(-1, 0), (1, 0), (0, -1), (0, 1), (-1, -1), (1, 1), (-1, 1), (1, -1)])
            far = rnd.choice([0.3, 1.0, 3.0])
            xs.append(reg[0] - far * width if sx < 0 else (reg[1] + far * width if sx > 0 else rnd.uniform(reg[0], reg[1])))
            ys.append(reg[2] - far * height if sy < 0 else (reg[3] + far * height if sy > 0 else rnd.uniform(reg[2], reg[3])))
        for _ in range(2):
            xs.append(rnd.uniform(reg[0], reg[1]))
            ys.append(rnd.uniform(reg[2], reg[3]))
        cases.append(block_case(vd, layouts.arrange(rnd, [xs, ys]), sp, adj, reg, sh, "many-blocks", rkind=layouts.ARG_KINDS[i % 4]))
    # hundreds to tens of thousands of blocks (around the 128 / 32768 / 65536 boundaries of narrow integer types)
    huge = [((0.0, 16.0, 0.0, 10.0), 1.0, None, 0), ((-3.0, 5.5, 2.0, 8.5), None, (13, 17), 0), ((0.0, 250.0, 0.0, 200.0), 1.0, None, 0),
            ((0.0, 91.0, -45.25, 45.25), None, (181, 182), 0), ((0.0, 4000.0, 0.0, 10.0), None, (1, 40000), 0),
            ((0.0, 64.0, 0.0, 32.0), (0.25, 0.25), None, 1), ((0.0, 32.0, 0.0, 32.0), None, (256, 256), 0), ((0.0, 300.0, 0.0, 250.0), 1.0, None, 0)]
    if tier != "quick":
        huge += [((0.0, 32769.0, 0.0, 1.0), None, (1, 32769), 0), ((0.0, 16.0, 0.0, 8.0), None, (8, 16), 0), ((0.0, 16.0, 0.0, 8.0), None, (3, 43), 0),
                 ((0.0, 10.0, 0.0, 3000.0), (0.1, 1.0), None, 0), ((0.0, 257.0, 0.0, 256.0), 1.0, None, 1), ((0.0, 1.0, 0.0, 1.0), None, (40000, 1), 0)]
        for _ in range(14):
            nrr, ncc = rnd.choice([(150, 220), (181, 182), (200, 300), (256, 255), (255, 257), (12, 11), (16, 16), (10, 25), (128, 257), (220, 150)])
            huge.append(((0.0, ncc * 0.5, -1.0, -1.0 + nrr * 0.25), None, (nrr, ncc), 0))
    for reg, sp, sh, adj in huge:
        cases.append(core.guarded(lambda: huge_case(vd, rnd, reg, sp, sh, adj, "many-blocks-huge"),
                                  {"fn": "block_split", "region": list(reg), "spacing": sp, "shape": sh}, "many-blocks-huge"))
    # very large 2-D inputs (more than 10000 points in total): the model is evaluated on a fixed subsample of
    # positions (first, last, every 97th, around every multiple of 10000); every label is range-checked
    bigs = [(101, 101, "C"), (160, 70, "F")] if tier == "quick" else [(101, 101, "C"), (160, 70, "F"), (70, 160, "C"), (3, 7001, "TT"), (10001, 2, "C"), (203, 150, "Tslice")]
    for nrow, ncol, lay in bigs:
        recipe = (layouts.MK_SRC + "import numpy as np\n"
                  "e, n = np.meshgrid(np.linspace(0.013, 11.979, %d), np.linspace(-2.987, 5.021, %d))\n"
                  "c = (mk(e, %r), mk(n + 0.001 * np.sin(e), %r))\n" % (ncol, nrow, lay, lay))
        cases.append(block_case(vd, None, (2.0, 3.0), 0, (0.0, 12.0, -3.0, 5.0), None, "large-2d", recipe=recipe))
        cases.append(block_case(vd, None, None, 0, (0.0, 12.0, -3.0, 5.0), (5, 3), "large-2d", recipe=recipe, rkind="f64"))
    # sequences: a call, the SAME coordinate array objects modified in place, the call under test (must match the
    # model on the new values and a call on fresh copies)
    for i in range(nper // 2):
        m = rnd.choice([6, 8, 10, 12, 15])
        ints = rnd.random() < 0.3
        xs = [rnd.randint(-4, 4) for _ in range(m)] if ints else [rnd.randint(-16, 16) / 4 for _ in range(m)]
        ys = [rnd.randint(-3, 3) for _ in range(m)] if ints else [rnd.randint(-12, 12) / 4 for _ in range(m)]
        spec = layouts.arrange(rnd, [xs, ys], dt=rnd.choice(["int64", "int32"]) if ints else "float64")
        ops = layouts.sequence_ops(rnd, spec)
        reg = rnd.choice([None, None, (-4.0, 4.0, -3.0, 3.0)])
        if rnd.random() < 0.6:
            kw1 = {"spacing": rnd.choice([1.0, 1.5, 2.0])}
            sp, sh, adj = rnd.choice([1.0, 1.5, 2.0, (1.0, 2.0)]), None, rnd.choice([0, 1])
        else:
            kw1 = {"shape": rnd.choice([(2, 3), (3, 2)])}
            sp, sh, adj = None, rnd.choice([(2, 3), (3, 2), (1, 4), (3, 3)]), 0
        if reg is not None and rnd.random() < 0.5:
            kw1["region"] = reg
        cases.append(block_case(vd, spec, sp, adj, reg, sh, "sequence-in-place", pre=(("block_split", kw1), ops)))
    # integer-valued lattice clouds passed with integer dtypes (1-D and 2-D, all layouts)
    for i in range(nper // 2):
        m = rnd.choice([4, 6, 6, 8, 10, 12, 12, 15])
        xs = [rnd.randint(-6, 6) for _ in range(m)]
        ys = [rnd.randint(-6, 6) for _ in range(m)]
        dt = rnd.choice(["int64", "int32"])
        given = rnd.random() < 0.5
        reg = (-6.0, 6.0, -6.0, 6.0) if given else None
        if rnd.random() < 0.5:
            sp, sh, adj = rnd.choice([1.5, 2.0, 3.0, (2.0, 3.0), (4.0, 2.5)]), None, rnd.choice([0, 1])
        else:
            sp, sh, adj = None, rnd.choice([(2, 3), (3, 2), (4, 4), (1, 5)]), 0
        arrs = [xs, ys] + ([list(range(m))] if i % 3 == 0 else [])
        cases.append(block_case(vd, layouts.arrange(rnd, arrs, dt=dt, p2d=0.7), sp, adj, reg, sh, "integer-dtype"))
    # empty cloud with a region
    cases.append(block_case(vd, layouts.from_arrays((np.zeros(0), np.zeros(0))), 1.0, 0, (0.0, 2.0, 0.0, 3.0), None, "degenerate"))
    cases.append(block_case(vd, layouts.from_arrays((np.array([1.0]), np.array([2.0]))), 1.0, 0, None, None, "degenerate"))
    cases.append(block_case(vd, layouts.from_arrays((np.array([1.0, 1.0]), np.array([2.0, 3.0]))), None, 0, None, (2, 3), "degenerate"))
    cases.append(block_case(vd, layouts.from_arrays((np.array([0.0, 1.0, 3.0]), np.array([2.0, 2.0, 5.0]))), None, 0, (1.0, 1.0, 0.0, 4.0), (2, 3), "degenerate"))
    # invalid arguments
    pts = (np.array([0.5, 1.5, 2.5]), np.array([0.5, 0.5, 1.5]))
    reg = (0.0, 3.0, 0.0, 2.0)
    for sp, adj, r, sh in [(None, 0, reg, None), (1.0, 0, reg, (2, 2)), (1.0, 2, reg, None), (None, 2, reg, (2, 3)),
                           ((1.0, 2.0, 3.0), 0, reg, None), (1.0, 0, (3.0, 0.0, 0.0, 2.0), None), (None, 0, (0.0, 3.0, 2.0, 0.0), (2, 2)),
                           (1.0, 0, (0.0, 3.0, 0.0), None), (None, 0, None, None), (1.0, 1, None, (1, 1))]:
        cases.append(block_case(vd, layouts.from_arrays(pts), sp, adj, r, sh, "invalid"))
    cases.append(block_case(vd, layouts.from_arrays((np.zeros(0), np.zeros(0))), 1.0, 0, None, None, "invalid"))
    return cases


def search(dis, tier, seed):
    return generate("quick", seed + 1)


def _guard(fn):
    def wrapped(vd, spec, *a, **k):
        inp = {"fn": fn.__name__, "coordinates": k.get("recipe") or layouts.describe(spec), "arguments": repr(a[:-1]), "after": repr(k.get("pre")),
               "region_passed_as": k.get("rkind")}
        return core.guarded(lambda: fn(vd, spec, *a, **k), inp, a[-1])
    return wrapped


block_case = _guard(block_case)
