"""C13 regions, bounds, inside, pad_region, scatter_points, project_region, maxabs."""
import random
import numpy as np
from . import core, pylite_tie
from .core import Case, cZ, cD, clist, cbool

obligations = pylite_tie.c13_obligations   # source-regenerated ties: coord_obligations + maxabs (see harness/pylite_tie.py)
ID = "C13"
PROPS_FILE = "Props/C13.v"
IMPORTS = "From Verde Require Import Model.Coordinates Model.CoordCases."
SHARD = 150
RULE = ("point clouds on a dyadic lattice with points exactly on all four bounds and corners, 1-D and 2-D arrays, degenerate regions "
        "(inside / get_region compared bit-exactly); pads (scalar, (north, east) pairs, negative) and their inverse; nodes of "
        "grid_coordinates (shape, or spacing with adjust='spacing', both registrations) and of scatter_points (several seeds, "
        "reproducibility by calling twice) tested for membership in the requested region; project_region with monotone and "
        "non-monotone projections, the projection's actual inputs/outputs being logged; maxabs over several arrays; invalid regions "
        "(W>E, S>N, wrong length) through check_region, inside, grid_coordinates, scatter_points. Non-trivial = valid region and "
        "non-empty cloud; distinct = distinct argument tuples.")
ASSUMPTIONS = [
    "numpy min/max/abs and comparisons are exact on doubles (no arithmetic): inside, get_region and maxabs are compared bit-exactly",
    "numpy's Mersenne Twister stream is an oracle: scatter_points is checked for membership, count and run-to-run reproducibility only",
    "pad_region results and grid nodes are compared with tolerance 2^-40 x scale",
]
TRUSTED = ["harness/c13.py (generators, logging wrapper around the projection callable)"]


def dl(xs):
    return clist([cD(float(x)) for x in xs])


def inside_case(vd, region, east, north, kind, rnd=None):
    east = np.asarray(east, dtype=float)
    north = np.asarray(north, dtype=float)
    if rnd is not None:   # memory layout must not matter
        east, north = core.relayout(east, rnd), core.relayout(north, rnd)
    try:
        out = vd.inside((east, north), region)
        if rnd is not None and east.size:
            # the mask belongs to the caller: a later call (same shapes, another region) must not change it
            keep = out.copy()
            w_, e_, s_, n_ = [float(v) for v in region]
            vd.inside((east, north), (w_ - 1e3, e_ + 1e3, s_ - 1e3, n_ + 1e3))
            vd.inside((east, north), (e_ + 1.0, e_ + 2.0, n_ + 1.0, n_ + 2.0))
            if not np.array_equal(out, keep):
                out = ~keep        # report the overwritten mask as the wrong answer it now is
        ok = out.shape == east.shape and out.dtype == bool
        obs = [bool(b) for b in out.ravel()] if ok else None
        cobs = "(Some %s)" % clist([cbool(b) for b in obs]) if ok else "(Some [])"
    except ValueError:
        obs = "ValueError"
        cobs = "None"
    term = "c13_inside %s %s %s %s" % (dl(region), dl(east.ravel()), dl(north.ravel()), cobs)
    repro = ("import verde, numpy as np; c=(np.array(%r), np.array(%r)); m=verde.inside(c, %r); k=m.copy(); "
             "verde.inside(c, (-1e9, 1e9, -1e9, 1e9)); verde.inside(c, (1e9, 2e9, 1e9, 2e9)); print(k, 'unchanged by later calls:', (m == k).all())"
             % (east.tolist(), north.tolist(), list(region)))
    return Case({"fn": "inside", "region": list(region), "easting": east.tolist(), "northing": north.tolist()}, obs, term, repro, kind,
                nontrivial=obs != "ValueError" and east.size > 0)


def get_region_case(vd, east, north, kind, rnd=None):
    east = np.asarray(east, dtype=float)
    north = np.asarray(north, dtype=float)
    if rnd is not None:
        east, north = core.relayout(east, rnd), core.relayout(north, rnd)
    reg = vd.get_region((east, north))
    ins = bool(np.all(vd.inside((east, north), reg)))
    term = "c13_get_region %s %s (%s, %s, %s, %s) %s" % (dl(east.ravel()), dl(north.ravel()), cD(reg[0]), cD(reg[1]), cD(reg[2]), cD(reg[3]), cbool(ins))
    repro = "import verde, numpy as np; c=(np.array(%r), np.array(%r)); r=verde.get_region(c); print(r, verde.inside(c, r).all())" % (east.tolist(), north.tolist())
    return Case({"fn": "get_region", "easting": east.tolist(), "northing": north.tolist()},
                {"region": [float(x) for x in reg], "all_inside": ins}, term, repro, kind)


_padform = [0]


def pad_case(vd, region, pad, kind):
    # the region is handed over as a tuple / list / float64 ndarray / int ndarray in rotation, the SAME object is
    # used for a second identical call: the answer is the pad away from the values given, both times
    _padform[0] += 1
    f = _padform[0] % 4
    vals = [float(v) for v in region]
    if f == 3 and not all(v == int(v) for v in vals):
        f = 2
    robj = [tuple(vals), list(vals), np.array(vals, dtype="float64"), np.array([int(v) for v in vals])][f]
    out = vd.pad_region(robj, pad)
    out2 = vd.pad_region(robj, pad)
    if [float(x) for x in out2] != [float(x) for x in out]:
        out = out2      # the second answer is the one judged (it must still be the pad away from the values given)
    neg = -pad if np.isscalar(pad) else tuple(-p for p in pad)
    back = vd.pad_region(np.array([float(x) for x in out]) if f == 2 else out, neg)
    pn, pe = (pad, pad) if np.isscalar(pad) else pad
    term = "c13_pad %s %s %s %s %s" % (dl(region), cD(pn), cD(pe), dl(out), dl(back))
    repro = ("import verde, numpy as np; r=%s; verde.pad_region(r, %r); o=verde.pad_region(r, %r); print(o, verde.pad_region(o, %r))"
             % (["tuple(%r)", "list(%r)", "np.array(%r, dtype='float64')", "np.array(%r, dtype=int)"][f] % (vals,), pad, pad, neg))
    return Case({"fn": "pad_region", "region": list(region), "region_given_as": ["tuple", "list", "float64 ndarray", "int ndarray"][f],
                 "called_twice_with_same_object": True, "pad": pad}, {"padded": [float(x) for x in out], "unpadded": [float(x) for x in back]},
                term, repro, kind)


def nodes_case(vd, region, east, north, count, desc, repro, kind, reproducible=True, exact=True):
    e = np.asarray(east, dtype=float).ravel()
    n = np.asarray(north, dtype=float).ravel()
    cnt = count if reproducible else -1
    term = "c13_nodes_inside %s %s %s %s %s" % (dl(region), dl(e), dl(n), cZ(cnt), cbool(exact))
    return Case(desc, {"n_nodes": int(e.size), "easting_minmax": [float(e.min()), float(e.max())] if e.size else [],
                       "northing_minmax": [float(n.min()), float(n.max())] if n.size else [], "reproducible": reproducible},
                term, repro, kind)


def maxabs_case(vd, arrays, kind):
    out = float(vd.maxabs(*[np.array(a, dtype=float) for a in arrays]))
    term = "c13_maxabs %s %s" % (clist([dl(np.ravel(a)) for a in arrays]), cD(out))
    repro = "import verde, numpy as np; print(verde.maxabs(*[np.array(a) for a in %r]))" % ([np.asarray(a).tolist() for a in arrays],)
    return Case({"fn": "maxabs", "arrays": [np.asarray(a).tolist() for a in arrays]}, out, term, repro, kind)


def project_case(vd, region, name, fn, kind):
    log = {}

    def proj(e, n):
        log["in"] = (np.array(e, copy=True), np.array(n, copy=True))
        out = fn(e, n)
        log["out"] = (np.array(out[0], dtype=float, copy=True), np.array(out[1], dtype=float, copy=True))
        return out

    out = vd.project_region(region, proj)
    ie, inn = log.get("in", (np.zeros(0), np.zeros(0)))
    mesh_ok = ie.size == 101 * 101 and inn.size == 101 * 101
    if mesh_ok:
        E = ie.reshape(101, 101)
        N = inn.reshape(101, 101)
        mesh_ok = bool(np.all(E == E[0]) and np.all(N == N[:, :1]))
    e1 = E[0] if mesh_ok else np.zeros(0)
    n1 = N[:, 0] if mesh_ok else np.zeros(0)
    # independent oracle: the projection applied to the 101 x 101 nodes of the region
    oe, on = np.meshgrid(np.linspace(region[0], region[1], 101), np.linspace(region[2], region[3], 101))
    pe, pn = fn(oe.ravel(), on.ravel())
    oracle = [np.min(pe), np.max(pe), np.min(pn), np.max(pn)]
    lo = log.get("out", (np.zeros(0), np.zeros(0)))
    term = "c13_project_region %s %s %s %s %s %s %s" % (dl(region), dl(e1), dl(n1), dl(lo[0]), dl(lo[1]), dl(oracle), dl(out))
    repro = "# projection %s\nimport verde; print(verde.project_region(%r, <projection %s>))" % (name, list(region), name)
    return Case({"fn": "project_region", "region": list(region), "projection": name}, [float(x) for x in out], term, repro, kind)


def region_check_case(vd, region, how, kind):
    from verde.coordinates import check_region
    raised = False
    try:
        if how == "check_region":
            check_region(region)
        elif how == "inside":
            vd.inside((np.array([0.0]), np.array([0.0])), region)
        elif how == "grid_coordinates":
            vd.grid_coordinates(region, shape=(2, 2))
        elif how == "scatter_points":
            vd.scatter_points(region, size=3, random_state=0)
    except ValueError:
        raised = True
    term = "c13_region_check %s %s" % (dl(region), cbool(raised))
    repro = "import verde; verde.coordinates.check_region(%r)" % (list(region),)
    return Case({"fn": how, "region": list(region)}, "ValueError" if raised else "accepted", term, repro, kind, nontrivial=False)


PROJECTIONS = {
    "affine": lambda e, n: (2 * e + 1, -1 * n + 3),
    "mercator-like": lambda e, n: (e * 1000.0, 1000.0 * np.arcsinh(np.tan(np.radians(np.clip(n, -80, 80))))),
    "non-monotone": lambda e, n: ((e - 1.0) ** 2 + n, np.sin(n) + 0.1 * e),
    "rotation": lambda e, n: (0.6 * e - 0.8 * n, 0.8 * e + 0.6 * n),
    "interior-extremum": lambda e, n: (e ** 2 + n ** 2, n - 0.5 * e * e),
    "squares": lambda e, n: (n ** 2 + 0.001 * e, e ** 2 + 0.001 * n),
}


def generate(tier, seed):
    import verde as vd
    rnd = random.Random(seed)
    cases = []
    lat = [k / 4 for k in range(-8, 9)]
    nclouds = 120 if tier == "quick" else 1200
    for i in range(nclouds):
        w, e = sorted([rnd.choice(lat), rnd.choice(lat)])
        s, n = sorted([rnd.choice(lat), rnd.choice(lat)])
        if i % 17 == 0:
            e = w
        m = rnd.randint(1, 12)
        ex = [rnd.choice([w, e, rnd.choice(lat), (w + e) / 2, w - 0.25, e + 0.25, rnd.uniform(-3, 3)]) for _ in range(m)]
        ny = [rnd.choice([s, n, rnd.choice(lat), (s + n) / 2, s - 0.25, n + 0.25, rnd.uniform(-3, 3)]) for _ in range(m)]
        if i % 3 == 0 and m % 2 == 0:
            ex = np.array(ex).reshape(2, m // 2)
            ny = np.array(ny).reshape(2, m // 2)
        elif i % 3 == 1 and m % 3 == 0:
            ex = np.array(ex).reshape(m // 3, 3)
            ny = np.array(ny).reshape(m // 3, 3)
        cases.append(core.guarded(lambda: inside_case(vd, (w, e, s, n), ex, ny, "inside", rnd), {"fn": "inside_case"}, "inside_case"))
        cases.append(core.guarded(lambda: get_region_case(vd, ex, ny, "get_region", rnd), {"fn": "get_region_case"}, "get_region_case"))
    # corners exactly
    cases.append(core.guarded(lambda: inside_case(vd, (0.0, 1.0, 2.0, 3.0), [0, 1, 0, 1, 0.5, -1e-300, 1 + 2 ** -52], [2, 2, 3, 3, 2.5, 2, 3], "inside-corners"), {"fn": "inside_case"}, "inside_case"))
    # pads
    for reg in [(0.0, 5.0, -10.0, -5.0), (-2.5, 1.25, 3.0, 4.75), (1e6, 1e6 + 4.0, -1e6, -1e6 + 3.0), (0.0, 0.0, 1.0, 1.0)]:
        for pad in [1.0, 0.1, -0.5, (3.0, 1.0), (0.25, -0.75), (1e3, 1e-3)]:
            cases.append(core.guarded(lambda: pad_case(vd, reg, pad, "pad"), {"fn": "pad_case"}, "pad_case"))
    for i in range(20 if tier == "quick" else 200):
        w = rnd.uniform(-100, 100)
        s = rnd.uniform(-100, 100)
        reg = (w, w + rnd.uniform(0, 50), s, s + rnd.uniform(0, 50))
        pad = rnd.uniform(-5, 5) if i % 2 else (rnd.uniform(-5, 5), rnd.uniform(-5, 5))
        cases.append(core.guarded(lambda: pad_case(vd, reg, pad, "pad-random"), {"fn": "pad_case"}, "pad_case"))
    # grid nodes inside
    regs = [(0.0, 5.0, 0.0, 10.0), (-2.5, 1.25, 3.0, 4.75), (1e6, 1e6 + 4.0, -1e6, -1e6 + 3.0), (-0.3, 0.7, 0.1, 0.2), (0.0, 0.0, 0.0, 1.0)]
    for reg in regs:
        for pix in (False, True):
            for shp in [(148, 170), (282, 23), (12, 295), (97, 101)]:
                # large node counts (where a recomputed last node could miss the bound by an ulp): 1-D vectors
                g = vd.grid_coordinates(reg, shape=shp, pixel_register=pix, meshgrid=False)
                m = min(len(g[0]), len(g[1]))
                ee = np.concatenate([g[0][:m], g[0][-m:]])
                nn = np.concatenate([g[1][:m], g[1][-m:]])
                cases.append(nodes_case(vd, reg, ee, nn, 2 * m,
                                        {"fn": "grid_coordinates", "region": list(reg), "shape": shp, "pixel": pix, "meshgrid": False},
                                        "import verde; print(verde.grid_coordinates(%r, shape=%r, pixel_register=%r, meshgrid=False))" % (list(reg), shp, pix),
                                        "grid-nodes-large"))
            for shp in [(1, 1), (2, 3), (5, 4), (7, 1), (1, 6), (10, 11)]:
                g = vd.grid_coordinates(reg, shape=shp, pixel_register=pix)
                cases.append(nodes_case(vd, reg, g[0], g[1], shp[0] * shp[1],
                                        {"fn": "grid_coordinates", "region": list(reg), "shape": shp, "pixel": pix},
                                        "import verde; print(verde.grid_coordinates(%r, shape=%r, pixel_register=%r))" % (list(reg), shp, pix),
                                        "grid-nodes-shape"))
            for sp in [0.3, 0.75, (0.07, 1.3), 2.5, 100.0]:
                g = vd.grid_coordinates(reg, spacing=sp, adjust="spacing", pixel_register=pix)
                if g[0].size > 400:
                    continue
                cases.append(nodes_case(vd, reg, g[0], g[1], g[0].size,
                                        {"fn": "grid_coordinates", "region": list(reg), "spacing": sp, "adjust": "spacing", "pixel": pix},
                                        "import verde; print(verde.grid_coordinates(%r, spacing=%r, pixel_register=%r))" % (list(reg), sp, pix),
                                        "grid-nodes-spacing"))
    # scatter points
    for reg in regs[:4]:
        for sd in (0, 1, 12345) if tier == "quick" else range(12):
            for size in (1, 7, 40):
                a = vd.scatter_points(reg, size=size, random_state=sd)
                b = vd.scatter_points(reg, size=size, random_state=sd)
                same = all(np.array_equal(x, y) for x, y in zip(a, b))
                cases.append(nodes_case(vd, reg, a[0], a[1], size,
                                        {"fn": "scatter_points", "region": list(reg), "size": size, "random_state": sd},
                                        "import verde; print(verde.scatter_points(%r, size=%r, random_state=%r))" % (list(reg), size, sd),
                                        "scatter", reproducible=same, exact=False))
    # project_region
    pregs = [(3.0, 5.0, -9.0, -4.0), (-1.0, 1.0, -1.0, 1.0)] if tier == "quick" else \
        [(3.0, 5.0, -9.0, -4.0), (-1.0, 1.0, -1.0, 1.0), (-2.0, 2.5, -1.0, 1.0), (0.0, 1.0, 0.0, 1.0), (-60.0, -40.0, -30.0, 10.0)]
    # strongly elongated regions: both axes must still be sampled with 101 nodes (an extremum along the SHORT side counts)
    pregs = pregs + [(0.0, 1000.0, -1.0, 1.0), (-1.0, 1.0, 0.0, 1000.0)] + ([] if tier == "quick" else [(-180.0, 180.0, -1.0, 1.0), (0.0, 5000.0, -0.5, 2.0)])
    for reg in pregs:
        for name, fn in PROJECTIONS.items():
            cases.append(core.guarded(lambda: project_case(vd, reg, name, fn, "project_region"), {"fn": "project_case"}, "project_case"))
    # maxabs
    for i in range(30 if tier == "quick" else 300):
        arrays = [[rnd.choice([rnd.uniform(-100, 100), -25.0, 25.0, 0.0, -1e-300]) for _ in range(rnd.randint(1, 8))]
                  for _ in range(rnd.randint(1, 4))]
        if i % 5 == 0:
            arrays[0] = np.array(arrays[0] + arrays[0]).reshape(2, -1)
        cases.append(core.guarded(lambda: maxabs_case(vd, arrays, "maxabs"), {"fn": "maxabs_case"}, "maxabs_case"))
    cases.append(core.guarded(lambda: maxabs_case(vd, [[1.0, -10.0, 25.0, 2.0, 3.0]], "maxabs"), {"fn": "maxabs_case"}, "maxabs_case"))
    cases.append(core.guarded(lambda: maxabs_case(vd, [[1.0, -10.5, 25.0], [0.1, 100.0, -500.0, -200.0, -0.1]], "maxabs"), {"fn": "maxabs_case"}, "maxabs_case"))
    cases.append(core.guarded(lambda: maxabs_case(vd, [[-3.0, -2.0], [1.0]], "maxabs"), {"fn": "maxabs_case"}, "maxabs_case"))
    # invalid / valid regions through every entry point
    for reg in [(5.0, 0.0, 0.0, 1.0), (0.0, 1.0, 2.0, 1.0), (0.0, 1.0, 0.0), (0.0, 1.0, 0.0, 1.0, 2.0), (1.0, 1.0, 1.0, 1.0),
                (0.0, 10.0, -5.0, 5.0, -1000.0, 0.0), (0.0, 1.0, 0.0, 1.0, 0.0, 1.0, 0.0, 1.0), (0.0, 1.0), (),
                (0.0, 1.0, 0.0, 1.0), (1.0 + 2 ** -52, 1.0, 0.0, 1.0), (0.0, 1.0, -1.0, -1.0 - 2 ** -52)]:
        for how in ("check_region", "inside", "grid_coordinates", "scatter_points"):
            if how in ("grid_coordinates", "scatter_points") and len(reg) != 4:
                if how == "grid_coordinates":
                    pass
                else:
                    pass
            cases.append(core.guarded(lambda: region_check_case(vd, reg, how, "region-check"), {"fn": "region_check_case"}, "region_check_case"))
    return cases


def search(dis, tier, seed):
    return generate("thorough", seed + 1)
