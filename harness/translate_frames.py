"""C20 (b): regenerate the attribute-frame IR (Model/Frames.v) of every
estimator class of verde from the source, with python's `ast`.  Fail closed:
any construct touching `self` that is not classified below raises Abort, which
the check reports as a broken tie for that class.

Output: (coq_text, obligations) where obligations = [(name, classname)].
"""
import ast
import os

INTERNAL = {"DummyEstimator": "internal adapter handed to scikit-learn scorers; never exposed, never fitted"}
MEMO = {"VectorSpline2D": ["force_coords"]}      # documented write-once parameter (verde/vector.py)
EXTERNAL_BASES = {"BaseEstimator", "BaseCrossValidator", "object"}
# attribute names of `self` that are methods / attributes inherited from scikit-learn or object
EXTERNAL_SELF = {"__class__", "get_params", "set_params"}
WARN_FUNCS = {"warn", "warnings.warn"}
MAXDEPTH = 12


class Abort(Exception):
    pass


def _dotted(node):
    if isinstance(node, ast.Name):
        return node.id
    if isinstance(node, ast.Attribute):
        b = _dotted(node.value)
        return None if b is None else b + "." + node.attr
    return None


class Source:
    def __init__(self, pkgdir):
        self.classes = {}      # name -> ClassDef
        self.funcs = {}        # name -> FunctionDef (module level; last definition wins is avoided: duplicates abort on use)
        self.dups = set()
        for root, dirs, files in os.walk(pkgdir):
            dirs[:] = [d for d in dirs if d not in ("tests", "datasets", "__pycache__")]
            for fn in sorted(files):
                if not fn.endswith(".py"):
                    continue
                tree = ast.parse(open(os.path.join(root, fn)).read())
                for node in tree.body:
                    if isinstance(node, ast.ClassDef):
                        if node.name in self.classes:
                            self.dups.add(node.name)
                        self.classes[node.name] = node
                    elif isinstance(node, ast.FunctionDef):
                        if node.name in self.funcs:
                            self.dups.add(node.name)
                        self.funcs[node.name] = node

    def bases(self, cname):
        out = []
        for b in self.classes[cname].bases:
            n = _dotted(b)
            if n is None:
                raise Abort("%s: unnamed base class" % cname)
            out.append(n.split(".")[-1])
        return out

    def mro(self, cname):
        """linear chain of verde-defined ancestors (single inheritance among verde classes)"""
        chain = [cname]
        cur = cname
        while True:
            vb = [b for b in self.bases(cur) if b in self.classes]
            ext = [b for b in self.bases(cur) if b not in self.classes]
            for e in ext:
                if e not in EXTERNAL_BASES:
                    raise Abort("%s: unknown external base %s" % (cur, e))
            if not vb:
                return chain
            if len(vb) > 1:
                raise Abort("%s: multiple verde bases" % cur)
            cur = vb[0]
            chain.append(cur)

    def is_estimator(self, cname):
        cur = cname
        seen = set()
        while cur in self.classes and cur not in seen:
            seen.add(cur)
            bs = self.bases(cur)
            if any(b in ("BaseEstimator", "BaseCrossValidator") for b in bs):
                return True
            nxt = [b for b in bs if b in self.classes]
            if not nxt:
                return False
            cur = nxt[0]
        return False

    def find(self, cname, meth):
        """(defining class, FunctionDef, is_property) or None"""
        for c in self.mro(cname):
            for node in self.classes[c].body:
                if isinstance(node, ast.FunctionDef) and node.name == meth:
                    isprop = any(_dotted(d) == "property" for d in node.decorator_list)
                    return c, node, isprop
        return None

    def class_attr(self, cname, name):
        for c in self.mro(cname):
            for node in self.classes[c].body:
                if isinstance(node, ast.Assign):
                    for t in node.targets:
                        if isinstance(t, ast.Name) and t.id == name:
                            return True
        return False


# ---------------------------------------------------------------------------
# IR construction helpers (python-side mirror of Frames.cmd)
def Seq(items):
    flat = []
    for i in items:
        i = _simp(i)
        if i is None or i == ("Skip",):
            continue
        if i[0] == "Seq":
            flat.extend(i[1])
        else:
            flat.append(i)
    if not flat:
        return ("Skip",)
    if len(flat) == 1:
        return flat[0]
    return ("Seq", flat)


def _simp(c):
    """drop control structure that contains no attribute event"""
    if c is None:
        return None
    if c[0] == "Ite":
        a, b = _simp(c[1]), _simp(c[2])
        if a == ("Skip",) and b == ("Skip",):
            return ("Skip",)
        return ("Ite", a, b)
    if c[0] == "Loop":
        a = _simp(c[1])
        if a == ("Skip",):
            return ("Skip",)
        return ("Loop", a)
    if c[0] == "Seq":
        return Seq(c[1])
    return c


def coq_cmd(c):
    t = c[0]
    if t == "Skip":
        return "Skip"
    if t == "Seq":
        return "(seq [%s])" % "; ".join(coq_cmd(x) for x in c[1])
    if t in ("Rd", "Has", "Wr", "Dflt"):
        return '(%s "%s")' % (t, c[1])
    if t == "Ite":
        return "(Ite %s %s)" % (coq_cmd(c[1]), coq_cmd(c[2]))
    if t == "Loop":
        return "(Loop %s)" % coq_cmd(c[1])
    if t == "Guard":
        return "(Guard [%s])" % "; ".join('"%s"' % a for a in c[1])
    raise Abort("bad IR " + repr(c))


def _is_const(node, argnames):
    """expression that does not depend on constructor arguments or self"""
    for n in ast.walk(node):
        if isinstance(n, ast.Name) and (n.id in argnames or n.id == "self"):
            return False
        if isinstance(n, (ast.Call, ast.Lambda, ast.ListComp, ast.GeneratorExp, ast.DictComp, ast.SetComp, ast.Await, ast.Yield)):
            return False
    return True


def _terminates(stmts):
    return bool(stmts) and isinstance(stmts[-1], (ast.Return, ast.Raise))


def _only_raises(stmts):
    return bool(stmts) and isinstance(stmts[-1], ast.Raise)


class MethodTranslator:
    def __init__(self, src, cname):
        self.src = src
        self.cname = cname

    # -- expressions -------------------------------------------------------
    def expr(self, node, selfname, depth):
        """events of evaluating an expression, in (approximate) program order"""
        if node is None:
            return ("Skip",)
        ev = []
        self._expr(node, selfname, depth, ev)
        return Seq(ev)

    def _self_attr(self, node, selfname):
        return (isinstance(node, ast.Attribute) and isinstance(node.value, ast.Name) and node.value.id == selfname)

    def _expr(self, node, sn, depth, ev):
        if depth > MAXDEPTH:
            raise Abort("%s: inlining too deep" % self.cname)
        if isinstance(node, ast.Name):
            if node.id == sn:
                raise Abort("%s: bare `self` used as a value (line %d)" % (self.cname, node.lineno))
            return
        if isinstance(node, ast.Constant):
            return
        if self._self_attr(node, sn):
            self._read_attr(node.attr, sn, depth, ev, node)
            return
        if isinstance(node, ast.Call):
            self._call(node, sn, depth, ev)
            return
        if isinstance(node, (ast.ListComp, ast.SetComp, ast.GeneratorExp, ast.DictComp)):
            inner = []
            first = True
            for g in node.generators:
                if first:
                    self._expr(g.iter, sn, depth, ev)
                    first = False
                else:
                    self._expr(g.iter, sn, depth, inner)
                for c in g.ifs:
                    self._expr(c, sn, depth, inner)
            if isinstance(node, ast.DictComp):
                self._expr(node.key, sn, depth, inner)
                self._expr(node.value, sn, depth, inner)
            else:
                self._expr(node.elt, sn, depth, inner)
            body = Seq(inner)
            if body != ("Skip",):
                ev.append(("Loop", body))
            return
        if isinstance(node, ast.Lambda):
            inner = []
            self._expr(node.body, sn, depth, inner)
            body = Seq(inner)
            if body != ("Skip",):
                ev.append(("Loop", body))
            return
        if isinstance(node, ast.IfExp):
            self._expr(node.test, sn, depth, ev)
            ev.append(("Ite", self.expr(node.body, sn, depth), self.expr(node.orelse, sn, depth)))
            return
        if isinstance(node, ast.BoolOp):
            self._expr(node.values[0], sn, depth, ev)
            rest = Seq([self.expr(v, sn, depth) for v in node.values[1:]])
            if rest != ("Skip",):
                ev.append(("Ite", rest, ("Skip",)))
            return
        if isinstance(node, (ast.NamedExpr, ast.Await)):
            raise Abort("%s: unsupported expression %s" % (self.cname, type(node).__name__))
        for child in ast.iter_child_nodes(node):
            if isinstance(child, (ast.expr, ast.keyword, ast.comprehension, ast.Starred, ast.slice if hasattr(ast, "slice") else ast.expr)):
                if isinstance(child, ast.keyword):
                    self._expr(child.value, sn, depth, ev)
                else:
                    self._expr(child, sn, depth, ev)

    def _read_attr(self, name, sn, depth, ev, node):
        if name in ("__dict__", "__setattr__", "__getattribute__", "__delattr__"):
            raise Abort("%s: self.%s (line %d)" % (self.cname, name, node.lineno))
        if name in EXTERNAL_SELF:
            return
        found = self.src.find(self.cname, name)
        if found is not None:
            c, fn, isprop = found
            if isprop:
                ev.append(self.body(fn.body, "self", depth + 1))
                return
            raise Abort("%s: bound method self.%s used as a value (line %d)" % (self.cname, name, node.lineno))
        if self.src.class_attr(self.cname, name):
            return                                    # class-level constant
        ev.append(("Rd", name))

    def _call(self, node, sn, depth, ev):
        f = node.func
        fname = _dotted(f)
        args = list(node.args) + [k.value for k in node.keywords]
        selfargs = [a for a in args if isinstance(a, ast.Name) and a.id == sn]
        # reflection on self
        if fname in ("getattr", "hasattr", "setattr", "delattr", "vars", "dir") and args and isinstance(args[0], ast.Name) and args[0].id == sn:
            if fname == "hasattr" and len(args) == 2 and isinstance(args[1], ast.Constant) and isinstance(args[1].value, str):
                found = self.src.find(self.cname, args[1].value)
                if found is not None:
                    if found[2]:                       # a property: hasattr evaluates it
                        ev.append(("Ite", self.body(found[1].body, "self", depth + 1), ("Skip",)))
                    return
                ev.append(("Has", args[1].value))
                return
            if fname == "getattr" and len(args) in (2, 3) and isinstance(args[1], ast.Constant) and isinstance(args[1].value, str):
                if len(args) == 3:
                    self._expr(args[2], sn, depth, ev)
                    ev.append(("Has", args[1].value))
                else:
                    self._read_attr(args[1].value, sn, depth, ev, node)
                return
            raise Abort("%s: %s(self, ...) is not analysable (line %d)" % (self.cname, fname, node.lineno))
        # self.method(...)
        if self._self_attr(f, sn):
            for a in args:
                self._expr(a.value if isinstance(a, ast.Starred) else a, sn, depth, ev)
            found = self.src.find(self.cname, f.attr)
            if found is not None:
                c, fn, isprop = found
                if isprop:
                    ev.append(self.body(fn.body, "self", depth + 1))
                else:
                    if any(_dotted(d) in ("staticmethod", "classmethod") for d in fn.decorator_list):
                        raise Abort("%s: static/class method %s" % (self.cname, f.attr))
                    ev.append(self.body(fn.body, fn.args.args[0].arg, depth + 1))
                return
            if f.attr in EXTERNAL_SELF:
                if f.attr == "set_params":
                    raise Abort("%s: self.set_params() inside a method (line %d)" % (self.cname, node.lineno))
                ev.extend(("Rd", p) for p in self.params)        # get_params reads every parameter
                return
            ev.append(("Rd", f.attr))                              # a callable stored in an attribute (reduction)
            return
        # super().method(...)
        if isinstance(f, ast.Attribute) and isinstance(f.value, ast.Call) and _dotted(f.value.func) == "super":
            for a in args:
                self._expr(a.value if isinstance(a, ast.Starred) else a, sn, depth, ev)
            chain = self.src.mro(self.cname)
            owner = self._owner
            idx = chain.index(owner) if owner in chain else 0
            for c in chain[idx + 1:]:
                for n2 in self.src.classes[c].body:
                    if isinstance(n2, ast.FunctionDef) and n2.name == f.attr:
                        old = self._owner
                        self._owner = c
                        ev.append(self.body(n2.body, n2.args.args[0].arg, depth + 1))
                        self._owner = old
                        return
            return                                                  # inherited from scikit-learn: does not touch verde attributes
        # check_is_fitted(self, [...])
        if fname is not None and fname.split(".")[-1] == "check_is_fitted" and selfargs:
            if len(node.args) >= 2 and isinstance(node.args[1], (ast.List, ast.Tuple)) and all(
                    isinstance(e, ast.Constant) and isinstance(e.value, str) for e in node.args[1].elts) and node.args[1].elts:
                ev.append(("Guard", [e.value for e in node.args[1].elts]))
                return
            raise Abort("%s: check_is_fitted without a literal attribute list (line %d)" % (self.cname, node.lineno))
        if selfargs:
            if fname in ("repr", "str", "format"):
                ev.extend(("Rd", p) for p in self.params)
                return
            if fname in ("isinstance", "type", "id"):
                return
            short = fname.split(".")[-1] if fname else None
            if short in self.src.funcs and short not in self.src.dups:
                fn = self.src.funcs[short]
                # bind: find which parameter receives self
                pnames = [a.arg for a in fn.args.args]
                pos = None
                for i, a in enumerate(node.args):
                    if isinstance(a, ast.Name) and a.id == sn:
                        pos = pnames[i] if i < len(pnames) else None
                for k in node.keywords:
                    if isinstance(k.value, ast.Name) and k.value.id == sn:
                        pos = k.arg
                if pos is None or len(selfargs) != 1:
                    raise Abort("%s: cannot bind self in call to %s (line %d)" % (self.cname, fname, node.lineno))
                for a in args:
                    if not (isinstance(a, ast.Name) and a.id == sn):
                        self._expr(a.value if isinstance(a, ast.Starred) else a, sn, depth, ev)
                ev.append(self.body(fn.body, pos, depth + 1))
                return
            raise Abort("%s: self escapes into unknown callable %s (line %d)" % (self.cname, fname, node.lineno))
        # ordinary call: evaluate function expression and arguments
        self._expr(f, sn, depth, ev)
        for a in args:
            self._expr(a.value if isinstance(a, ast.Starred) else a, sn, depth, ev)

    # -- statements ----------------------------------------------------------
    def body(self, stmts, sn, depth):
        if depth > MAXDEPTH:
            raise Abort("%s: inlining too deep" % self.cname)
        out = []
        for i, st in enumerate(stmts):
            rest = stmts[i + 1:]
            if isinstance(st, ast.Expr):
                if isinstance(st.value, ast.Constant):
                    continue
                out.append(self.expr(st.value, sn, depth))
            elif isinstance(st, ast.Pass):
                continue
            elif isinstance(st, ast.Return):
                if isinstance(st.value, ast.Name) and st.value.id == sn:
                    break                                  # return self
                out.append(self.expr(st.value, sn, depth))
                break
            elif isinstance(st, ast.Raise):
                out.append(self.expr(st.exc, sn, depth))
                break
            elif isinstance(st, (ast.Assign, ast.AnnAssign, ast.AugAssign)):
                out.append(self.assign(st, sn, depth))
            elif isinstance(st, ast.If):
                # write-once pattern:  if self.a is None: self.a = <expr>
                d = self.dflt_pattern(st, sn, depth)
                if d is not None:
                    out.append(d)
                    continue
                out.append(self.expr(st.test, sn, depth))
                if _only_raises(st.body) and not st.orelse:
                    # a validation error ends the call: failed calls are outside the theorems' scope
                    continue
                if _terminates(st.body) or _terminates(st.orelse):
                    # early return: the continuation belongs to the other branch
                    b1 = self.body(st.body + ([] if _terminates(st.body) else rest), sn, depth)
                    b2 = self.body(st.orelse + ([] if _terminates(st.orelse) else rest), sn, depth)
                    out.append(("Ite", b1, b2))
                    break
                out.append(("Ite", self.body(st.body, sn, depth), self.body(st.orelse, sn, depth)))
            elif isinstance(st, (ast.For, ast.While)):
                if isinstance(st, ast.For):
                    out.append(self.expr(st.iter, sn, depth))
                    self.target_ok(st.target, sn)
                    inner = self.body(st.body, sn, depth)
                else:
                    out.append(self.expr(st.test, sn, depth))
                    inner = Seq([self.body(st.body, sn, depth), self.expr(st.test, sn, depth)])
                out.append(("Loop", inner))
                if st.orelse:
                    out.append(("Ite", self.body(st.orelse, sn, depth), ("Skip",)))
            elif isinstance(st, ast.Try):
                out.append(("Ite", self.body(st.body, sn, depth), ("Skip",)))
                for h in st.handlers:
                    out.append(("Ite", self.body(h.body, sn, depth), ("Skip",)))
                if st.orelse:
                    out.append(("Ite", self.body(st.orelse, sn, depth), ("Skip",)))
                out.append(self.body(st.finalbody, sn, depth))
            elif isinstance(st, ast.With):
                for it in st.items:
                    out.append(self.expr(it.context_expr, sn, depth))
                out.append(self.body(st.body, sn, depth))
            elif isinstance(st, ast.FunctionDef):
                inner = self.body(st.body, sn, depth)     # closure: may run any number of times later
                if inner != ("Skip",):
                    out.append(("Loop", inner))
            elif isinstance(st, (ast.Import, ast.ImportFrom, ast.Assert, ast.Global, ast.Nonlocal, ast.Break, ast.Continue)):
                if isinstance(st, ast.Assert):
                    out.append(self.expr(st.test, sn, depth))
            elif isinstance(st, ast.Delete):
                for t in st.targets:
                    if any(isinstance(n, ast.Name) and n.id == sn for n in ast.walk(t)):
                        raise Abort("%s: del on self (line %d)" % (self.cname, st.lineno))
            else:
                raise Abort("%s: unsupported statement %s (line %d)" % (self.cname, type(st).__name__, st.lineno))
        return Seq(out)

    def target_ok(self, t, sn):
        for n in ast.walk(t):
            if isinstance(n, ast.Name) and n.id == sn:
                raise Abort("%s: self rebound or written through a loop target" % self.cname)

    def dflt_pattern(self, st, sn, depth):
        t = st.test
        if not (isinstance(t, ast.Compare) and len(t.ops) == 1 and isinstance(t.ops[0], ast.Is)
                and isinstance(t.comparators[0], ast.Constant) and t.comparators[0].value is None
                and self._self_attr(t.left, sn)):
            return None
        if st.orelse or len(st.body) != 1 or not isinstance(st.body[0], ast.Assign):
            return None
        a = st.body[0]
        if len(a.targets) != 1 or not self._self_attr(a.targets[0], sn) or a.targets[0].attr != t.left.attr:
            return None
        return Seq([self.expr(a.value, sn, depth), ("Dflt", t.left.attr)])

    def assign(self, st, sn, depth):
        out = []
        if isinstance(st, ast.AugAssign):
            targets = [st.target]
            out.append(self.expr(st.value, sn, depth))
        elif isinstance(st, ast.AnnAssign):
            targets = [st.target]
            out.append(self.expr(st.value, sn, depth))
        else:
            targets = st.targets
            out.append(self.expr(st.value, sn, depth))
        for t in targets:
            out.append(self.write_target(t, sn, depth, aug=isinstance(st, ast.AugAssign)))
        return Seq(out)

    def write_target(self, t, sn, depth, aug=False):
        if isinstance(t, ast.Name):
            if t.id == sn:
                raise Abort("%s: self rebound" % self.cname)
            return ("Skip",)
        if self._self_attr(t, sn):
            if self.src.find(self.cname, t.attr) is not None:
                raise Abort("%s: assignment to method/property self.%s" % (self.cname, t.attr))
            return Seq([("Rd", t.attr), ("Wr", t.attr)]) if aug else ("Wr", t.attr)
        if isinstance(t, (ast.Tuple, ast.List)):
            return Seq([self.write_target(e, sn, depth, aug) for e in t.elts])
        if isinstance(t, ast.Starred):
            return self.write_target(t.value, sn, depth, aug)
        if isinstance(t, (ast.Subscript, ast.Attribute)):
            # x[...] = v  /  x.attr = v : if x is (part of) a self attribute it is a write into that attribute's object
            base = t
            while isinstance(base, (ast.Subscript, ast.Attribute)) and not self._self_attr(base, sn):
                base = base.value
            ev = []
            if isinstance(t, ast.Subscript):
                self._expr(t.slice, sn, depth, ev)
            if self._self_attr(base, sn):
                return Seq(ev + [("Rd", base.attr), ("Wr", base.attr)])
            self._expr(base, sn, depth, ev)
            return Seq(ev)
        raise Abort("%s: unsupported assignment target %s" % (self.cname, type(t).__name__))

    # -- constructor -----------------------------------------------------------
    def init_items(self, cname, argmap=None, depth=0):
        """returns (params, items).  argmap (for an inlined parent constructor): parent param -> ('arg', name) | ('const',)"""
        found = self.src.find(cname, "__init__")
        if found is None:
            return [], []
        owner, fn, _ = found
        a = fn.args
        if a.vararg or a.kwarg or a.posonlyargs:
            raise Abort("%s.__init__: *args/**kwargs" % owner)
        names = [x.arg for x in a.args[1:]] + [x.arg for x in a.kwonlyargs]
        sn = a.args[0].arg
        if argmap is None:
            env = {n: ("arg", n) for n in names}
        else:
            env = {}
            for n in names:
                env[n] = argmap.get(n, ("const",))       # missing -> parent's default (a constant)
        items = []
        for st in fn.body:
            if isinstance(st, ast.Expr) and isinstance(st.value, ast.Constant):
                continue
            if isinstance(st, ast.Expr) and isinstance(st.value, ast.Call):
                call = st.value
                fname = _dotted(call.func)
                # super().__init__(...)
                if (isinstance(call.func, ast.Attribute) and call.func.attr == "__init__" and isinstance(call.func.value, ast.Call)
                        and _dotted(call.func.value.func) == "super"):
                    chain = self.src.mro(owner)
                    parent = chain[1] if len(chain) > 1 else None
                    if call.args:
                        raise Abort("%s.__init__: positional arguments to super().__init__" % owner)
                    if parent is None or self.src.find(parent, "__init__") is None:
                        if call.keywords:
                            raise Abort("%s.__init__: arguments passed to an external constructor" % owner)
                        continue
                    amap = {}
                    for k in call.keywords:
                        if k.arg is None:
                            raise Abort("%s.__init__: **kwargs to super().__init__" % owner)
                        amap[k.arg] = self._init_value(k.value, env, owner)
                    _, sub = self.init_items(parent, amap, depth + 1)
                    items.extend(sub)
                    continue
                if fname in WARN_FUNCS and not self._mentions(call, sn):
                    continue
                raise Abort("%s.__init__: call %s (line %d)" % (owner, fname, st.lineno))
            if isinstance(st, ast.Assign) and len(st.targets) == 1 and self._self_attr(st.targets[0], sn):
                attr = st.targets[0].attr
                v = self._init_value(st.value, env, owner)
                if v[0] == "arg":
                    items.append(("IStore", attr) if v[1] == attr else ("IBad", attr))
                elif v[0] == "const":
                    items.append(("IConst", attr))
                else:
                    items.append(("IBad", attr))
                continue
            if isinstance(st, ast.If):
                if self._mentions(st.test, sn):
                    raise Abort("%s.__init__: condition reads self (line %d)" % (owner, st.lineno))
                d = self._init_default(st, env, sn, owner)
                if d is not None:
                    items.append(d)
                    continue
                if all(self._harmless(x, sn) for x in st.body + st.orelse):
                    continue
                # stores under a condition: computed
                for n in ast.walk(st):
                    if isinstance(n, ast.Assign):
                        for t in n.targets:
                            if self._self_attr(t, sn):
                                items.append(("IBad", t.attr))
                if not any(i[0] == "IBad" for i in items):
                    raise Abort("%s.__init__: unclassified if (line %d)" % (owner, st.lineno))
                continue
            if isinstance(st, ast.Pass):
                continue
            raise Abort("%s.__init__: unsupported statement %s (line %d)" % (owner, type(st).__name__, st.lineno))
        return names, items

    def _mentions(self, node, sn):
        return any(isinstance(n, ast.Name) and n.id == sn for n in ast.walk(node))

    def _harmless(self, st, sn):
        if isinstance(st, ast.Raise):
            return not self._mentions(st, sn)
        if isinstance(st, ast.Expr) and isinstance(st.value, ast.Call) and _dotted(st.value.func) in WARN_FUNCS:
            return not self._mentions(st, sn)
        return isinstance(st, ast.Pass)

    def _init_value(self, node, env, owner):
        if isinstance(node, ast.Name) and node.id in env:
            return env[node.id]
        if _is_const(node, set(env)):
            return ("const",)
        return ("computed",)

    def _init_default(self, st, env, sn, owner):
        """if a is None: self.a = CONST [else: self.a = a; warn(...)]"""
        t = st.test
        if not (isinstance(t, ast.Compare) and len(t.ops) == 1 and isinstance(t.ops[0], ast.Is)
                and isinstance(t.comparators[0], ast.Constant) and t.comparators[0].value is None
                and isinstance(t.left, ast.Name) and env.get(t.left.id) == ("arg", t.left.id)):
            return None
        a = t.left.id
        if len(st.body) != 1 or not isinstance(st.body[0], ast.Assign):
            return None
        b = st.body[0]
        if not (len(b.targets) == 1 and self._self_attr(b.targets[0], sn) and b.targets[0].attr == a):
            return None
        if not _is_const(b.value, set(env)) or (isinstance(b.value, ast.Constant) and b.value.value is None):
            return None
        if not st.orelse:
            return None
        e = st.orelse[0]
        if not (isinstance(e, ast.Assign) and len(e.targets) == 1 and self._self_attr(e.targets[0], sn)
                and e.targets[0].attr == a and isinstance(e.value, ast.Name) and e.value.id == a):
            return None
        if not all(self._harmless(x, sn) for x in st.orelse[1:]):
            return None
        return ("IDefault", a)

    # -- whole class -------------------------------------------------------------
    def translate(self):
        src, cname = self.src, self.cname
        for c in src.mro(cname):
            for node in src.classes[c].body:
                if isinstance(node, ast.FunctionDef) and node.name in ("get_params", "set_params", "__getattr__", "__setattr__",
                                                                       "__getattribute__", "__delattr__", "__sklearn_clone__",
                                                                       "__getstate__", "__setstate__", "__new__"):
                    raise Abort("%s: overrides %s" % (c, node.name))
        self.params, items = self.init_items(cname)
        self._owner = cname
        methods = {}
        names = []
        for c in src.mro(cname):
            for node in src.classes[c].body:
                if isinstance(node, ast.FunctionDef) and node.name not in names and node.name != "__init__":
                    names.append(node.name)
        fit = predict = None
        readers = []
        fit_ir = pred_ir = None
        for m in names:
            owner, fn, isprop = src.find(cname, m)
            self._owner = owner
            body = fn.body
            real = [s for s in body if not (isinstance(s, ast.Expr) and isinstance(s.value, ast.Constant))]
            if len(real) == 1 and isinstance(real[0], ast.Raise) and "NotImplementedError" in ast.dump(real[0]):
                continue                                    # abstract placeholder
            if any(_dotted(d) == "abstractmethod" for d in fn.decorator_list):
                continue
            ir = self.body(body, fn.args.args[0].arg, 0)
            methods[m] = ir
        fit_ir = methods.pop("fit", None)
        pred_ir = methods.pop("predict", None)
        if "filter" in methods and fit_ir is not None and pred_ir is not None:
            # the generic BaseGridder.filter must be exactly fit followed by predict
            if methods["filter"] != Seq([fit_ir, pred_ir]):
                raise Abort("%s: filter is not `fit; predict` (frame events differ)" % cname)
            methods.pop("filter")
        elif "filter" in methods and (fit_ir is None) != (pred_ir is None):
            methods.pop("filter")                           # unusable generic filter of a class without fit (CheckerBoard)
        elif "filter" in methods and fit_ir is None and src.find(cname, "filter")[0] == "BaseGridder":
            methods.pop("filter")
        return {"name": cname, "params": self.params, "memo": MEMO.get(cname, []), "init": items,
                "fit": fit_ir, "predict": pred_ir, "readers": methods}


def coq_class(d):
    sl = lambda xs: "[%s]" % "; ".join('"%s"' % x for x in xs)
    init = "[%s]" % "; ".join('%s "%s"' % (k, a) for k, a in d["init"])
    opt = lambda c: "None" if c is None else "(Some %s)" % coq_cmd(c)
    readers = "[%s]" % ";\n     ".join("(* %s *) %s" % (m, coq_cmd(c)) for m, c in d["readers"].items())
    return ("Definition cls_%s : cls := {|\n  params := %s;\n  memo := %s;\n  init := %s;\n  fit := %s;\n  predict := %s;\n  readers := %s |}.\n"
            % (d["name"], sl(d["params"]), sl(d["memo"]), init, opt(d["fit"]), opt(d["predict"]), readers))


HEADER = """(* GENERATED by harness/translate_frames.py from the verde source - do not edit *)
From Coq Require Import List String Bool.
From Verde Require Import Model.Frames.
Import ListNotations.
Open Scope string_scope.
Open Scope list_scope.
"""


def translate_package(pkgdir):
    """returns list of dicts: {name, coq (text or None), abort (str or None), summary}"""
    src = Source(pkgdir)
    out = []
    for cname in sorted(src.classes):
        try:
            if not src.is_estimator(cname):
                continue
            if cname in INTERNAL:
                continue
            if src.find(cname, "__init__") is None:
                continue                                    # abstract base without constructor: inlined into subclasses
            if any(any(_dotted(d) == "abstractmethod" for d in n.decorator_list)
                   for n in src.classes[cname].body if isinstance(n, ast.FunctionDef)):
                continue                                    # abstract base
            d = MethodTranslator(src, cname).translate()
            text = coq_class(d) + "Example %s_ok : analyse cls_%s = true.\nProof. vm_compute. reflexivity. Qed.\n" % (cname, cname)
            out.append({"name": cname, "coq": text, "abort": None, "ir": d})
        except Abort as e:
            out.append({"name": cname, "coq": None, "abort": str(e), "ir": None})
    return out


if __name__ == "__main__":
    import sys
    for r in translate_package(sys.argv[1]):
        print(r["name"], "ABORT: " + r["abort"] if r["abort"] else "")
        if r["coq"]:
            print(r["coq"])
