"""C10 BlockMean.filter and variance_to_weights.

Two streams.  (1) BlockMean.filter on generated point clouds (labels and block
centres observed from verde.block_split, as for C09) in its three paths
(no weights / weights with uncertainty propagation / weighted variance), plus
the rejection of uncertainty=True without weights, with some inputs read-only
and a byte comparison of every caller array before/after.  (2)
variance_to_weights directly on arrays with zeros, values at and next to the
tolerance, tiny and huge values, NaNs, negatives, 1-D/2-D shapes, lists,
integer input, tuples of 1..3 components, read-only arrays, several tolerances.

The variance's ddof is not fixed by the property: it is probed once per run
(blocks of 2 and 3 members) and given to the model, so the run passes iff all
cases agree with one ddof in {0, 1}."""
import inspect
import math
import random

import numpy as np

from . import core, pylite_tie
from .core import Case, cD, cZ, cN, clist, cbool
from .c09 import (_cloud, _lattice, _distinct_values, _fix_weights, _cd, _cdl, _cdll, _fmt, _same, LAYOUTS,
                  apply_layout, first_call_args, cast_variant, params_snapshot, weight_patterns, geo_term, geometry_configs, configured, next_mode, _call_args, _COUNTER, _SPELL, next_spelling)

obligations = pylite_tie.c10_obligations   # source-regenerated tie of variance_to_weights (harness/pylite_tie.py, pylite_weights.v.tmpl)
ID = "C10"
PROPS_FILE = "Props/C10.v"
IMPORTS = "From Verde Require Import Lib.QList Model.BlockReduce Model.Weights Model.BlockGeo."
SHARD = 34
RULE = ("the weights argument is spelled in fixed shares as None / a tuple of None (accepted: unweighted rule) and, where uncertainty=True must "
        "reject, also as a list of None and as a tuple in which the first or the last component has no weights; a single weight array is "
        "passed bare or as a 1-tuple; every case of every stream configures the estimator by one of five routes in fixed shares (one fifth each, cycling in generation "
        "order): constructor arguments; construction with deliberately different options followed by set_params(**all options); the same "
        "followed by plain attribute assignment of every option; sklearn.base.clone of a configured instance; construction with one or two "
        "options different (cycling over all options), one filter() call, then those options changed (set_params / assignment alternately) - the "
        "observed filter() must follow the options in force when it is called and equal a constructor-configured instance bitwise. Streams: a fixed geometry stream (c09.geometry_configs: spacings at exact half-integer ratios extent/spacing 0.5, 1.5, 2.5, 4.5 "
        "independently in both directions, adjust=region and adjust=spacing with non-dividing scalar and (north, east) spacings, shapes; region "
        "given and inferred; 14-point clouds holding the region corners) followed by: BlockMean.filter: clouds of 1..60 points (uniform / clustered / 2-D grids) with pairwise distinct data on a "
        "1/4 lattice in [-30,30] (1..3 components), blocks of one and of many members, no weights or one distinct "
        "non-negative weight array per component (positive sum per block; pattern chosen independently per component from "
        "{uniform 1, another uniform constant, piecewise constant, varying, varying with zeros} in both weighted modes, all 16 "
        "two-component and 4 three-component combinations also as fixed edge cases), uncertainty on/off, center_coordinates, "
        "drop_coords, extra coordinates, spacing/shape/region variants, read-only inputs, planted blocks whose "
        "variance is just below / above the tolerance; uncertainty=True without weights. variance_to_weights: "
        "arrays of 0..12 values drawn from {0, tol, nextafter(tol, +-), 1e-16, 1e-100, negatives, NaN, 1e100, ordinary "
        "values}, shapes 1-D/2-D, lists, integer input, tuples of 1..3 components with different minima, tolerances "
        "default/0/1e-3/0.5/2, plus float32 / int64 / int32 variance arrays (values away from the tolerance) and 2-D arrays in mixed "
        "memory layouts. About 30 % of the BlockMean cases (and fixed edge cases) hold integer values in int64 / int32 / float32 "
        "arrays (data, weights, coordinates; float32 compared within 2^-20), 2-D inputs come in mixed memory layouts (C, Fortran, "
        "transposed, strided, negative strides; a different one per array) and a quarter of the cases are observed on an instance "
        "that has already filtered other data (result must be bitwise that of a fresh instance). The other data is another survey: a cloud with a different point count and a clearly different bounding box "
        "(shifted far away / three times larger / four times smaller), and 70 % of these instances (plus fixed edge cases with "
        "spacing, shape and adjust=region) have region=None so that each call must infer its own region. For every case "
        "get_params() of the instance is compared before and after filter(): a written constructor parameter makes holds false. A BlockMean case is non-trivial when it returns with >= 2 blocks of different "
        "population; a variance_to_weights case when some variance is above and some at or below the tolerance or NaN.")
ASSUMPTIONS = [
    "block labels and centres are observed from verde.block_split on the arguments the filter uses, and are themselves checked in coqc against the documented block grid computed from region / spacing / shape / adjust by the C07/C08 coordinate models (Model/BlockGeo.v: block count with round-half-to-even, adjusted spacing or adjusted region, centre coordinates within 2^-40 x scale, every point in a block that contains it up to 2^-30 x scale at shared edges); skipped when the horizontal coordinates are float32 or extent/spacing is within 2^-30 of a rounding tie without being one",
    "pandas groupby / numpy.unique as for C09 (executable specifications groupby / ukeys, re-validated on every run); labels and block centres observed from verde.block_split",
    "the ddof of the block variance is not fixed by the property; it is probed once per run (0 with pandas 3, which passes np.var through) and all cases must agree with that one value",
    "floats are read as the rationals they denote; means within relative 2^-40 of the column's largest magnitude, weights within 2^-40 absolute (2^-50 relative for variance_to_weights called directly); generated block variances are well conditioned (data on a 1/4 lattice within [-30,30]); a block variance within 2^-20 relative of the tolerance excludes the case from the weight comparison",
    "input weights are non-negative with a positive sum in every block; no infinities among the variances (nan_to_num maps them to finite extremes) and variance ratios within the normal double range (no subnormal weights)",
]
TRUSTED = ["python harness harness/c10.py (generators, byte comparison of caller arrays, ddof probe, exact float -> dyadic transfer, verdict parsing)"]


def _cod(x):
    x = float(x)
    return "None" if math.isnan(x) else "(Some %s)" % _cd(x)


def default_tol(vd):
    return float(inspect.signature(vd.variance_to_weights).parameters["tol"].default)


_PROBE = {}


def probe_ddof(vd):
    """blocks {0,2} and {0,3,6}: weights (1, 1/6) for ddof 0, (1, 2/9) for ddof 1"""
    if "ddof" in _PROBE:
        return _PROBE["ddof"]
    ddof = 0
    try:
        e = np.array([0.25, 0.5, 1.25, 1.5, 1.75]); n = np.array([0.5] * 5); d = np.array([0.0, 2.0, 0.0, 3.0, 6.0])
        _, _, w = vd.BlockMean(spacing=1, region=(0, 2, 0, 1)).filter((e, n), d)
        if abs(w[1] - 2.0 / 9.0) < 1e-9:
            ddof = 1
    except Exception:
        pass
    _PROBE["ddof"] = ddof
    return ddof


# ---------------------------------------------------------------------------
# BlockMean.filter
# ---------------------------------------------------------------------------
def observe_bm(vd, coords, data, weights, kw, tuple1, twice=False, mode="ctor", step=0, wspell=None):
    arrays = list(coords) + list(data) + (list(weights) if weights is not None else [])
    before = [a.tobytes() for a in arrays]
    stale = False
    params_ok = True
    try:
        c_, d, w = _call_args(coords, data, weights, tuple1, wspell)
        bm = configured(vd, "BlockMean", dict(kw), mode, step, first=(c_, d, w))
        params = params_snapshot(bm)
        if twice:
            # the instance has already filtered other data; the result must be that of a fresh instance
            try:
                bm.filter(*first_call_args(coords, data, weights, True))
            except Exception:
                pass
            params_ok = params_snapshot(bm) == params
        try:
            oc, om, ow = bm.filter(tuple(coords), d, w)
        finally:
            params_ok = params_ok and params_snapshot(bm) == params
        if twice or mode != "ctor":
            fresh = vd.BlockMean(**kw).filter(tuple(coords), d, w)
            stale = not _same((tuple(oc), om, ow), (tuple(fresh[0]), fresh[1], fresh[2]))
        res = None
    except ValueError:
        res = ("ValueError",)
    except Exception as exc:
        res = ("other", type(exc).__name__ + ": " + str(exc)[:100])
    # the caller's arrays and the instance's constructor parameters are what they were
    unchanged = all(a.tobytes() == b for a, b in zip(arrays, before)) and params_ok
    if res is not None:
        return res, unchanged, params_ok
    om = list(om) if isinstance(om, tuple) else [om]
    ow = list(ow) if isinstance(ow, tuple) else [ow]
    oc = list(oc)
    extra = [np.zeros(1)] if stale else []
    for a in om + ow + oc:
        if np.asarray(a).ndim != 1:
            extra = [np.zeros(1)]
    f = lambda l: [np.asarray(a, dtype=float).ravel() for a in l] + extra
    return ("ok", f(oc), f(om), f(ow)), unchanged, params_ok


def make_bm_case(vd, coords, data, weights, kw, kind, expect_valid=True):
    kwc = {k: v for k, v in kw.items() if not k.startswith("_")}
    split_kw = {k: kwc[k] for k in ("spacing", "shape", "adjust", "region") if k in kwc}
    try:
        blocks, labels = vd.block_split(tuple(coords), **split_kw)
        labels = [int(v) for v in np.ravel(labels)]
        centres = (np.ravel(blocks[0]), np.ravel(blocks[1]))
        split_ok = True
    except Exception:
        labels = list(range(np.asarray(coords[0]).size))
        centres = (np.zeros(1), np.zeros(1))
        split_ok = False
    if kw.get("_readonly"):
        for a in list(coords) + list(data) + (list(weights) if weights is not None else []):
            a.flags.writeable = False
    mode, step = kw.get("_mode") or next_mode()
    if not expect_valid:
        mode = "ctor"
    wspell = kw.get("_wspelling")
    if wspell is None and expect_valid:
        if weights is None and kwc.get("uncertainty"):
            # must be rejected however "no weights" is spelled: None, a tuple / list of None, or a tuple in which
            # a component has no weights
            wspell = next_spelling(["none", "tuple_none", "list_none", "mixed", "tuple_none", "mixed_last"])
        elif weights is None:
            wspell = next_spelling(["none", "tuple_none"])
        else:
            wspell = next_spelling(["bare", "tuple"]) if len(weights) == 1 else "tuple"
    if wspell in ("mixed", "mixed_last") and len(data) < 2:
        wspell = "tuple_none"
    obs, unchanged, params_ok = observe_bm(vd, coords, data, weights, kwc, bool(kw.get("_tuple1")), bool(kw.get("_twice")), mode, step, wspell)
    tags = list(kw.get("_layouts") or []) + ["C"] * 16
    tc, td, tw = tags[:len(coords)], tags[len(coords):len(coords) + len(data)], tags[len(coords) + len(data):]
    cw = "None" if weights is None else "(Some %s)" % _cdll(weights)
    if obs[0] == "ok":
        cobs = "(Some (%s, %s, %s))" % (_cdll(obs[1]), _cdll(obs[2]), _cdll(obs[3]))
    elif obs[0] == "ValueError":
        cobs = "None"
    else:
        cobs = "None" if expect_valid else "(Some ([], [], []))"
    term = "c10_case_geo %s %s %s %s %s %s %s %s %s (%s, %s) %s %s %s %s %s" % (
        geo_term({k: v for k, v in kwc.items() if k in ("spacing", "shape", "adjust", "region")}, coords, split_ok), kw.get("_epsd", "eps40"), kw.get("_epsc", "eps40"), cN(probe_ddof(vd)), cD(default_tol(vd)), clist([cZ(v) for v in labels]), _cdll(coords), _cdll(data), cw,
        _cdl(centres[0]), _cdl(centres[1]),
        cbool(kwc.get("center_coordinates", False)), cbool(kwc.get("drop_coords", True)),
        cbool(kwc.get("uncertainty", False)), cbool(unchanged), cobs)
    counts = {}
    for v in labels:
        counts[v] = counts.get(v, 0) + 1
    nontrivial = obs[0] == "ok" and len(set(counts.values())) >= 2
    repro = ("import numpy as np; from harness.c09 import replay; replay('BlockMean', None, %r, %r, %d, %r, %r, [%s], [%s], %s)" % (
        kwc, mode, step, bool(kw.get("_twice")), bool(kw.get("_tuple1")),
        ", ".join(_fmt(c, t) for c, t in zip(coords, tc)), ", ".join(_fmt(d, t) for d, t in zip(data, td)),
        "None" if weights is None else "[%s]" % ", ".join(_fmt(w, t) for w, t in zip(weights, tw))))
    repro = repro[:-1] + ", %r)" % wspell
    inp = {"function": "BlockMean.filter", "kwargs": kwc, "coordinates": [np.asarray(c).tolist() for c in coords],
           "data": [np.asarray(d).tolist() for d in data],
           "weights": None if weights is None else [np.asarray(w).tolist() for w in weights],
           "labels_from_block_split": labels, "read_only_inputs": bool(kw.get("_readonly")),
           "ddof_probed": probe_ddof(vd),
           "dtypes": [str(np.asarray(a).dtype) for a in list(coords) + list(data) + (list(weights) if weights is not None else [])],
           "layouts": kw.get("_layouts"), "instance_reused": bool(kw.get("_twice")),
           "weight_patterns": kw.get("_wpatterns"), "configured_by": mode, "config_step": step,
           "weights_spelled": wspell}
    out = [obs[0]] + ([[a.tolist() for a in o] for o in obs[1:]] if obs[0] == "ok" else list(obs[1:])) + [{"inputs_and_params_unchanged": unchanged, "get_params_unchanged": params_ok}]
    return Case(inp, out, term, repro, kind, nontrivial=nontrivial)


def random_bm_config(rnd, vd, i, mode):
    """mode: 'unweighted' | 'uncertainty' | 'wvariance' | 'reject'"""
    box = (rnd.choice([0, -4, 2]), 0, rnd.choice([0, -3, 1]), 0)
    box = (box[0], box[0] + rnd.choice([6, 8, 10]), box[2], box[2] + rnd.choice([5, 8]))
    layout = rnd.choice(["uniform", "uniform", "clustered", "clustered", "grid", "grid"])
    shape2d = None
    if layout == "grid":
        a, b = rnd.randint(2, 6), rnd.randint(2, 8)
        ee = np.round(np.linspace(box[0], box[1], b) * 64) / 64
        nn = np.round(np.linspace(box[2], box[3], a) * 64) / 64
        east, north = np.meshgrid(ee, nn)
        n = a * b
        shape2d = (a, b)
        east, north = east.ravel().tolist(), north.ravel().tolist()
    else:
        n = rnd.choice([1, 2, 3, 5, 8, 13, 21, 34, 48, 60]) if i % 6 == 0 else rnd.randint(4, 60)
        east, north = _cloud(rnd, layout, n, box)
        if rnd.random() < 0.35:
            for a, b in [(a, b) for a in range(2, 9) for b in range(2, 9) if a * b == n][:1]:
                shape2d = (a, b)
    ncomp = rnd.choice([1, 1, 2, 3])
    nextra = rnd.choice([0, 0, 1])
    kw = {}
    dt = rnd.choice([np.int64, np.int32, np.float32]) if rnd.random() < 0.3 else None
    weights = None
    if dt is not None:
        # integer-valued data / weights / coordinates in an integer or single-precision dtype
        int_coords = rnd.random() < 0.4 and layout != "grid"
        coords, data, weights = cast_variant(rnd, n, ncomp, nextra, box, mode in ("uncertainty", "wvariance"), dt,
                                             int_coords, east, north)
        if dt is np.float32:
            kw["_epsd"] = "eps20"
            if int_coords or nextra:
                kw["_epsc"] = "eps20"
    else:
        vals = _distinct_values(rnd, n * ncomp, 4, -30, 30)
        data = [np.array(vals[c * n:(c + 1) * n]) for c in range(ncomp)]
        extra = [np.array(_distinct_values(rnd, n, 8, -60, 60)) for c in range(nextra)]
        coords = [np.array(east, dtype=float), np.array(north, dtype=float)] + extra
    if rnd.random() < 0.55:
        kw["spacing"] = rnd.choice([1.5, 2, 2.5, 3, 4, (2, 3), (3, 1.5), 20])
        if rnd.random() < 0.3:
            kw["adjust"] = "region"
    else:
        kw["shape"] = (rnd.randint(1, 6), rnd.randint(1, 6))
    e0, n0 = np.ravel(coords[0]), np.ravel(coords[1])
    degenerate = n == 1 or len(set(e0.tolist())) == 1 or len(set(n0.tolist())) == 1
    # a quarter of the cases run on an instance that has filtered another survey before; most of those leave
    # the region to be inferred from each call's own points
    twice = rnd.random() < 0.25
    if (rnd.random() < 0.5 and not (twice and rnd.random() < 0.7)) or degenerate:
        if rnd.random() < 0.3:
            kw["region"] = (box[0] - 2, box[1] + 3, box[2] - 1, box[3] + 2)
        else:
            kw["region"] = box
    kw["center_coordinates"] = rnd.random() < 0.4
    kw["drop_coords"] = rnd.random() < 0.5
    kw["uncertainty"] = mode in ("uncertainty", "reject")
    if mode in ("uncertainty", "wvariance") and dt is None:
        weights = []
        for c in range(ncomp):
            wv = _distinct_values(rnd, n, 16, 0.0625, 8)
            if rnd.random() < 0.4:
                for j in rnd.sample(range(n), max(1, n // 8)):
                    wv[j] = 0.0
            weights.append(np.array(wv))
    if weights is not None:
        # every component gets its own pattern (uniform 1, another uniform constant, piecewise constant, varying,
        # varying with zeros): uniform weights cancel in the weighted mean but not in 1 / sum(w), must not be
        # mistaken for "no weights", and must not decide how the other components are treated
        weights, kw["_wpatterns"] = weight_patterns(rnd, weights, n, piecewise=True)
        if all(p_ in ("ones", "const") for p_ in kw["_wpatterns"]):
            kw["_wpattern"] = "constant"
        elif any(p_ in ("ones", "const", "piecewise") for p_ in kw["_wpatterns"]):
            kw["_wpattern"] = "mixed"
    if shape2d is not None:
        coords = [c.reshape(shape2d) for c in coords]
        data = [d.reshape(shape2d) for d in data]
        if weights is not None:
            weights = [w.reshape(shape2d) for w in weights]
    if weights is not None:
        try:
            _, labels = vd.block_split(tuple(coords), **{k: kw[k] for k in ("spacing", "shape", "adjust", "region") if k in kw})
            _fix_weights(weights, [int(v) for v in np.ravel(labels)])
        except Exception:
            pass
    if shape2d is not None and rnd.random() < 0.7:
        # the same logical arrays in different memory layouts, a different one per array
        nw = 0 if weights is None else len(weights)
        tags = [rnd.choice(LAYOUTS) for _ in range(len(coords) + len(data) + nw)]
        kw["_layouts"] = tags
        coords = [apply_layout(c, t) for c, t in zip(coords, tags)]
        data = [apply_layout(d, t) for d, t in zip(data, tags[len(coords):])]
        if weights is not None:
            weights = [apply_layout(w, t) for w, t in zip(weights, tags[len(coords) + len(data):])]
    if ncomp == 1 and rnd.random() < 0.3:
        kw["_tuple1"] = True
    if rnd.random() < 0.35:
        kw["_readonly"] = True
    if twice:
        kw["_twice"] = True
    return coords, data, weights, kw


def bm_edge_cases(vd):
    """blocks of different populations, single-member blocks, planted variances around the tolerance"""
    A = np.array
    out = []
    e = A([0.25, 0.5, 1.25, 1.5, 1.75, 2.5, 0.25, 0.75, 1.5, 2.25, 2.5, 2.75, 2.875])
    n = A([0.5, 0.5, 0.5, 0.5, 0.5, 0.5, 1.5, 1.5, 1.5, 1.5, 1.5, 1.5, 1.5])
    t0, t1 = 2.0 ** -25, 2.0 ** -24          # {+-t}: population variance t^2 = 2^-50 < 1e-15 < 2^-48
    d0 = A([0.0, 2.0, 0.0, 3.0, 6.0, 5.0, t0, -t0, 7.0, 1.0, 2.0, 4.0, 8.0])
    d1 = A([1.0, 5.0, 2.0, 3.0, 7.0, -5.0, t1, -t1, 0.5, 10.0, 20.0, 40.0, 80.0])
    d2 = A([t1, -t1, t0, -t0, 0.0, 9.0, 3.0, 4.0, 0.25, -1.0, -2.0, -4.0, -8.5])
    w0 = A([1.0, 2.0, 0.5, 3.0, 1.5, 4.0, 0.25, 0.75, 2.5, 1.25, 0.0, 3.5, 2.25])
    w1 = A([0.5, 0.25, 4.0, 1.0, 2.0, 0.125, 3.0, 1.0, 6.0, 0.0, 2.0, 1.0, 0.375])
    w2 = A([2.0, 2.0, 1.0, 1.0, 3.0, 0.5, 0.75, 0.25, 1.0, 5.0, 4.0, 0.0, 1.125])
    up = A([10.0, 30.0, 20.0, 60.0, 50.0, 40.0, 70.0, 90.0, 80.0, 100.0, 120.0, 110.0, 130.0])
    for center in (False, True):
        for drop in (False, True):
            for ro in (False, True):
                kw = dict(center_coordinates=center, drop_coords=drop, spacing=1, region=(0, 3, 0, 2), _readonly=ro)
                c = lambda: [e.copy(), n.copy(), up.copy()]
                out.append((c(), [d0.copy()], None, dict(kw), "bm-edge-unweighted"))
                out.append((c(), [d0.copy(), d1.copy(), d2.copy()], None, dict(kw), "bm-edge-unweighted"))
                out.append((c(), [d0.copy(), d1.copy(), d2.copy()], [w0.copy(), w1.copy(), w2.copy()], dict(kw), "bm-edge-wvariance"))
                out.append((c(), [d0.copy(), d1.copy(), d2.copy()], [w0.copy(), w1.copy(), w2.copy()], dict(kw, uncertainty=True), "bm-edge-uncertainty"))
                out.append((c(), [d1.copy()], [w2.copy()], dict(kw, uncertainty=True, _tuple1=True), "bm-edge-uncertainty"))
                out.append((c(), [d1.copy()], None, dict(kw, uncertainty=True), "bm-reject"))
                # every point its own block (all variances zero), one block, a single point
                out.append((c(), [d1.copy()], None, dict(kw, spacing=0.125, region=(0, 3, 0, 2)), "bm-edge-unweighted"))
                out.append((c(), [d1.copy(), d0.copy()], None, dict({k: v for k, v in kw.items() if k != "spacing"}, shape=(1, 1)), "bm-edge-unweighted"))
                out.append(([A([1.0]), A([1.0]), A([5.0])], [A([2.5])], None, dict(kw, spacing=1, region=(0, 2, 0, 2)), "bm-edge-unweighted"))
                out.append(([A([1.0]), A([1.0]), A([5.0])], [A([2.5])], [A([0.5])], dict(kw, spacing=1, region=(0, 2, 0, 2)), "bm-edge-wvariance"))
    # integer-valued data / weights / coordinates in integer and single-precision dtypes (block means, weighted
    # means and variances of integers are not whole numbers), mixed memory layouts for 2-D inputs, reused instances
    ei = A([0, 0, 1, 1, 1, 2, 0, 0, 1, 2, 2, 2, 2]); ni = A([0, 0, 0, 0, 0, 0, 1, 1, 1, 1, 1, 1, 1])
    di = A([3, 8, 1, 2, 12, 5, 7, 10, -4, 1, 2, 4, 10]); dj = A([-7, 2, 30, 11, 9, 6, 1, 0, 8, 21, 3, 5, 14])
    wi = A([1, 2, 3, 1, 2, 1, 5, 2, 1, 1, 0, 3, 2]); wj = A([2, 1, 1, 4, 0, 3, 1, 1, 2, 7, 1, 1, 2])
    ui = A([10, 30, 20, 60, 50, 40, 70, 90, 80, 100, 120, 110, 131])
    e2 = np.arange(12).reshape(3, 4) % 4; n2 = np.arange(12).reshape(3, 4) // 4
    d2 = A([[5, 2, 9, 4], [7, 12, 1, 0], [3, 8, 6, 11]]); w2 = A([[1, 2, 1, 3], [2, 2, 5, 1], [4, 1, 1, 2]])
    for dt in (np.int64, np.int32, np.float32):
        eps = {"_epsd": "eps20", "_epsc": "eps20"} if dt is np.float32 else {}
        name = np.dtype(dt).name
        for center in (False, True):
            for twice in (False, True):
                kw = dict(eps, center_coordinates=center, drop_coords=False, spacing=1, region=(-0.5, 2.5, -0.5, 1.5), _twice=twice)
                hc = lambda: [ei.astype(dt), ni.astype(dt), ui.astype(dt)] if twice else [ei + 0.0, ni + 0.0, ui.astype(dt)]
                out.append((hc(), [di.astype(dt), dj.astype(dt)], None, dict(kw), "bm-edge-unweighted-" + name))
                out.append((hc(), [di.astype(dt), dj.astype(dt)], [wi.astype(dt), wj.astype(dt)], dict(kw), "bm-edge-wvariance-" + name))
                out.append((hc(), [di.astype(dt), dj.astype(dt)], [wi.astype(dt), wj.astype(dt)], dict(kw, uncertainty=True), "bm-edge-uncertainty-" + name))
        for k, unc in enumerate((None, False, True)):
            tags = [LAYOUTS[(k + j) % 5] for j in range(1, 7)]
            kw = dict(eps, spacing=2, region=(-0.5, 3.5, -0.5, 2.5), drop_coords=False, _layouts=tags, uncertainty=bool(unc))
            arrs = [e2 + 0.0, n2 + 0.0, (d2 * 3).astype(dt), d2.astype(dt), (d2 * d2).astype(dt), w2.astype(dt), (w2 * 2 + 1).astype(dt)]
            arrs = [apply_layout(a, t) for a, t in zip(arrs, tags + ["F"])]
            out.append((arrs[:3], arrs[3:5], None if unc is None else arrs[5:7], kw,
                        "bm-edge-%s-%s" % ("unweighted" if unc is None else ("uncertainty" if unc else "wvariance"), name)))
    # constant (all equal, not 1) and piecewise-constant input weights on blocks of 2, 3, 1, 2, 1, 4 members, all
    # weighted modes; constants differing between components
    one = np.ones(13)
    pw = A([2.0, 2.0, 2.0, 2.0, 0.5, 0.5, 0.5, 0.5, 0.5, 3.0, 3.0, 3.0, 3.0])
    for unc in (True, False):
        for center in (False, True):
            kw = dict(center_coordinates=center, drop_coords=center, spacing=1, region=(0, 3, 0, 2), uncertainty=unc)
            name = "bm-edge-constw-" + ("uncertainty" if unc else "wvariance")
            c = lambda: [e.copy(), n.copy(), up.copy()]
            out.append((c(), [d0.copy()], [one * 2.5], dict(kw), name))
            out.append((c(), [d1.copy()], [one * 0.125], dict(kw, _tuple1=True), name))
            out.append((c(), [d0.copy(), d1.copy(), d2.copy()], [one * 0.5, one * 4.0, one * 3.0], dict(kw), name))
            out.append((c(), [d0.copy(), d1.copy()], [one * 2.0, w1.copy()], dict(kw), name))
            out.append((c(), [d0.copy(), d1.copy()], [pw.copy(), pw[::-1].copy()], dict(kw), name))
            out.append((c(), [d1.copy()], [(one * 3).astype(np.int64)], dict(kw, _twice=True), name))
            out.append((c(), [d1.copy().astype(np.float32)], [(one * 7).astype(np.float32)], dict(kw, _epsd="eps20"), name))
    # mixed per-component patterns in every position, 2 and 3 components, both weighted modes
    pats = {"ones": one, "const": one * 2.5, "varying": w0, "zeros": w1}
    combos = [(a_, b_) for a_ in pats for b_ in pats] + [("ones", "varying", "zeros"), ("const", "ones", "varying"),
                                                         ("varying", "ones", "const"), ("ones", "ones", "varying")]
    dd = [d0, d1, d2]
    for k, combo in enumerate(combos):
        for unc in (True, False):
            kw = dict(center_coordinates=bool(k % 2), drop_coords=bool(k % 3), spacing=1, region=(0, 3, 0, 2), uncertainty=unc,
                      _wpatterns=list(combo))
            out.append(([e.copy(), n.copy(), up.copy()], [dd[j].copy() for j in range(len(combo))],
                        [pats[c_].copy() * (1 if c_ in ("ones", "const") else j + 1) for j, c_ in enumerate(combo)], kw,
                        "bm-edge-constw-" + ("uncertainty" if unc else "wvariance")))
    # "no weights" in every spelling with 1, 2 and 3 components: rejected with uncertainty=True, the unweighted rule otherwise
    for ncomp in (1, 2, 3):
        comps = [d0, d1, d2][:ncomp]
        for sp_ in ("none", "tuple_none", "list_none", "mixed", "mixed_last"):
            kw = dict(spacing=1, region=(0, 3, 0, 2), uncertainty=True, _wspelling=sp_, _tuple1=(ncomp == 1 and sp_ != "none"))
            out.append(([e.copy(), n.copy()], [c_.copy() for c_ in comps], None, kw, "bm-reject"))
        for sp_ in ("none", "tuple_none"):
            kw = dict(spacing=1, region=(0, 3, 0, 2), center_coordinates=(ncomp == 2), _wspelling=sp_)
            out.append(([e.copy(), n.copy()], [c_.copy() for c_ in comps], None, kw, "bm-edge-unweighted"))
        for sp_ in ("bare", "tuple"):
            for unc in (False, True):
                kw = dict(spacing=1, region=(0, 3, 0, 2), uncertainty=unc, _wspelling=sp_)
                out.append(([e.copy(), n.copy()], [comps[-1].copy()], [w0.copy()], kw, "bm-edge-" + ("uncertainty" if unc else "wvariance")))
    # one object, two surveys: the instance first filters a cloud with another bounding box (shifted / larger /
    # smaller, by point count) and point count; region=None, so each call must infer its own region
    for npts in (12, 13, 14):
        e3 = (np.arange(npts) * 11 % npts) * 0.5 + 1.0; n3 = (np.arange(npts) * 5 % npts) * 0.25 - 2.0
        d3 = np.arange(npts) * 1.5 - 4.0; w3 = (np.arange(npts) % 5 + 1) * 0.5; u3 = np.arange(npts)[::-1] * 2.0 + 7.0
        for blk in (dict(spacing=1.5), dict(shape=(3, 2)), dict(spacing=(1, 2), adjust="region")):
            for center in (False, True):
                kw = dict(blk, center_coordinates=center, drop_coords=not center, _twice=True)
                c3 = lambda: [e3.copy(), n3.copy(), u3.copy()]
                out.append((c3(), [d3.copy(), d3 * d3], None, dict(kw), "bm-edge-reused"))
                out.append((c3(), [d3.copy(), -d3], [w3.copy(), w3[::-1].copy()], dict(kw), "bm-edge-reused"))
                out.append((c3(), [d3.copy(), -d3], [w3.copy(), w3[::-1].copy()], dict(kw, uncertainty=True), "bm-edge-reused"))
    return out


def bm_malformed(vd):
    A = np.array
    e = A([0.5, 1.5, 2.5, 0.5]); n = A([0.5, 0.5, 0.5, 1.5]); d = A([3.0, -1.5, 7.25, 0.125]); w = A([1.0, 2.0, 3.0, 4.0])
    kw = dict(spacing=1, region=(0, 3, 0, 2))
    return [([e, n], [d[:3]], None, kw), ([e, n[:3]], [d], None, kw), ([e, n], [d], [w[:3]], kw),
            ([e, n], [d, d * 2], [w], dict(kw, uncertainty=True)), ([e, n], [d], [w, w], kw)]


# ---------------------------------------------------------------------------
# variance_to_weights
# ---------------------------------------------------------------------------
def make_v2w_case(vd, comps, tol, form, readonly, kind="v2w", tags=None):
    """comps: list of numpy arrays (float or int); form: 'array' | 'list' (single component given bare or as nested lists),
    tuples are used when there is more than one component or form ends with '-tuple'"""
    dtol = default_tol(vd)
    t = dtol if tol is None else tol
    tags = list(tags or []) + ["C"] * len(comps)
    arrays = [apply_layout(np.array(c), t) for c, t in zip(comps, tags)]
    if readonly:
        for a in arrays:
            a.flags.writeable = False
    before = [a.tobytes() for a in arrays]
    given = [a.tolist() if form.startswith("list") else a for a in arrays]
    arg = tuple(given) if (len(given) != 1 or form.endswith("-tuple")) else given[0]
    kwargs = {} if tol is None else {"tol": tol}
    try:
        res = vd.variance_to_weights(arg, **kwargs)
        is_tuple = isinstance(res, tuple)
        outs = list(res) if is_tuple else [res]
        outs = [np.asarray(o) for o in outs]
        status = "ok"
    except Exception as exc:
        status = type(exc).__name__ + ": " + str(exc)[:100]
        outs, is_tuple = [], None
    unchanged = all(a.tobytes() == b for a, b in zip(arrays, before))
    tuple_ok = status == "ok" and (is_tuple == (len(arrays) != 1))
    shp = lambda l: clist([clist([cN(s) for s in np.shape(a)]) for a in l])
    term = "c10_v2w_case %s %s %s %s %s %s %s %s" % (
        "eps20 eps20" if any(a.dtype == np.float32 for a in arrays) else "eps40 eps50", cD(t), clist([clist([_cod(v) for v in np.ravel(a)]) for a in arrays]), shp(arrays), shp(outs),
        cbool(tuple_ok), cbool(unchanged), clist([_cdl(np.asarray(o, dtype=float)) for o in outs]))
    flat = [float(v) for a in arrays for v in np.ravel(a)]
    nontrivial = status == "ok" and any(v > t for v in flat) and any((not v > t) for v in flat)
    repro = "import numpy as np, verde; nan = np.nan; print(verde.variance_to_weights(%s%s))" % (
        ("(%s,)" % ", ".join(_fmt(a, t) for a, t in zip(arrays, tags))) if isinstance(arg, tuple) else _fmt(arrays[0], tags[0]),
        "" if tol is None else ", tol=%r" % tol)
    inp = {"function": "variance_to_weights", "variance": [a.tolist() for a in arrays], "tol": tol, "given_as": form,
           "read_only": readonly, "dtype": [str(a.dtype) for a in arrays], "layouts": tags[:len(arrays)]}
    out = [status, [np.asarray(o, dtype=float).tolist() for o in outs], {"inputs_unchanged": unchanged, "tuple": is_tuple}]
    return Case(inp, out, term, repro, kind, nontrivial=nontrivial)


def v2w_values(rnd, tol, n):
    special = [0.0, tol, float(np.nextafter(tol, 1)), float(np.nextafter(tol, -1)), 1e-16, 1e-100, -1.0, -tol,
               float("nan"), 1e100, tol * 2, tol * 0.5]
    vals = []
    for _ in range(n):
        r = rnd.random()
        if r < 0.45:
            vals.append(rnd.choice(special))
        elif r < 0.75:
            vals.append(rnd.randint(1, 4000) / 64.0)
        elif r < 0.9:
            vals.append(rnd.uniform(0, 1) * 10.0 ** rnd.randint(-18, 3))
        else:
            vals.append(tol + rnd.randint(1, 1000) * tol / 4096.0)
    return vals


def v2w_cases(rnd, vd, count):
    out = []
    dtol = default_tol(vd)
    fixed = [
        ([[0, 2, 0.2, 1e-16]], None), ([[0, 0, 0, 0]], None), ([[0.0, 1, 10], [2, 4.0, 8]], None),
        ([[]], None), ([[float("nan")]], None), ([[float("nan"), float("nan"), 0.0]], None),
        ([[dtol]], None), ([[dtol, float(np.nextafter(dtol, 1))]], None), ([[dtol, 2 * dtol, 4 * dtol]], None),
        ([[5.0]], None), ([[3.0, float("nan"), 6.0, 0.0, 12.0]], None), ([[1e-16, 1e-17]], None),
        ([[0.5, 0.25, 1.0]], 0.5), ([[0.0, 0.25]], 0.0), ([[2.0, 4.0, 1.0, float("nan")]], 2.0),
        ([[4.0, 2.0], [8.0, 1.0], [float("nan"), 16.0]], None),
    ]
    for comps, tol in fixed:
        for form in ("array", "list", "array-tuple"):
            for ro in (False, True):
                out.append(make_v2w_case(vd, [np.array(c, dtype=float) for c in comps], tol, form, ro))
    out.append(make_v2w_case(vd, [np.array([0, 1, 10])], None, "array", False))          # integer input
    out.append(make_v2w_case(vd, [np.array([0, 1, 10]), np.array([2, 4, 8])], None, "list", True))
    for i in range(count):
        tol = rnd.choice([None, None, None, 0.0, 1e-3, 0.5, 2.0])
        t = dtol if tol is None else tol
        ncomp = rnd.choice([1, 1, 2, 3])
        comps = []
        for c in range(ncomp):
            if rnd.random() < 0.3:
                a, b = rnd.randint(1, 3), rnd.randint(1, 4)
                comps.append(np.array(v2w_values(rnd, t if t > 0 else 1e-15, a * b)).reshape(a, b))
            else:
                comps.append(np.array(v2w_values(rnd, t if t > 0 else 1e-15, rnd.randint(0, 12)), dtype=float))
        form = rnd.choice(["array", "array", "list", "array-tuple", "list-tuple"])
        out.append(make_v2w_case(vd, comps, tol, form, rnd.random() < 0.4,
                                 tags=[rnd.choice(LAYOUTS) for _ in comps] if not form.startswith("list") else None))
    # single-precision and integer variance arrays (values away from the tolerance: numpy compares a
    # float32 array with float32(tol)), 1-D and 2-D in mixed layouts
    for i in range(max(20, count // 6)):
        dt = [np.float32, np.int64, np.int32][i % 3]
        tol = rnd.choice([None, None, 0.0, 0.5, 2.0])
        comps = []
        for c in range(rnd.choice([1, 1, 2, 3])):
            m = rnd.randint(1, 12)
            if dt is np.float32:
                vals = [rnd.choice([0.0, float("nan"), -1.0, 1e-30, rnd.randint(1, 4000) / 64.0, rnd.randint(1, 4000) / 64.0,
                                    float(rnd.randint(3, 500))]) for _ in range(m)]
            else:
                vals = [rnd.choice([0, 0, rnd.randint(3, 500), rnd.randint(3, 500), -2]) for _ in range(m)]
            a = np.array(vals).astype(dt)
            if rnd.random() < 0.4:
                for r_, c_ in [(r_, c_) for r_ in range(2, 5) for c_ in range(2, 5) if r_ * c_ == m][:1]:
                    a = a.reshape(r_, c_)
            comps.append(a)
        form = rnd.choice(["array", "array", "array-tuple"])
        out.append(make_v2w_case(vd, comps, tol, form, rnd.random() < 0.4, tags=[rnd.choice(LAYOUTS) for _ in comps],
                                 kind="v2w-" + np.dtype(dt).name))
    return out


def generate(tier, seed):
    import verde as vd
    _PROBE.clear()
    _COUNTER[0] = 0
    _SPELL[0] = 0
    rnd = random.Random(seed)
    cases = []
    for coords, data, weights, kw, kind in bm_edge_cases(vd):
        cases.append(make_bm_case(vd, coords, data, weights, kw, kind))
    for coords, data, weights, kw in bm_malformed(vd):
        cases.append(make_bm_case(vd, [c.copy() for c in coords], [d.copy() for d in data],
                                  None if weights is None else [w.copy() for w in weights], kw, "bm-malformed", expect_valid=False))
    # block grids on the decision boundaries of the documented rule (see c09.geometry_configs)
    d = np.array([3.0, -1.5, 7.25, 0.125, 9.0, -4.0, 2.5, 11.0, -6.75, 5.5, 1.0, -2.25, 8.0, 4.75])
    u = np.arange(14)[::-1] * 2.0 + 7.0
    w = np.array([1.0, 2.0, 0.5, 3.0, 1.5, 4.0, 0.25, 0.75, 2.5, 1.25, 5.0, 3.5, 2.25, 0.125])
    for k, (e, n, blk) in enumerate(geometry_configs(full=(tier != "quick"))):
        if tier == "quick" and k % 4 == 3 and "region" not in blk:
            continue        # quick tier: half of the inferred-region twins are left to C09 and the thorough tier
        kw = dict(blk, center_coordinates=(k % 3 != 0), drop_coords=bool(k % 2), uncertainty=(k % 3 == 1))
        if k % 3 == 0:
            cases.append(make_bm_case(vd, [e, n, u.copy()], [d.copy(), d * d], None, kw, "bm-geometry"))
        else:
            cases.append(make_bm_case(vd, [e, n, u.copy()], [d.copy(), -d], [w.copy(), w[::-1].copy()], kw, "bm-geometry"))
    n_rand = 210 if tier == "quick" else 2800
    modes = ["unweighted", "uncertainty", "wvariance", "unweighted", "uncertainty", "wvariance", "reject"]
    for i in range(n_rand):
        mode = modes[i % len(modes)]
        coords, data, weights, kw = random_bm_config(rnd, vd, i, mode)
        kind = "bm-" + mode
        dts = {str(np.asarray(a).dtype) for a in data}
        if dts != {"float64"}:
            kind += "-" + sorted(dts)[0]
        elif kw.get("_wpattern"):
            kind += "-constw"
        elif kw.get("_layouts"):
            kind += "-layouts"
        elif kw.get("_twice"):
            kind += "-reused"
        cases.append(make_bm_case(vd, coords, data, weights, kw, kind))
    cases.extend(v2w_cases(rnd, vd, 160 if tier == "quick" else 2400))
    return cases


def search(dis, tier, seed):
    return generate("thorough" if tier == "quick" else "quick", seed + 1)
