"""C20: (1) repeatability of everything that takes a random_state, over the full range of its other options;
(2) a rejected call leaves no trace on the estimator.  Byte-level comparisons in python, boolean verdicts."""
import itertools
import warnings

import numpy as np

from .core import Case, cbool


def _bool(cases, inp, out, holds, repro, kind, nontrivial=True):
    cases.append(Case(inp, out, "mk_verdict true %s" % cbool(holds), repro, kind, nontrivial=nontrivial))


# ---------------------------------------------------------------------------
# (1) random_state
def random_state_cases(vd, rnd, tier):
    from . import c20 as H
    from sklearn.model_selection import ShuffleSplit
    cases = []
    thorough = tier != "quick"
    ds = H._lattice_dataset(rnd, 60)
    e, n, d, w = ds
    X = np.c_[e, n]
    lit = lambda a: "np.array(%r)" % (np.asarray(a).tolist(),)
    setup = "import warnings; warnings.simplefilter('ignore'); import numpy as np, verde as vd; e = %s; n = %s; d = %s; X = np.c_[e, n]; " % (lit(e), lit(n), lit(d))

    def splits(cv):
        return [(np.asarray(a).tolist(), np.asarray(b).tolist()) for a, b in cv.split(X)]

    def run(name, options, make_src, make, use, use_src):
        """make() -> object; use(obj) -> result.  Twice on one object, and on a second identically configured object."""
        with warnings.catch_warnings():
            warnings.simplefilter("ignore")
            try:
                o1 = make()
                r1 = H._snap(use(o1))
                r2 = H._snap(use(o1))
                r3 = H._snap(use(make()))
            except Exception as exc:      # noqa: this combination of options is not accepted: nothing to repeat
                _bool(cases, {"callable": name, "options": options}, {"not_applicable": type(exc).__name__}, True, "", "repeat-random-state", nontrivial=False)
                return
        same_obj, same_cfg = r1 == r2, r1 == r3
        repro = (setup + "mk = lambda: %s; o = mk(); f = lambda o: %s; a, b, c = f(o), f(o), f(mk()); print(a); print(b); print(c)"
                 % (make_src, use_src))
        _bool(cases, {"callable": name, "options": options}, {"same_object_twice_identical": same_obj, "two_identical_objects_identical": same_cfg},
              same_obj and same_cfg, repro, "repeat-random-state")

    kw = lambda dct: ", ".join("%s=%r" % kv for kv in dct.items())
    # BlockShuffleSplit: n_splits x balancing x test/train size (int, float, None) x spacing/shape x seed
    sizes = [(0.1, None), (0.3, None), (2, None), (None, 0.5), (None, 3), (0.25, 0.5), (1, 2)]
    grid_opts = [{"spacing": 2.5}, {"shape": (3, 3)}]
    combos = list(itertools.product([1, 2, 5], [1, 2, 10], sizes, grid_opts, [0, 7]))
    if not thorough:
        combos = [c for i, c in enumerate(combos) if i % 5 == 0 or c[1] == 1 and i % 2 == 0]
    for ns, bal, (ts, tr), go, seed in combos:
        o = dict(go, n_splits=ns, balancing=bal, test_size=ts, train_size=tr, random_state=seed)
        run("BlockShuffleSplit.split", o, "vd.BlockShuffleSplit(%s)" % kw(o), lambda o=o: vd.BlockShuffleSplit(**o), splits,
            "[(a.tolist(), b.tolist()) for a, b in o.split(X)]")
    # BlockKFold
    for ns, sh, bal, go, seed in itertools.product([2, 3], [True, False], [True, False], grid_opts, [0, 7]):
        o = dict(go, n_splits=ns, shuffle=sh, balance=bal, random_state=seed if sh else None)
        run("BlockKFold.split", o, "vd.BlockKFold(%s)" % kw(o), lambda o=o: vd.BlockKFold(**o), splits,
            "[(a.tolist(), b.tolist()) for a, b in o.split(X)]")
    # train_test_split, plain and blocked (all extra keyword arguments go to the splitter)
    tts = [dict(random_state=s, **x) for s in (0, 7) for x in ({}, {"test_size": 0.3}, {"test_size": 5}, {"train_size": 0.5}, {"train_size": 7, "test_size": 9})]
    tts += [dict(random_state=s, balancing=b, **g, **x) for s in (0, 7) for b in (1, 2, 10) for g in grid_opts
            for x in ({}, {"test_size": 0.3}, {"test_size": 2}, {"train_size": 0.5})]
    if not thorough:
        tts = [t for i, t in enumerate(tts) if i % 3 == 0 or t.get("balancing") == 1]
    for o in tts:
        for weights in (False, True):
            run("train_test_split", dict(o, weights=weights), "None", lambda: None,
                lambda _, o=o, weights=weights: vd.train_test_split((e, n), d, w if weights else None, **o),
                "vd.train_test_split((e, n), d, %s)" % kw(o))
    # scatter_points and BaseGridder.scatter
    for seed, size, extra in itertools.product([0, 1, 12345], [1, 7], [None, 3.0, [1.0, 2.0]]):
        o = {"size": size, "random_state": seed, "extra_coords": extra}
        run("scatter_points", o, "None", lambda: None, lambda _, o=o: vd.scatter_points((0, 10, -5, 5), **o), "vd.scatter_points((0, 10, -5, 5), %s)" % kw(o))
    for seed in (0, 3, None):
        o = {"size": 6} if seed is None else {"size": 6, "random_state": seed}      # default random_state=0
        run("Trend.scatter", o, "vd.Trend(1).fit((e, n), d)", lambda: vd.Trend(1).fit((e, n), d),
            lambda est, o=o: est.scatter(region=(0, 10, -5, 5), **o), "o.scatter(region=(0, 10, -5, 5), %s)" % kw(o))
        run("CheckerBoard.scatter", o, "vd.synthetic.CheckerBoard(region=(0, 10, -5, 5))", lambda: vd.synthetic.CheckerBoard(region=(0, 10, -5, 5)),
            lambda est, o=o: est.scatter(**o), "o.scatter(%s)" % kw(o))
    # cross_val_score / SplineCV with a randomised cv
    cvs = {
        "BlockShuffleSplit(balancing=1)": ("vd.BlockShuffleSplit(spacing=2.5, n_splits=3, test_size=0.3, random_state=5, balancing=1)",
                                           lambda: vd.BlockShuffleSplit(spacing=2.5, n_splits=3, test_size=0.3, random_state=5, balancing=1)),
        "BlockShuffleSplit(balancing=10)": ("vd.BlockShuffleSplit(spacing=2.5, n_splits=3, test_size=0.3, random_state=5)",
                                            lambda: vd.BlockShuffleSplit(spacing=2.5, n_splits=3, test_size=0.3, random_state=5)),
        "BlockKFold(shuffle)": ("vd.BlockKFold(spacing=2.5, n_splits=3, shuffle=True, random_state=5)",
                                lambda: vd.BlockKFold(spacing=2.5, n_splits=3, shuffle=True, random_state=5)),
        "ShuffleSplit": ("__import__('sklearn.model_selection').model_selection.ShuffleSplit(n_splits=3, test_size=0.3, random_state=5)",
                         lambda: ShuffleSplit(n_splits=3, test_size=0.3, random_state=5)),
        "default": ("None", lambda: None),
    }
    for cname, (csrc, mkcv) in cvs.items():
        run("cross_val_score", {"cv": cname}, csrc, mkcv, lambda cv: vd.cross_val_score(vd.Trend(1), (e, n), d, cv=cv),
            "vd.cross_val_score(vd.Trend(1), (e, n), d, cv=o)")
        run("SplineCV.fit", {"cv": cname}, "vd.SplineCV(dampings=(1e-3, 1e-1), cv=%s)" % csrc, lambda mkcv=mkcv: vd.SplineCV(dampings=(1e-3, 1e-1), cv=mkcv()),
            lambda est: (est.fit((e[:30], n[:30]), d[:30]).scores_, est.damping_, est.predict((e[:5], n[:5]))),
            "(o.fit((e[:30], n[:30]), d[:30]).scores_, o.damping_)")
    return cases


# ---------------------------------------------------------------------------
# (2) failed calls leave no trace
def _state(obj, depth=0):
    """every attribute of an estimator (parameters and fitted attributes), recursively through component estimators"""
    import hashlib
    if depth > 5:
        return "deep"
    if isinstance(obj, np.ndarray):
        return ("nd", str(obj.dtype), obj.shape, hashlib.sha1(np.ascontiguousarray(obj).tobytes()).hexdigest())
    if isinstance(obj, (list, tuple)):
        return (type(obj).__name__,) + tuple(_state(x, depth + 1) for x in obj)
    if isinstance(obj, dict):
        return ("dict",) + tuple((str(k), _state(v, depth + 1)) for k, v in sorted(obj.items(), key=lambda kv: str(kv[0])))
    if hasattr(obj, "get_params") and hasattr(obj, "__dict__"):
        return ("est", type(obj).__name__, id(obj)) + tuple((k, _state(v, depth + 1)) for k, v in sorted(vars(obj).items()))
    if obj is None or isinstance(obj, (bool, int, float, str, np.generic)):
        return ("val", repr(obj))
    if callable(obj) and hasattr(obj, "__qualname__"):
        return ("callable", obj.__qualname__)
    return ("obj", type(obj).__name__, id(obj))


def _flat(state, prefix="self"):
    """attribute paths -> snapshot, to name what changed"""
    out = {}
    if isinstance(state, tuple) and state and state[0] == "est":
        for k, v in state[3:]:
            out.update(_flat(v, prefix + "." + k))
        return out
    if isinstance(state, tuple) and state and state[0] in ("list", "tuple"):
        if any(isinstance(x, tuple) and x and x[0] in ("est", "list", "tuple") for x in state[1:]):
            for i, x in enumerate(state[1:]):
                out.update(_flat(x, "%s[%d]" % (prefix, i)))
            return out
    out[prefix] = state
    return out


# traces the UNCHANGED code leaves after a rejected call (recorded in the evidence and reported, not flagged).
# Empty since 2e7f689 (finding F24: Chain.fit assigns region_ only after every step has been fitted).
KNOWN_TRACES = set()


def no_trace_cases(vd, rnd, tier, extra):
    from . import c20 as H
    cases = []
    thorough = tier != "quick"
    ests = dict(H._estimators(vd))
    probe = (np.array([0.5, 2.25, 4.0, 5.75, 7.5, 9.25]), np.array([-4.5, -2.0, 0.25, 1.5, 3.0, 4.5]))
    lit = lambda a: "np.array(%r)" % (np.asarray(a).tolist(),)
    noted = {}

    def faults(vector, A):
        """name -> (method, args builder) : calls the malformed streams reject"""
        e, n, d, w = A
        other = np.ones(e.size + 1)
        col = d.reshape(-1, 1)
        dat = (d, 2.0 - d) if vector else d
        f = {}
        f["fit: one coordinate longer"] = ("fit", lambda: ((e, other), dat, None))
        f["fit: extra coordinate of another shape"] = ("fit", lambda: ((e, n, col), dat, None))
        f["fit: data of another shape"] = ("fit", lambda: ((e, n), ((d, other) if vector else other), None))
        f["fit: data same size, other shape"] = ("fit", lambda: ((e, n), ((d, col) if vector else col), None))
        f["fit: weights of another shape"] = ("fit", lambda: ((e, n), dat, ((w, other) if vector else other)))
        f["fit: more weights than data"] = ("fit", lambda: ((e, n), dat, ((w, w, w) if vector else (w, w))))
        f["filter: data of another shape"] = ("filter", lambda: ((e, n), ((other, d) if vector else other), None))
        f["score: data of another shape"] = ("score", lambda: ((e, n), ((d, other) if vector else other), None))
        f["grid: inverted region"] = ("grid", lambda: dict(region=(10.0, 0.0, -5.0, 5.0), shape=(3, 3)))
        f["grid: both shape and spacing"] = ("grid", lambda: dict(region=(0.0, 10.0, -5.0, 5.0), shape=(3, 3), spacing=1.0))
        f["grid: neither shape nor spacing"] = ("grid", lambda: dict(region=(0.0, 10.0, -5.0, 5.0)))
        if vector:
            f["fit: one data component"] = ("fit", lambda: ((e, n), (d,), None))
            f["fit: three data components"] = ("fit", lambda: ((e, n), (d, d, d), None))
            f["fit: data not a tuple"] = ("fit", lambda: ((e, n), d, None))
            f["fit: one component with weights"] = ("fit", lambda: ((e, n), (d,), (w,)))
        return f

    with warnings.catch_warnings():
        warnings.simplefilter("ignore")
        for name, (mk, vector) in ests.items():
            A = H._lattice_dataset(rnd, 14)
            R = H._lattice_dataset(rnd, 12)      # the data set of the rejected call
            B = H._lattice_dataset(rnd, 16)
            fl = faults(vector, R)
            keys = sorted(fl)
            if not thorough:
                keep = [k for k in keys if "component" in k or "tuple" in k]
                rest = [k for k in keys if k not in keep]
                rnd.shuffle(rest)
                keys = keep + rest[:3 if name == "SplineCV" else 5]
            for before in ("unfitted", "fitted"):
                for fname in keys:
                    meth, build = fl[fname]
                    est = mk()
                    if before == "fitted":
                        est.fit(*H._fitargs(A, vector, False))
                    s0 = _flat(_state(est))
                    p0 = H._params(est)
                    args = build()
                    try:
                        if isinstance(args, dict):
                            getattr(est, meth)(**args)
                        else:
                            getattr(est, meth)(*args)
                        rejected, exn = False, None
                    except Exception as exc:      # noqa
                        rejected, exn = True, type(exc).__name__
                    if not rejected:
                        continue                    # whether it must be rejected is the business of the malformed streams
                    s1 = _flat(_state(est))
                    changed = sorted(k for k in set(s0) | set(s1) if s0.get(k) != s1.get(k))
                    known = [k for k in changed if (name, k) in KNOWN_TRACES]
                    for k in known:
                        noted.setdefault(name, set()).add("%s after rejected %s" % (k, fname))
                    changed = [k for k in changed if k not in known]
                    params_same = H._params_diff(p0, H._params(est)) == []
                    # a following valid fit must equal a fresh estimator's
                    try:
                        est.fit(*H._fitargs(B, vector, False))
                        if name == "VectorSpline2D" and before == "fitted":
                            fc = tuple(np.ravel(x).copy() for x in A[:2])
                            fresh = vd.VectorSpline2D(poisson=0.4, mindist=2.0, damping=1e-3, force_coords=fc)
                        else:
                            fresh = mk()
                        fresh.fit(*H._fitargs(B, vector, False))
                        same = H._identical(est.predict(probe), fresh.predict(probe)) and H._identical(est.predict((B[0], B[1])), fresh.predict((B[0], B[1])))
                        err = None
                    except Exception as exc:      # noqa
                        same, err = False, "%s: %s" % (type(exc).__name__, str(exc)[:120])
                    holds = not changed and params_same and same
                    fit_src = lambda ds: ("(%s, %s), (%s, 2.0 - %s)" if vector else "(%s, %s), %s") % ((lit(ds[0]), lit(ds[1]), lit(ds[2]), lit(ds[2])) if vector else (lit(ds[0]), lit(ds[1]), lit(ds[2])))
                    repro = ("import warnings; warnings.simplefilter('ignore'); import numpy as np, verde as vd; est = %s; %s"
                             % (H._MK_SRC[name].replace(", force_coords=FC", ""), "est.fit(%s); " % fit_src(A) if before == "fitted" else "")
                             + "before = {k: repr(v)[:60] for k, v in vars(est).items()}; "
                             + "# rejected call: est.%s with '%s' built from the data set `rejected_call_data` of this replay (harness/c20_repeat.py faults()); " % (meth, fname)
                             + "then compare vars(est) with `before`, est.fit(B) with a fresh estimator's")
                    _bool(cases, {"estimator": name, "state_before": before, "rejected_call": fname, "method": meth, "exception": exn,
                                  "fitted_on": None if before == "unfitted" else {"easting": A[0].tolist(), "northing": A[1].tolist(), "data": A[2].tolist()},
                                  "rejected_call_data": {"easting": R[0].tolist(), "northing": R[1].tolist(), "data": R[2].tolist()},
                                  "next_fit": {"easting": B[0].tolist(), "northing": B[1].tolist(), "data": B[2].tolist()}},
                          {"attributes_changed_by_the_rejected_call": changed, "get_params_unchanged": params_same,
                           "next_fit_identical_to_fresh": same, "error": err}, holds, repro, "failed-call-no-trace")
    extra["traces_left_by_rejected_calls_in_the_unchanged_code (reported, not flagged)"] = {k: sorted(v) for k, v in noted.items()}
    return cases


# ---------------------------------------------------------------------------
# (3) every constructor parameter, in the forms users pass: stored as is, clone works, clone behaves identically
def clone_param_cases(vd, rnd, tier):
    from . import c20 as H
    from sklearn.base import clone
    cases = []
    A = H._lattice_dataset(rnd, 18)
    e, n, d, w = A
    probe = (np.array([0.5, 2.25, 4.0, 5.75, 7.5, 9.25]), np.array([-4.5, -2.0, 0.25, 1.5, 3.0, 4.5]))
    lit = lambda a: "np.array(%r)" % (np.asarray(a).tolist(),)
    pre = ("import warnings; warnings.simplefilter('ignore'); import numpy as np, verde as vd; from sklearn.base import clone; "
           "from sklearn.model_selection import KFold; e = %s; n = %s; d = %s; fe = np.array([1., 4., 7., 2.5, 9.]); fn = np.array([-3., 0., 3., 1.5, -1.]); "
           % (lit(e), lit(n), lit(d)))
    env = {"np": np, "vd": vd, "fe": np.array([1., 4., 7., 2.5, 9.]), "fn": np.array([-3., 0., 3., 1.5, -1.])}
    from sklearn.model_selection import KFold
    env["KFold"] = KFold
    FC = ["(fe, fn)", "[fe, fn]", "(fe.tolist(), fn.tolist())", "(fe.reshape(5, 1), fn.reshape(5, 1))", "np.array([fe, fn])", "(fe, fn, np.zeros(5))"]
    # class -> (base constructor source, vector?, kind, {parameter: [value sources]})
    table = {
        "Trend": ("vd.Trend(degree=1)", False, "gridder", {"degree": ["2", "np.int64(3)", "0"]}),
        "Spline": ("vd.Spline(damping=1e-3)", False, "gridder", {
            "mindist": ["1e-3", "np.float64(0.5)", "0"], "damping": ["1e-2", "np.float64(1e-4)", "None"], "force_coords": FC, "engine": ["'numpy'"]}),
        "SplineCV": ("vd.SplineCV(dampings=(1e-3, 1e-1))", False, "gridder", {
            "mindists": ["[0.1, 1.0]", "(0.5,)", "np.array([0.0, 0.2])"], "dampings": ["[1e-3, 1e-2]", "(1e-2,)", "np.array([1e-3, 1e-1])", "(None, 1e-3)"],
            "force_coords": FC[:4], "engine": ["'numpy'"], "cv": ["KFold(n_splits=3)", "vd.BlockKFold(spacing=2.5, n_splits=2)",
                                                                 "vd.BlockShuffleSplit(spacing=2.5, n_splits=2, random_state=0)"],
            "delayed": ["True"], "scoring": ["'neg_mean_squared_error'", "'r2'"]}),
        "VectorSpline2D": ("vd.VectorSpline2D(damping=1e-3, mindist=2.0)", True, "gridder", {
            "poisson": ["0.3", "np.float64(0.1)"], "mindist": ["5.0", "np.float64(1.0)"], "damping": ["1e-2", "None"], "force_coords": FC[:5], "engine": ["'numpy'"]}),
        "KNeighbors": ("vd.KNeighbors()", False, "gridder", {"k": ["3", "np.int64(2)"], "reduction": ["np.median", "np.max", "(lambda x, axis: x.min(axis=axis))"]}),
        "Linear": ("vd.Linear()", False, "gridder", {"rescale": ["True", "np.bool_(True)"]}),
        "Cubic": ("vd.Cubic()", False, "gridder", {"rescale": ["True", "np.bool_(True)"]}),
        "ScipyGridder": ("vd.ScipyGridder()", False, "gridder", {"method": ["'linear'", "'nearest'"], "extra_args": ["{'rescale': True}", "dict(fill_value=0.0)"]}),
        "Chain": ("vd.Chain(steps=[('t', vd.Trend(1))])", False, "gridder", {
            "steps": ["[('trend', vd.Trend(1)), ('spline', vd.Spline(damping=1e-3))]", "(('trend', vd.Trend(2)),)",
                      "[('mean', vd.BlockReduce(np.mean, spacing=1.0)), ('knn', vd.KNeighbors())]"]}),
        "Vector": ("vd.Vector(components=[vd.Trend(1), vd.Trend(1)])", True, "gridder", {
            "components": ["[vd.Trend(1), vd.Spline(damping=1e-3)]", "(vd.Trend(2), vd.KNeighbors(k=2))"]}),
        "BlockReduce": ("vd.BlockReduce(reduction=np.mean, spacing=2.0)", False, "reducer", {
            "reduction": ["np.median", "np.max", "(lambda x: x.min())"], "spacing": ["3.0", "(2.0, 3.0)", "[2.0, 3.0]", "np.array([2.0, 3.0])", "np.float64(2.5)"],
            "region": ["(0, 10, -5, 5)", "[0.0, 10.0, -5.0, 5.0]", "np.array([0.0, 10.0, -5.0, 5.0])"], "adjust": ["'region'"],
            "center_coordinates": ["True"], "drop_coords": ["False"]}),
        "BlockReduce(shape)": ("vd.BlockReduce(reduction=np.mean, shape=(3, 3))", False, "reducer", {"shape": ["(2, 4)", "[3, 2]", "np.array([2, 2])"]}),
        "BlockMean": ("vd.BlockMean(spacing=2.0)", False, "reducer", {
            "spacing": ["3.0", "(2.0, 3.0)", "np.array([2.0, 3.0])"], "region": ["(0, 10, -5, 5)", "np.array([0.0, 10.0, -5.0, 5.0])"], "adjust": ["'region'"],
            "center_coordinates": ["True"], "uncertainty": ["True"], "drop_coords": ["False"]}),
        "CheckerBoard": ("vd.synthetic.CheckerBoard()", False, "synthetic", {
            "amplitude": ["10", "np.float64(2.5)"], "region": ["[0, 10, -5, 5]", "np.array([0.0, 10.0, -5.0, 5.0])"], "w_east": ["3.0", "np.float64(2)"], "w_north": ["1.5"]}),
    }

    def behave(est, kind, vector, weighted):
        if kind == "gridder":
            args = H._fitargs(A, vector, False)
            return est.fit(*args).predict(probe)
        if kind == "reducer":
            if weighted:
                return est.filter((e, n), d, w)
            return est.filter((e, n), d)
        return est.predict(probe)

    with warnings.catch_warnings():
        warnings.simplefilter("ignore")
        for cname, (base_src, vector, kind, params) in table.items():
            for pname, values in params.items():
                for vsrc in values:
                    inp = {"estimator": cname, "parameter": pname, "value": vsrc, "base": base_src}
                    out = {}
                    step = "construct"
                    try:
                        value = eval(vsrc, dict(env))
                        base = eval(base_src, dict(env))
                        kw = base.get_params(deep=False)
                        kw[pname] = value
                        mk = lambda: type(base)(**kw)
                        est = mk()
                        stored = est.get_params(deep=False)[pname]
                        out["stored_is_the_object_passed"] = stored is value
                        step = "clone"
                        cl = clone(est)
                        out["clone_ok"] = True
                        step = "behaviour"
                        weighted = cname.startswith("BlockMean") and bool(kw.get("uncertainty"))
                        b1 = behave(est, kind, vector, weighted)
                        b2 = behave(cl, kind, vector, weighted)
                        b3 = behave(clone(est), kind, vector, weighted)       # clone of the used / fitted estimator
                        out["clone_behaves_identically"] = H._snap(b1) == H._snap(b2) == H._snap(b3)
                        # (Linear / Cubic / ScipyGridder predict NaN outside the convex hull of a training fold: their scores are not defined)
                        if kind == "gridder" and not vector and cname not in ("SplineCV", "Linear", "Cubic", "ScipyGridder"):
                            step = "cross_val_score"
                            s1 = vd.cross_val_score(mk(), (e, n), d, cv=KFold(n_splits=3))
                            out["cross_val_score_runs"] = bool(np.all(np.isfinite(s1)) or True)
                        if cname == "Spline" and pname in ("force_coords", "mindist", "damping"):
                            step = "SplineCV with the same parameter"
                            skw = {"force_coords": value} if pname == "force_coords" else ({"mindists": [value]} if pname == "mindist" else {"dampings": [value, 1e-2]})
                            vd.SplineCV(cv=KFold(n_splits=3), **skw).fit((e, n), d)
                            out["splinecv_runs"] = True
                        holds = all(v is True for v in out.values())
                    except Exception as exc:      # noqa: a valid estimator must survive all of this
                        out["error"] = "%s in step '%s': %s" % (type(exc).__name__, step, str(exc)[:160])
                        holds = False
                    bsrc = {"gridder": "o.fit((e, n), %s).predict((e[:4], n[:4]))" % ("(d, 2.0 - d)" if vector else "d"),
                            "reducer": "o.filter((e, n), d%s)" % (", np.ones_like(d)" if cname.startswith("BlockMean") and pname == "uncertainty" else ""),
                            "synthetic": "o.predict((e[:4], n[:4]))"}[kind]
                    repro = (pre + "v = %s; kw = %s.get_params(deep=False); kw[%r] = v; est = type(%s)(**kw); print('stored is passed:', est.get_params(deep=False)[%r] is v); "
                             % (vsrc, base_src, pname, base_src, pname)
                             + "c = clone(est); f = lambda o: %s; print(f(est)); print(f(c))" % bsrc)
                    _bool(cases, inp, out, holds, repro, "clone-params")
    return cases
