"""C20 malformed input, systematically: for every public callable that takes coordinate / data / weight tuples, valid
arguments in which exactly ONE array in ONE position (each coordinate incl. each extra coordinate, each data component,
each weight component) has another shape: transposed (non-square), raveled, one row/element longer, one shorter, a scalar.

Family A (everything that starts with check_fit_input) and family B (everything that starts with check_coordinates on
the whole tuple) are compared with the Coq models (Model/Checks.v) inside coqc.  Family C (callables without an
explicit shape check) is compared with the table FROZEN below of what the unchanged code rejects; positions the
unchanged code accepts although they are inconsistent are listed in the evidence (EXTRA), not flagged.
"""
import warnings

import numpy as np

from .core import Case, cN, cbool, clist


def cshape(s):
    return clist([cN(x) for x in s])


def cshapes(l):
    return clist([cshape(s) for s in l])


def cweights(l):
    return clist(["None" if w is None else "(Some %s)" % cshape(w) for w in l])


def _ok(fn):
    with warnings.catch_warnings():
        warnings.simplefilter("ignore")
        try:
            fn()
            return True, None
        except Exception as exc:      # noqa
            return False, type(exc).__name__


BASES = {"2d": (3, 4), "1d": (12,)}
DEFORM = {
    "2d": {"transposed": (4, 3), "raveled": (12,), "longer": (4, 4), "shorter": (2, 4), "scalar": ()},
    "1d": {"column": (12, 1), "longer": (13,), "shorter": (11,), "scalar": ()},
}


def _arr(rnd, shape, kind):
    n = int(np.prod(shape)) if len(shape) else 1
    if kind == "east":
        v = [rnd.uniform(0, 10) for _ in range(n)]
    elif kind == "north":
        v = [rnd.uniform(-5, 5) for _ in range(n)]
    elif kind == "weight":
        v = [rnd.uniform(0.5, 2.0) for _ in range(n)]
    else:
        v = [rnd.uniform(-3, 3) for _ in range(n)]
    return np.array(v, dtype=float).reshape(shape)


def _build(rnd, cs, ds, ws):
    coords = tuple(_arr(rnd, s, "east" if i == 0 else ("north" if i == 1 else "extra")) for i, s in enumerate(cs))
    data = tuple(_arr(rnd, s, "data") for s in ds)
    weights = None if ws is None else tuple(_arr(rnd, s, "weight") for s in ws)
    return coords, data, weights


def _one(x):
    return x[0] if x is not None and len(x) == 1 else x


# ---------------------------------------------------------------------------
def family_a(vd):
    """name -> (call(coords, data_tuple, weights_tuple_or_None, valid_triple), allowed ncomp, Coq constructor)
    valid_triple: a consistent (coords, data, weights) of the same configuration (to pre-fit for score)"""
    def gridders():
        return {
            "Trend": lambda: vd.Trend(1), "Spline": lambda: vd.Spline(damping=1e-3), "KNeighbors": lambda: vd.KNeighbors(k=1),
            "Linear": lambda: vd.Linear(), "Cubic": lambda: vd.Cubic(), "ScipyGridder": lambda: vd.ScipyGridder(method="nearest"),
            "Chain": lambda: vd.Chain([("trend", vd.Trend(1)), ("spline", vd.Spline(damping=1e-3))]),
        }
    ents = {}
    ents["check_fit_input"] = (lambda c, d, w, v: vd.base.check_fit_input(c, _one(d), _one(w)), (1, 2, 3), "CFitInput")
    ents["check_fit_input(unpack=False)"] = (lambda c, d, w, v: vd.base.check_fit_input(c, _one(d), _one(w), unpack=False), (1, 2, 3), "CFitInput")
    for g, mk in gridders().items():
        ents["%s.fit" % g] = (lambda c, d, w, v, mk=mk: mk().fit(c, _one(d), _one(w)), (1,), "CFitInput")
        ents["%s.filter" % g] = (lambda c, d, w, v, mk=mk: mk().filter(c, _one(d), _one(w)), (1,), "CFitInput")
        ents["%s.score" % g] = (lambda c, d, w, v, mk=mk: mk().fit(v[0], _one(v[1]), None).score(c, _one(d), _one(w)), (1,), "CFitInput")
    ents["SplineCV.fit"] = (lambda c, d, w, v: vd.SplineCV(dampings=(1e-3, 1e-1)).fit(c, _one(d), _one(w)), (1,), "CFitInput")
    mkv = lambda: vd.Vector([vd.Trend(1), vd.Trend(1)])
    ents["Vector.fit"] = (lambda c, d, w, v: mkv().fit(c, d, w), (2,), "CVector 2%nat")
    ents["Vector.filter"] = (lambda c, d, w, v: mkv().filter(c, d, w), (2,), "CVector 2%nat")
    ents["Vector.score"] = (lambda c, d, w, v: mkv().fit(v[0], v[1], None).score(c, d, w), (2,), "CFitInput")
    mks = lambda: vd.VectorSpline2D(damping=1e-3, mindist=1.0)
    ents["VectorSpline2D.fit"] = (lambda c, d, w, v: mks().fit(c, d, w), (2,), "CVecSpline")
    ents["VectorSpline2D.filter"] = (lambda c, d, w, v: mks().filter(c, d, w), (2,), "CVecSpline")
    ents["VectorSpline2D.score"] = (lambda c, d, w, v: mks().fit(v[0], v[1], None).score(c, d, w), (2,), "CFitInput")
    ents["BlockReduce.filter"] = (lambda c, d, w, v: vd.BlockReduce(np.average if w is not None else np.median, spacing=2.5).filter(c, _one(d), _one(w)), (1, 2, 3), "CFitInput")
    ents["BlockMean.filter"] = (lambda c, d, w, v: vd.BlockMean(spacing=2.5).filter(c, _one(d), _one(w)), (1, 2, 3), "CFitInput")
    ents["BlockMean(uncertainty).filter"] = (lambda c, d, w, v: vd.BlockMean(spacing=2.5, uncertainty=w is not None).filter(c, _one(d), _one(w)), (1, 2), "CFitInput")
    ents["train_test_split"] = (lambda c, d, w, v: vd.train_test_split(c, _one(d), _one(w), random_state=0), (1, 2, 3), "CFitInput")
    ents["cross_val_score(Trend)"] = (lambda c, d, w, v: vd.cross_val_score(vd.Trend(1), c, _one(d), _one(w)), (1,), "CFitInput")
    ents["cross_val_score(Vector)"] = (lambda c, d, w, v: vd.cross_val_score(mkv(), c, d, w), (2,), "CFitInput")
    return ents


def family_b(vd):
    """callables that validate the WHOLE coordinate tuple with check_coordinates: name -> call(coords)"""
    grid = lambda: vd.grid_coordinates((0, 10, -5, 5), shape=(3, 4))
    dc = (np.array([1.0, 9.0, 5.0, 2.0, 7.5]), np.array([-4.0, 4.0, 0.5, 3.0, -2.5]))
    return {
        "check_coordinates": lambda c: vd.base.utils.check_coordinates(c),
        "block_split": lambda c: vd.block_split(c, spacing=2.5),
        "rolling_window": lambda c: vd.rolling_window(c, size=4.0, spacing=2.0),
        "expanding_window": lambda c: vd.expanding_window(c, center=(5.0, 0.0), sizes=[2.0, 6.0]),
        "distance_mask(coordinates=)": lambda c: vd.distance_mask(dc, maxdist=2.0, coordinates=c),
        "convexhull_mask(coordinates=)": lambda c: vd.convexhull_mask(dc, coordinates=c),
    }


def family_c(vd):
    """callables without an explicit shape check: name -> (call(coords), max number of coordinate arrays)"""
    gc = vd.grid_coordinates((0, 10, -5, 5), shape=(3, 4))
    return {
        "median_distance": (lambda c: vd.median_distance(c, k_nearest=1), 3),
        "inside": (lambda c: vd.inside(c, (2.0, 8.0, -3.0, 3.0)), 3),
        "get_region": (lambda c: vd.get_region(c), 3),
        "distance_mask(data_coordinates=)": (lambda c: vd.distance_mask(c, maxdist=2.0, coordinates=gc), 3),
        "convexhull_mask(data_coordinates=)": (lambda c: vd.convexhull_mask(c, coordinates=gc), 3),
        "distance_mask(data_coordinates=, grid=)": (lambda c: vd.distance_mask(c, maxdist=2.0, grid=vd.make_xarray_grid(gc, np.ones((3, 4)), "dummy")), 3),
        "convexhull_mask(data_coordinates=, grid=)": (lambda c: vd.convexhull_mask(c, grid=vd.make_xarray_grid(gc, np.ones((3, 4)), "dummy")), 3),
        "distance_mask(data_coordinates=, projection=)": (lambda c: vd.distance_mask(c, maxdist=4.0, coordinates=gc, projection=lambda e, n: (e * 2.0, n + 1.0)), 3),
        "convexhull_mask(data_coordinates=, projection=)": (lambda c: vd.convexhull_mask(c, coordinates=gc, projection=lambda e, n: (e * 2.0, n + 1.0)), 3),
        "distance_mask(data_coordinates=, grid=, projection=)": (lambda c: vd.distance_mask(c, maxdist=4.0, grid=vd.make_xarray_grid(gc, np.ones((3, 4)), "dummy"), projection=lambda e, n: (e * 2.0, n + 1.0)), 3),
        "convexhull_mask(data_coordinates=, grid=, projection=)": (lambda c: vd.convexhull_mask(c, grid=vd.make_xarray_grid(gc, np.ones((3, 4)), "dummy"), projection=lambda e, n: (e * 2.0, n + 1.0)), 3),
    }


# what the UNCHANGED code rejects, frozen (probed on /repo at a67f133..; see harness/c20.meta.json).
# key: (entry, base, position index or 'extra', deformation) -> True (raises) ; everything not listed is accepted.
# A position that is accepted although inconsistent is reported in the evidence, never flagged.
MASKS = ["%s(data_coordinates=%s)" % (f, v) for f in ("distance_mask", "convexhull_mask")
         for v in ("", ", grid=", ", projection=", ", grid=, projection=")]


def _frozen():
    rej = set()
    for base, defs in DEFORM.items():
        for d in defs:
            for i in (0, 1):
                rej.add(("median_distance", base, i, d))            # np.broadcast of easting/northing / stacking fails
                if d != "scalar":                                   # a scalar northing broadcasts in `inside`: no demand
                    rej.add(("inside", base, i, d))                 # logical_and(in_we, in_ns, out=...) cannot broadcast
                # since 4cdef40 (finding F23): check_coordinates on the easting / northing pair - every other shape is
                # rejected, in particular the same-size ones (transposed, raveled, (12,) vs (12,1)) that used to be misaligned
                for m in MASKS:
                    rej.add((m, base, i, d))
    return rej


def _make_xarray_cases(vd, rnd, tier):
    """make_xarray_grid(coordinates, data, data_names, extra_coords_names): each coordinate / data array of another shape"""
    cases = []
    region = (0, 10, -5, 5)
    for form in ("meshgrid", "1d"):
        for ncoord in (2, 3, 4):
            for ncomp in (1, 2, 3):
                g = vd.grid_coordinates(region, shape=(3, 4), extra_coords=[1.0, 2.0][:ncoord - 2] if ncoord > 2 else None)
                if form == "1d":
                    coords = [g[0][0, :], g[1][:, 0]] + list(g[2:])
                else:
                    coords = list(g)
                data = [np.ones((3, 4)) * (k + 1) for k in range(ncomp)]
                names = ["d%d" % k for k in range(ncomp)]
                xn = ["x%d" % k for k in range(ncoord - 2)] or None
                positions = [("extra-coordinate", i) for i in range(2, ncoord)] + [("data", j) for j in range(ncomp)]
                for kind, idx in [("none", 0)] + positions:
                    for dname, dshape in ([("none", None)] if kind == "none" else list(DEFORM["2d"].items())):
                        if dname == "scalar":
                            continue                            # xarray broadcasts scalars: no demand
                        c2, d2 = list(coords), list(data)
                        if kind == "extra-coordinate":
                            c2[idx] = np.ones(dshape)
                        elif kind == "data":
                            d2[idx] = np.ones(dshape)
                        obs = _ok(lambda: vd.make_xarray_grid(tuple(c2), tuple(d2) if ncomp > 1 else d2[0], names if ncomp > 1 else names[0], extra_coords_names=xn))
                        expect_reject = kind != "none"
                        holds = (not obs[0]) if expect_reject else obs[0]
                        cases.append(Case({"entry": "make_xarray_grid", "horizontal": form, "n_coordinates": ncoord, "n_data": ncomp,
                                           "position": kind, "index": idx, "deformation": dname, "shape": dshape},
                                          {"returned": obs[0], "exception": obs[1]}, "mk_verdict true %s" % cbool(holds),
                                          "import numpy as np, verde as vd  # make_xarray_grid on a (3,4) grid, %s %d of shape %r" % (kind, idx, dshape),
                                          "malformed-position" if expect_reject else "malformed-position-control", nontrivial=True))
    return cases


def generate(vd, rnd, tier, extra):
    cases = []
    accepted_inconsistent = {}
    thorough = tier != "quick"
    # ---------------- family A
    fa = family_a(vd)
    rr = 0
    for name, (call, ncomps, ctor) in sorted(fa.items()):
        slow = name.startswith(("SplineCV", "cross_val_score")) or ".score" in name
        for base, s in BASES.items():
            if not thorough and base == "1d" and slow:
                continue
            for ncoord in (2, 3, 4):
                if not thorough and ncoord == 4 and slow:
                    continue
                for ncomp in ncomps:
                    for weighted in (False, True):
                        cs0, ds0 = [s] * ncoord, [s] * ncomp
                        ws0 = [s] * ncomp if weighted else None
                        valid = _build(rnd, cs0, ds0, ws0)
                        positions = [("coordinate", i) for i in range(ncoord)] + [("data", j) for j in range(ncomp)] \
                            + ([("weights", k) for k in range(ncomp)] if weighted else [])
                        todo = [("none", 0, "none", None)]
                        for kind, idx in positions:
                            items = list(DEFORM[base].items())
                            if not thorough:
                                rr += 1
                                items = [items[rr % len(items)]]
                                if slow and rr % 2:
                                    continue
                            for dname, dshape in items:
                                todo.append((kind, idx, dname, dshape))
                        for kind, idx, dname, dshape in todo:
                            cs, ds = list(cs0), list(ds0)
                            ws = None if ws0 is None else list(ws0)
                            if kind == "coordinate":
                                cs[idx] = dshape
                            elif kind == "data":
                                ds[idx] = dshape
                            elif kind == "weights":
                                ws[idx] = dshape
                            # exactly one array differs from the valid arguments
                            c, d, w = list(valid[0]), list(valid[1]), (None if valid[2] is None else list(valid[2]))
                            if kind == "coordinate":
                                c[idx] = _arr(rnd, dshape, "east" if idx == 0 else ("north" if idx == 1 else "extra"))
                            elif kind == "data":
                                d[idx] = _arr(rnd, dshape, "data")
                            elif kind == "weights":
                                w[idx] = _arr(rnd, dshape, "weight")
                            c, d, w = tuple(c), tuple(d), (None if w is None else tuple(w))
                            obs = _ok(lambda: call(c, d, w, valid))
                            cw = cweights(ws if ws is not None else [None] * len(ds))
                            term = "c20_check_case (%s %s %s %s) %s" % (ctor, cshapes(cs), cshapes(ds), cw, cbool(obs[0]))
                            inp = {"entry": name, "position": kind, "index": idx, "deformation": dname, "coordinate_shapes": cs,
                                   "data_shapes": ds, "weight_shapes": ws}
                            repro = ("import numpy as np, verde as vd; z = lambda s: np.random.RandomState(0).uniform(0.5, 2, s); "
                                     "t = lambda l: None if l is None else tuple(z(s) for s in l); u = lambda x: x[0] if x is not None and len(x) == 1 else x; "
                                     "print(vd.base.check_fit_input(t(%r), u(t(%r)), u(t(%r))))  # entry under test: %s; a %s array at index %d is %s"
                                     % (cs, ds, ws, name, kind, idx, dname))
                            cases.append(Case(inp, {"returned": obs[0], "exception": obs[1]}, term, repro,
                                              "malformed-position-control" if kind == "none" else "malformed-position", nontrivial=True))
    # ---------------- family B
    fb = family_b(vd)
    for name, call in sorted(fb.items()):
        for base, s in BASES.items():
            for ncoord in (2, 3, 4):
                todo = [("none", 0, "none", None)] + [("coordinate", i, dn, dsh) for i in range(ncoord) for dn, dsh in DEFORM[base].items()]
                for kind, idx, dname, dshape in todo:
                    cs = [s] * ncoord
                    if kind == "coordinate":
                        cs[idx] = dshape
                    c, _, _ = _build(rnd, cs, [], None)
                    obs = _ok(lambda: call(c))
                    term = "c20_check_case (CCoords %s) %s" % (cshapes(cs), cbool(obs[0]))
                    cases.append(Case({"entry": name, "position": kind, "index": idx, "deformation": dname, "coordinate_shapes": cs},
                                      {"returned": obs[0], "exception": obs[1]}, term,
                                      "import numpy as np, verde as vd; c = tuple(np.random.RandomState(0).uniform(0, 10, s) for s in %r); "
                                      "print(vd.base.utils.check_coordinates(c))  # entry under test: %s; coordinate %d is %s" % (cs, name, idx, dname),
                                      "malformed-position-control" if kind == "none" else "malformed-position", nontrivial=True))
    # ---------------- family C (frozen table)
    frozen = _frozen()
    for name, (call, maxc) in sorted(family_c(vd).items()):
        for base, s in BASES.items():
            for ncoord in range(2, maxc + 1):
                todo = [("none", 0, "none", None)] + [("coordinate", i, dn, dsh) for i in range(ncoord) for dn, dsh in DEFORM[base].items()]
                for kind, idx, dname, dshape in todo:
                    cs = [s] * ncoord
                    if kind == "coordinate":
                        cs[idx] = dshape
                    c, _, _ = _build(rnd, cs, [], None)
                    obs = _ok(lambda: call(c))
                    if kind == "none":
                        holds, stream = obs[0], "malformed-position-control"
                    elif (name, base, idx, dname) in frozen:
                        holds, stream = not obs[0], "malformed-position"
                    else:
                        # not validated by the unchanged code: recorded, not demanded
                        holds, stream = True, "malformed-position-unvalidated"
                        if obs[0]:
                            accepted_inconsistent.setdefault(name, set()).add("%s coordinate %s: %s" % (base, "extra" if idx >= 2 else idx, dname))
                    cases.append(Case({"entry": name, "position": kind, "index": idx, "deformation": dname, "coordinate_shapes": cs},
                                      {"returned": obs[0], "exception": obs[1]}, "mk_verdict true %s" % cbool(holds),
                                      "import numpy as np, verde as vd  # %s with coordinate shapes %r" % (name, cs), stream,
                                      nontrivial=stream != "malformed-position-unvalidated"))
    cases += _make_xarray_cases(vd, rnd, tier)
    extra["positions_accepted_although_inconsistent (unchanged behaviour, not demanded)"] = {k: sorted(v) for k, v in accepted_inconsistent.items()}
    extra["positions_validated"] = {
        "family A (check_fit_input model, in coqc)": sorted(fa),
        "family B (check_coordinates on the whole tuple, in coqc)": sorted(fb),
        "family C (frozen table of the unchanged behaviour)": sorted(family_c(vd)) + ["make_xarray_grid"],
    }
    return cases
