"""C17 longitude_continuity: exhaustive 5-degree lattice + random dyadic arcs + invalid inputs."""
import random
import numpy as np
from . import core
from .core import Case, cZ, clist, cpair
from . import pylite_tie

obligations = pylite_tie.lon_obligations   # source-regenerated tie (see harness/pylite_tie.py)

ID = "C17"
PROPS_FILE = "Props/C17.v"
IMPORTS = "From Verde Require Import Model.Longitude."
SHARD = 600
RULE = ("exhaustive lattice of all (W,E) in [-180,360]^2 on a 5-degree grid with |E-W|<=360 (and a band beyond, "
        "to exercise rejection), with and without longitude arrays sampling the lattice and both seams; random arcs "
        "and longitudes on 1/8- and 2^-20-degree dyadic lattices (widths within 0.01 degree of a full circle excluded); "
        "one-fault invalid inputs. A case is non-trivial when the region is accepted; distinct = distinct "
        "(scale, region, longitudes, latitudes) tuples.")
ASSUMPTIONS = [
    "floats that are integers in units of 1/s degree (s a power of two) make the code's %, +, -, comparisons exact; the model is the code's arithmetic on those integers",
    "numpy.allclose(|E-W|, 360) is modelled as exact equality; widths within 0.01 degree of 360 (but not equal) are not generated",
]
TRUSTED = ["python harness harness/c17.py (generators, scaling of floats to integers, verdict parsing)"]


_variant = [0]


def _impl(vd, region, coords):
    """returns ('ok', coords_or_None, region) | ('ValueError',) | ('other', name).
    The container of the region (list / tuple / ndarray) and the shape and memory layout of the
    coordinate arrays vary from call to call; the result must not depend on them (whether the
    arguments are left unmodified is C20's business, not checked here)."""
    _variant[0] += 1
    v = _variant[0]
    reg = [list(region), tuple(region), np.array(region, dtype=float)][v % 3]
    before = [float(x) for x in region]
    try:
        if coords is None:
            r = vd.longitude_continuity(None, reg)
            return ("ok", None, [float(x) for x in r])
        lon = np.array(coords[0], dtype=float)
        lat = np.array(coords[1], dtype=float)
        if lon.size % 2 == 0 and lon.size >= 4 and v % 2:
            lon = lon.reshape(2, -1)
            lat = lat.reshape(2, -1)
            if v % 4 == 1:
                lon, lat = np.asfortranarray(lon), lat.T.copy().T
        lon0 = lon.copy()
        c, r = vd.longitude_continuity([lon, lat], reg)
        if np.shape(c[0]) != lon.shape:
            return ("other", "coordinate shape changed")
        return ("ok", [[float(x) for x in np.ravel(c[0])], [float(x) for x in np.ravel(c[1])]], [float(x) for x in r])
    except ValueError:
        return ("ValueError",)
    except Exception as exc:  # pragma: no cover
        return ("other", type(exc).__name__)


BADZ = 10 ** 12


def _toZ(x, s, tol=False):
    y = x * s
    if tol and abs(y - round(y)) < 1e-6:
        return int(round(y))     # decimal (non-dyadic) inputs: the float result is the nearest double of the exact decimal one
    if y != int(y):
        return BADZ
    return int(y)


def _case(vd, s, region, coords, kind, as_int=False, tol=False):
    """region/coords are given in scaled integer units (1/s degree)."""
    reg = [v / s for v in region]
    if as_int and all(v % s == 0 for v in region):
        reg = [int(v // s) for v in region]
    cs = None if coords is None else ([v / s for v in coords[0]], [v / s for v in coords[1]])
    obs = _impl(vd, reg, cs)
    h = 180 * s
    q = 90 * s
    zl = lambda l: clist([cZ(v) for v in l])
    ccoords = "None" if coords is None else "(Some (%s, %s))" % (zl(coords[0]), zl(coords[1]))
    if obs[0] == "ok":
        oc = "None" if obs[1] is None else "(Some (%s, %s))" % (
            zl([_toZ(v, s, tol) for v in obs[1][0]]), zl([_toZ(v, s, tol) for v in obs[1][1]]))
        r = [_toZ(v, s, tol) for v in obs[2]]
        cobs = "(Some (%s, (%s, %s, %s, %s)))" % (oc, cZ(r[0]), cZ(r[1]), cZ(r[2]), cZ(r[3]))
    elif obs[0] == "ValueError":
        cobs = "None"
    else:
        cobs = "(Some (None, (%s, %s, %s, %s)))" % ((cZ(BADZ),) * 4)
    term = "c17_case %s %s %s %s %s %s %s %s" % (cZ(h), cZ(q), cZ(region[0]), cZ(region[1]), cZ(region[2]), cZ(region[3]), ccoords, cobs)
    accepted = obs[0] == "ok"
    repro = ("import verde, numpy as np; print(verde.longitude_continuity(%s, %r))"
             % ("None" if cs is None else "[np.array(%r), np.array(%r)]" % (cs[0], cs[1]), reg))
    return Case({"scale": s, "region_deg": reg, "coords_deg": cs}, list(obs), term, repro, kind, nontrivial=accepted)


def generate(tier, seed):
    import verde as vd
    rnd = random.Random(seed)
    cases = []
    # 1. exhaustive 5-degree lattice (units of 5 degrees: s = 1/5 is not integral, so use degrees with step 5)
    s = 1
    lat_choices = [(-10, 10), (-90, 90), (0, 0), (-90, -45)]
    seam_lons = [-180, -175, -90, -5, 0, 5, 90, 175, 180, 185, 270, 355, 360]
    step = 5
    vals = list(range(-180, 361, step))
    k = 0
    for w in vals:
        for e in vals:
            if abs(e - w) > 360 + 10:
                continue
            sn = lat_choices[k % len(lat_choices)]
            k += 1
            cases.append(_case(vd, s, (w, e, sn[0], sn[1]), None, "lattice-region", as_int=(k % 2 == 0)))
            if abs(e - w) <= 360 and (tier == "thorough" or k % 3 == 0):
                if tier == "thorough":
                    lons = vals
                else:
                    lons = seam_lons + [rnd.choice(vals) for _ in range(4)] + [w, e]
                lats = [rnd.choice([-90, -45, 0, 30, 90]) for _ in lons]
                cases.append(_case(vd, s, (w, e, sn[0], sn[1]), (lons, lats), "lattice-coords"))
    # 2. random dyadic arcs
    n_rand = 600 if tier == "quick" else 6000
    for i in range(n_rand):
        s = 8 if i % 2 == 0 else 2 ** 20
        h = 180 * s
        w = rnd.randint(-h, 2 * h)
        if i % 5 == 0:
            w = rnd.choice([-h, 0, h, 2 * h, -h + 1, h - 1, 2 * h - 1, 1, -1])
        wid = rnd.randint(0, 2 * h)
        if i % 7 == 0:
            wid = rnd.choice([0, 1, 2 * h, h, 2 * h - s, s])
        e = w + wid if rnd.random() < 0.5 else w + wid - 2 * h
        if not (-h <= e <= 2 * h):
            e = w + wid - 2 * h if e > 2 * h else w + wid
        if not (-h <= e <= 2 * h):
            continue
        if abs(e - w) != 2 * h and abs(abs(e - w) - 2 * h) < 0.01 * s:
            continue
        sn = sorted([rnd.randint(-90 * s, 90 * s), rnd.randint(-90 * s, 90 * s)])
        nl = rnd.randint(1, 8)
        lons = [rnd.choice([rnd.randint(-h, 2 * h), w, e, 0, h, -h, 2 * h, (w + wid // 2)]) for _ in range(nl)]
        lons = [l if -h <= l <= 2 * h else l - 2 * h for l in lons]
        lons = [l for l in lons if -h <= l <= 2 * h] or [0]
        lats = [rnd.randint(-90 * s, 90 * s) for _ in lons]
        cases.append(_case(vd, s, (w, e, sn[0], sn[1]), (lons, lats) if i % 3 else None, "random-dyadic"))
    # 2b. full-globe regions written with DECIMAL (non-dyadic) bounds, e.g. (-36.91, 323.09): E - W is a full circle, so
    #     the result must be 0..360 and every longitude its value modulo 360.  The model works on the exact decimals
    #     (scale 100 or 1000); observed doubles are rounded to the nearest 1/s (error < 1e-6/s or the case fails).
    for i in range(24 if tier == "quick" else 300):
        s = [100, 1000][i % 2]
        h = 180 * s
        w = rnd.randint(-h, 0)
        if w % (s // 4 if s % 4 == 0 else s) == 0:
            w += 7                      # keep off the dyadic lattice
        e = w + 2 * h
        sn = sorted([rnd.randint(-90, 90) * s, rnd.randint(-90, 90) * s])
        nl = rnd.randint(1, 6)
        lons = [rnd.choice([rnd.randint(-h, 2 * h), w, e, w + h, rnd.randint(1, 359) * s + 7]) for _ in range(nl)]
        lons = [l for l in lons if -h <= l <= 2 * h and l % (2 * h) != 0] or [7]
        lats = [rnd.randint(-90, 90) * s for _ in lons]
        cases.append(_case(vd, s, (w, e, sn[0], sn[1]), (lons, lats) if i % 4 else None, "globe-decimal", tol=True))
    # 2c. very narrow (non-zero) regions on a fine dyadic lattice (1/4096 degree), away from Greenwich: the width must be
    #     kept (a tolerance on the wrapped bounds must not turn them into a full globe)
    s = 4096
    h = 180 * s
    for i in range(24 if tier == "quick" else 240):
        w = rnd.randint(-h + 50, 2 * h - 50)
        e = w + rnd.choice([1, 2, 3, 5, 8, 20])
        if e > 2 * h:
            continue
        sn = sorted([rnd.randint(-90, 90) * s, rnd.randint(-90, 90) * s])
        lons = [w, e, w + 1, rnd.randint(-h, 2 * h), (w + h) if w + h <= 2 * h else (w - h)]
        lons = [l for l in lons if -h <= l <= 2 * h]
        lats = [rnd.randint(-90, 90) * s for _ in lons]
        cases.append(_case(vd, s, (w, e, sn[0], sn[1]), (lons, lats) if i % 3 else None, "narrow-dyadic"))
    # 3. invalid inputs (one fault each)
    s = 8
    h = 180 * s
    for i in range(96 if tier == "quick" else 600):
        w = rnd.randint(-h, h)
        e = w + rnd.randint(0, h)
        reg = [w, e, -10 * s, 10 * s]
        lons, lats = [w, e, 0], [0, s, -s]
        f = i % 12
        if f == 0:
            reg[0] = -h - rnd.randint(1, 50)
        elif f == 1:
            reg[1] = 2 * h + rnd.randint(1, 50)
        elif f == 2:
            reg[2] = -90 * s - 1
        elif f == 3:
            reg[3] = 90 * s + 1
        elif f == 8:      # the "wrong" bound out of range: west above 360 (east within 360 of it)
            reg[0] = 2 * h + rnd.randint(1, 50)
            reg[1] = reg[0] - rnd.randint(0, h)
        elif f == 9:      # east below -180
            reg[1] = -h - rnd.randint(1, 50)
            reg[0] = reg[1] + rnd.randint(0, h)
        elif f == 10:     # south above 90
            reg[2] = 90 * s + rnd.randint(1, 9)
        elif f == 11:     # north below -90
            reg[3] = -90 * s - rnd.randint(1, 9)
        elif f == 4:
            reg[0], reg[1] = -h, 2 * h
        if f in (5, 6, 7) and (i // 12) % 3 == 1:
            # a bad coordinate must be refused for EVERY kind of region, a full-globe one included
            w = rnd.randint(-h, 0)
            e = w + 2 * h
            reg[0], reg[1] = w, e
            lons = [w, e, 0]
        elif f in (5, 6, 7) and (i // 12) % 3 == 2:
            # ... and a zero-width one
            reg[1] = reg[0]
            lons = [w, w, 0]
        if f == 5:
            lons[1] = 2 * h + 1
        elif f == 6:
            lons[0] = -h - 1
        elif f == 7:
            lats[2] = 90 * s + rnd.randint(1, 9)
        cases.append(_case(vd, s, tuple(reg), (lons, lats), "invalid"))
    return cases


def search(dis, tier, seed):
    return generate("thorough", seed + 1)
