"""C18 grid <-> table conversions: make_xarray_grid, meshgrid_to_1d / meshgrid_from_1d, grid_to_table.

Streams
  make-*      make_xarray_grid on every (shape, #data, #extra) configuration, 1-D and 2-D input
  reject-*    one-fault malformed inputs (must raise ValueError)
  table-*     grid_to_table on Datasets / DataArrays built directly with xarray
  round-*     grid_to_table(make_xarray_grid(...))
  mesh-*      meshgrid_from_1d / meshgrid_to_1d compositions
  table-mixed-dims  variables / non-index coordinates whose dims are declared in a different
              order than the first variable's (finding F6, repaired in /repo: grid_to_table transposes them)
"""
import itertools
import random
import numpy as np
from . import core
from .core import Case, cOD, clist, cstr

ID = "C18"
PROPS_FILE = "Props/C18.v"
IMPORTS = "From Verde Require Import Model.Xarray."
SHARD = 64
RULE = ("every (rows, cols, #data variables 1..4 (and data=None), #extra coordinates 0..3) configuration with rows, cols in 1..R "
        "(R=4 quick, 6 thorough; single row, single column and non-square included), each as 1-D axis vectors and as 2-D meshgrids (quick: the two styles alternate over the configuration lattice), "
        "with non-uniform non-monotonic axes, easting/northing from disjoint ranges and all-distinct data/extra values (so that any "
        "transposition, swap, flip or mis-pairing changes the output), default and custom dims (including names that swap the words "
        "northing/easting), single-array / tuple data and str / list / tuple names; meshgrids perturbed within the allclose tolerance "
        "(1e-10 relative, 100x inside the boundary); one-fault malformed inputs (non-meshgrid easting or northing, swapped or transposed "
        "meshgrids, mixed 1-D/2-D, shape mismatches of northing / extra / data, name-count mismatches, None names); grid_to_table on "
        "Datasets, named and unnamed DataArrays and Dataset members built directly with xarray with the coordinates declared in every "
        "order (all permutations up to 4 coordinates; for named / unnamed DataArrays and Dataset members additionally a systematic sweep: "
        "index coordinates declared in dims order and reversed x extra coordinates declared before / between / after them, on every "
        "non-square shape), grids stored as (easting, northing), and Datasets / DataArrays whose later variables "
        "and / or non-index coordinates are stored in the opposite dimension order to the first variable (the input class of finding F6); "
        "Datasets assembled coordinates-first (make_xarray_grid(data=None) then item assignment, DataArray.to_dataset(), "
        "xr.Dataset(coords=...) then assign) whose Dataset-level dimension order is the reverse of their variables' with 1..3 2-D extra "
        "coordinates; single-row (1 x n) and single-column (n x 1) 2-D coordinate inputs that are not meshgrids (northing varying along "
        "the row / easting varying down the column) with genuine single row / column meshgrids as controls; data_names / extra_coords_names as one-character str, str with as many characters as arrays, "
        "list, tuple, one short, one long, for 1..4 arrays (a str is ONE name); Datasets / DataArrays / make_xarray_grid inputs whose variables "
        "and extra coordinates have different dtypes (float64 next to int64 / uint64 beyond 2**53 resp. 2**63, float32, int32, bool), every value "
        "transported exactly (integers as Python ints, never through float); meshgrids whose two coordinates differ in magnitude by 1e3 .. 1e7 (either way round) with one "
        "node of the small coordinate displaced by 100x its own allclose tolerance (rejected) or 1/100 of it (accepted); NaN-valued cells (a few cells, a whole row or column, one variable only, "
        "one cell in every variable, only extra coordinates, a whole variable, a third of all entries) in data and extra coordinates for "
        "make_xarray_grid, the round trip and grid_to_table on Datasets / DataArrays / members / coordinates-first Datasets, NaN compared "
        "position by position; NaN inside 2-D coordinates (rejected); arrays->grid->table round trips; "
        "meshgrid_from_1d/meshgrid_to_1d compositions both ways; random larger grids up to 8 x 9. A case is non-trivial when the call is accepted and the grid has at "
        "least 2 cells; distinct = distinct (stream, input) pairs.")
ASSUMPTIONS = [
    "xarray.Dataset(data_vars, coords) keeps the insertion order of coords and data_vars, raises ValueError on conflicting sizes and on equal dimension names (modelled by xr_dataset; the order is observed on every run)",
    "numpy.allclose is modelled in exact rational arithmetic with the double constants rtol=1e-5, atol=1e-8; generated perturbations are either 0, <= 1e-10 relative (accepted) or >= 1e-3 relative (rejected), never near the boundary",
    "array entries are finite doubles, float32, integers / booleans of any width (passed exactly as dyadics via Python ints) or NaN (option D, None = NaN, compared position by position; infinities are not generated); values are compared, not dtypes; 1-D coordinate vectors are finite; names are pairwise distinct; no zero-length axis in 2-D coordinate input; grid_to_table input has at least one data variable",
    "numpy.meshgrid(e, n) is modelled by its definition (rows are copies of e; row i of the second output is constant n[i]); ndarray.ravel() is C order (concat of rows); pandas.DataFrame(dict) keeps key order",
]
TRUSTED = ["python harness harness/c18.py (generators, conversion of xarray.Dataset / DataArray / pandas.DataFrame objects to model records, verdict parsing)"]


# ---------------------------------------------------------------------------
# Coq literals
# ---------------------------------------------------------------------------
def cval(x):
    """one array entry as option D, exactly: integers and booleans of any width go through Python ints (never through a
    float), float32 / float64 through their exact double value; None is NaN (infinities are never generated)"""
    if isinstance(x, (bool, np.bool_)):
        x = int(x)
    if isinstance(x, (int, np.integer)):
        n = int(x)
        if n == 0:
            return "(Some (0,0)%Z)"
        e = 0
        while n % 2 == 0:       # the normal form of Lib.Dyadic.DF: odd mantissa
            n //= 2
            e += 1
        return "(Some (%s,%s)%%Z)" % (("(%d)" % n) if n < 0 else "%d" % n, e)
    if isinstance(x, (float, np.floating)):
        x = float(x)
        assert not np.isinf(x)
        return cOD(x)
    raise Unsupported("array entry of type %r" % type(x))


def cvec(v):
    v = np.asarray(v)
    if v.dtype.kind not in "biuf":
        raise Unsupported("dtype %r" % v.dtype)
    return clist([cval(x) for x in v.ravel()])


def carr(a):
    a = np.asarray(a)
    assert a.ndim == 2
    return clist([cvec(r) for r in a])


def cnames(nm):
    if nm is None:
        return "NNone"
    if isinstance(nm, str):
        return "(NStr %s)" % cstr(nm)
    return "(NList %s)" % clist([cstr(s) for s in nm])


def cnd(a):
    a = np.asarray(a)
    return "(A1 %s)" % cvec(a) if a.ndim == 1 else "(A2 %s)" % carr(a)


def cdata(d):
    if d is None:
        return "DNone"
    if isinstance(d, tuple):
        return "(DTuple %s)" % clist([carr(a) for a in d])
    return "(DOne %s)" % carr(d)


def cdims(d):
    return "(%s, %s)" % (cstr(d[0]), cstr(d[1]))


def cvar(dims, values):
    return "(mk_var %s %s)" % (cdims(dims), carr(values))


class Unsupported(Exception):
    pass


def ccoords(obj):
    items = []
    for name in obj.coords.keys():
        c = obj.coords[name]
        if c.ndim == 1 and c.dims == (name,):
            items.append("(%s, Idx %s)" % (cstr(str(name)), cvec(c.values)))
        elif c.ndim == 2:
            items.append("(%s, Aux %s)" % (cstr(str(name)), cvar([str(d) for d in c.dims], c.values)))
        else:
            raise Unsupported("coordinate %r with dims %r" % (name, c.dims))
    return clist(items)


def cdataset(ds):
    vs = []
    for name in ds.data_vars.keys():
        v = ds[name]
        if v.ndim != 2:
            raise Unsupported("variable %r with dims %r" % (name, v.dims))
        vs.append("(%s, %s)" % (cstr(str(name)), cvar([str(d) for d in v.dims], v.values)))
    return "(mk_ds %s %s)" % (ccoords(ds), clist(vs))


def cgrid(g):
    if hasattr(g, "data_vars"):
        return "(GDataset %s)" % cdataset(g)
    nm = "None" if g.name is None else "(Some %s)" % cstr(str(g.name))
    return "(GArray %s %s %s)" % (nm, cvar([str(d) for d in g.dims], g.values), ccoords(g))


def ctable(t):
    return clist(["(%s, %s)" % (cstr(str(c)), cvec(t[c].values)) for c in t.columns])


BOGUS_DS = "(Some (mk_ds [] []))"           # never produced by the model: forces a disagreement
BOGUS_TABLE = "(Some [])"
BOGUS_MESH = "(Some ([[Some (1,0)%Z]], []))"    # a non-rectangular pair: never produced by the model
BOGUS_VECS = "(Some ([], [None; None; None; None; None; None; None; None; None; None; None]))"


def _nonan(x):
    if isinstance(x, list):
        return [_nonan(y) for y in x]
    return None if isinstance(x, float) and x != x else x


def jarr(a):
    """JSON-able nested lists; NaN is written as null"""
    return None if a is None else _nonan(np.asarray(a).tolist())


def jds(ds):
    return {"coords": {str(k): [list(map(str, ds.coords[k].dims)), jarr(ds.coords[k].values)] for k in ds.coords.keys()},
            "data_vars": {str(k): [list(map(str, ds[k].dims)), jarr(ds[k].values)] for k in ds.data_vars.keys()}}


def jtable(t):
    return {str(c): jarr(t[c].values) for c in t.columns}


def run(f):
    """('ok', value) | ('ValueError', msg) | ('other', name)"""
    try:
        return ("ok", f())
    except ValueError as exc:
        return ("ValueError", str(exc)[:120])
    except Unsupported as exc:
        return ("other", "Unsupported: %s" % exc)
    except Exception as exc:
        return ("other", type(exc).__name__ + ": " + str(exc)[:120])


# ---------------------------------------------------------------------------
# input construction
# ---------------------------------------------------------------------------
DIMS = [None, ("northing", "easting"), ("y", "x"), ("latitude", "longitude"), ("easting", "northing"), ("row", "col"), ("x", "y")]
DEFAULT_DIMS = ("northing", "easting")
DNAMES = ["scalars", "temperature", "b", "wind_speed"]
XNAMES = ["upward", "time", "h3"]


def axes(rnd, nn, ne):
    """non-uniform, non-monotonic axis vectors; easting in [-64, 64], northing in [1000, 1128], multiples of 1/8"""
    e = [x / 8.0 for x in rnd.sample(range(-512, 513), ne)]
    n = [1000 + x / 8.0 for x in rnd.sample(range(0, 1025), nn)]
    if rnd.random() < 0.3:
        e.sort()
        n.sort()
    return np.array(e), np.array(n)


def field(rnd, nn, ne, base):
    """all-distinct values: base + 16*i + j + a random eighth, random sign of the whole field"""
    a = np.array([[base + 16.0 * i + j + rnd.randrange(8) / 8.0 for j in range(ne)] for i in range(nn)])
    return -a if rnd.random() < 0.25 else a


DTYPES = ["float64", "float32", "int64", "int64-big", "uint64-big", "int32", "bool"]


def as_dtype(a, spec, k):
    """the all-distinct field [a] re-expressed in dtype [spec]; the -big variants are beyond 2**53 (nanosecond
    timestamps) resp. 2**63, with odd and even values, so that any detour through float64 changes them"""
    nn, ne = a.shape
    idx = np.array([[16 * i + j for j in range(ne)] for i in range(nn)], dtype=object)
    if spec == "float64":
        return a
    if spec == "float32":
        return a.astype(np.float32)
    if spec == "int64":
        return a.astype(np.int64)
    if spec == "int32":
        return a.astype(np.int32)
    if spec == "bool":
        return np.array([[(i + j + k) % 2 == 0 for j in range(ne)] for i in range(nn)])
    if spec == "int64-big":
        return np.array((idx * 3 + 1_600_000_000_000_000_001 + 1000 * k).tolist(), dtype=np.int64)
    if spec == "uint64-big":
        return np.array((idx * 5 + 2 ** 63 + 12345 + 1000 * k).tolist(), dtype=np.uint64)
    raise ValueError(spec)


def mixed_dtypes(rnd, arrs, xs):
    """give the data arrays and extra coordinates different dtypes (in place in the lists); with two or more
    variables a float64 one always sits next to a 64-bit integer one beyond 2**53"""
    nd = len(arrs)
    specs = [rnd.choice(DTYPES) for _ in range(nd)]
    if nd >= 2:
        i, j = rnd.sample(range(nd), 2)
        specs[i] = "float64"
        specs[j] = rnd.choice(["int64-big", "int64-big", "uint64-big"])
    elif nd == 1 and rnd.random() < 0.5:
        specs[0] = rnd.choice(["int64-big", "uint64-big"])
    for k in range(nd):
        arrs[k] = as_dtype(arrs[k], specs[k], k)
    for k in range(len(xs)):
        xs[k] = as_dtype(xs[k], rnd.choice(DTYPES), 10 + k)
    return specs


NAN_PATTERNS = ["few", "row", "column", "one-var", "cell-all", "extra", "whole-var", "many"]


def nanify(rnd, arrs, xs, pattern):
    """put NaN into some cells (in place) of the data arrays [arrs] and / or the extra coordinates [xs]"""
    every = list(arrs) + list(xs)
    if not every:
        return
    nn, ne = every[0].shape
    cell = lambda: (rnd.randrange(nn), rnd.randrange(ne))
    if pattern == "extra" and not xs:
        pattern = "few"
    if pattern == "few":                # a few cells of a few arrays
        for _ in range(rnd.randint(1, 3)):
            rnd.choice(every)[cell()] = np.nan
    elif pattern == "row":              # a whole row, in one array or in all of them
        i = rnd.randrange(nn)
        for a in (every if rnd.random() < 0.5 else [rnd.choice(every)]):
            a[i, :] = np.nan
    elif pattern == "column":
        j = rnd.randrange(ne)
        for a in (every if rnd.random() < 0.5 else [rnd.choice(every)]):
            a[:, j] = np.nan
    elif pattern == "one-var":          # several cells of one data variable only
        a = rnd.choice(list(arrs) or every)
        for _ in range(rnd.randint(1, max(1, nn * ne // 2))):
            a[cell()] = np.nan
    elif pattern == "cell-all":         # one cell, in every variable and extra coordinate
        c = cell()
        for a in every:
            a[c] = np.nan
    elif pattern == "extra":            # only in the extra coordinates
        for _ in range(rnd.randint(1, 3)):
            rnd.choice(list(xs))[cell()] = np.nan
    elif pattern == "whole-var":        # one array entirely NaN
        rnd.choice(every)[:, :] = np.nan
    else:                               # "many": about a third of all entries
        for a in every:
            for i in range(nn):
                for j in range(ne):
                    if rnd.random() < 0.33:
                        a[i, j] = np.nan


def name_style(rnd, names):
    """str for a single name (sometimes), else list / tuple"""
    if len(names) == 1 and rnd.random() < 0.6:
        return names[0]
    return list(names) if rnd.random() < 0.5 else tuple(names)


def build(rnd, nn, ne, nd, nx, two_d, dims=None, nan=None, dtypes=False):
    """a valid make_xarray_grid argument set"""
    e, n = axes(rnd, nn, ne)
    if two_d:
        E, N = np.meshgrid(e, n)
        ce, cn = E.copy(), N.copy()
    else:
        ce, cn = e, n
    extras = [field(rnd, nn, ne, 5000.0 * (k + 1)) for k in range(nx)]
    if nd == 0:
        data, dnames = None, rnd.choice([None, "ignored", ["a", "b"]])
        if nan:
            nanify(rnd, [], extras, nan)
    else:
        arrs = [field(rnd, nn, ne, 100.0 * (k + 1)) for k in range(nd)]
        if nan:
            nanify(rnd, arrs, extras, nan)
        if dtypes:
            mixed_dtypes(rnd, arrs, extras)
        names = rnd.sample(DNAMES, nd)
        if nd == 1 and rnd.random() < 0.6:
            data = arrs[0]
        else:
            data = tuple(arrs)
        dnames = name_style(rnd, names)
    if nx == 0:
        xnames = rnd.choice([None, None, "ignored", ["p", "q"]])
    else:
        xnames = name_style(rnd, rnd.sample(XNAMES, nx))
    return {"ce": ce, "cn": cn, "extras": extras, "data": data, "dnames": dnames, "dims": dims, "xnames": xnames}


def call_make(vd, a):
    coords = (a["ce"], a["cn"], *a["extras"])
    kw = {"extra_coords_names": a["xnames"]}
    if a["dims"] is not None:
        kw["dims"] = a["dims"]
    return vd.make_xarray_grid(coords, a["data"], a["dnames"], **kw)


def make_term_args(a):
    dims = a["dims"] if a["dims"] is not None else DEFAULT_DIMS
    return "%s %s %s %s %s %s %s" % (cnd(a["ce"]), cnd(a["cn"]), clist([carr(x) for x in a["extras"]]),
                                     cdata(a["data"]), cnames(a["dnames"]), cdims(dims), cnames(a["xnames"]))


def jargs(a):
    d = a["data"]
    return {"easting": jarr(a["ce"]), "northing": jarr(a["cn"]), "extra_coords": [jarr(x) for x in a["extras"]],
            "data": None if d is None else ([jarr(x) for x in d] if isinstance(d, tuple) else {"single": jarr(d)}),
            "data_names": a["dnames"], "dims": a["dims"], "extra_coords_names": a["xnames"]}


def repro_make(a, tail):
    def r(x):
        return lit(x)
    d = a["data"]
    ds = "None" if d is None else ("(" + "".join(r(x) + "," for x in d) + ")" if isinstance(d, tuple) else r(d))
    kw = "extra_coords_names=%r" % (a["xnames"],)
    if a["dims"] is not None:
        kw += ", dims=%r" % (tuple(a["dims"]),)
    return ("import verde, numpy as np; g = verde.make_xarray_grid((%s), %s, %r, %s); %s"
            % ("".join(r(x) + "," for x in (a["ce"], a["cn"], *a["extras"])), ds, a["dnames"], kw, tail))


def case_make(vd, a, kind, stream_key):
    res = run(lambda: call_make(vd, a))
    if res[0] == "ok":
        r2 = run(lambda: cdataset(res[1]))
        obs = "(Some %s)" % r2[1] if r2[0] == "ok" else BOGUS_DS
        out = ["ok", jds(res[1])]
    elif res[0] == "ValueError":
        obs, out = "None", list(res)
    else:
        obs, out = BOGUS_DS, list(res)
    term = "c18_make %s %s" % (make_term_args(a), obs)
    cells = int(np.asarray(a["cn"]).shape[0]) * int(np.asarray(a["ce"]).shape[-1]) if res[0] == "ok" else 0
    return Case({"stream": stream_key, "args": jargs(a)}, out, term, repro_make(a, "print(g)"), kind,
                nontrivial=(res[0] == "ok" and cells >= 2))


def case_round(vd, a, kind, stream_key):
    res = run(lambda: vd.grid_to_table(call_make(vd, a)))
    if res[0] == "ok":
        obs, out = "(Some %s)" % ctable(res[1]), ["ok", jtable(res[1])]
    elif res[0] == "ValueError":
        obs, out = "None", list(res)
    else:
        obs, out = BOGUS_TABLE, list(res)
    term = "c18_round %s %s" % (make_term_args(a), obs)
    return Case({"stream": stream_key, "args": jargs(a)}, out, term, repro_make(a, "print(verde.grid_to_table(g))"), kind,
                nontrivial=(res[0] == "ok" and len(res[1]) >= 2))


def case_table(vd, g, kind, stream_key, recipe):
    """g: an xarray Dataset or DataArray; recipe: python source building it (for the replay)"""
    gin = run(lambda: cgrid(g))
    if gin[0] != "ok":
        raise RuntimeError("generator built an unsupported grid: %r" % (gin,))
    res = run(lambda: vd.grid_to_table(g))
    if res[0] == "ok":
        obs, out = "(Some %s)" % ctable(res[1]), ["ok", jtable(res[1])]
    elif res[0] == "ValueError":
        obs, out = "None", list(res)
    else:
        obs, out = BOGUS_TABLE, list(res)
    term = "c18_table %s %s" % (gin[1], obs)
    inp = {"stream": stream_key, "grid": (jds(g) if hasattr(g, "data_vars") else
                                          {"name": g.name, "dims": list(g.dims), "values": jarr(g.values),
                                           "coords": {str(k): [list(map(str, g.coords[k].dims)), jarr(g.coords[k].values)] for k in g.coords.keys()}})}
    repro = "import verde, numpy as np, xarray as xr; %s; print(verde.grid_to_table(g))" % recipe
    return Case(inp, out, term, repro, kind, nontrivial=(res[0] == "ok" and len(res[1]) >= 2))


# ---------------------------------------------------------------------------
# direct xarray construction for grid_to_table
# ---------------------------------------------------------------------------
def lit(x):
    x = np.asarray(x)
    return ("np.array(%r, dtype=%r)" % (x.tolist(), str(x.dtype))).replace("nan", "np.nan")


def direct_grid(rnd, nn, ne, nd, nx, dims, perm, mode, transposed=(), as_int=False, nan=None, dtypes=False):
    """build (grid, recipe).  mode: 'dataset' | 'named' | 'unnamed' | 'member'.
    perm: order in which the coordinates [d0, d1, extras...] are declared.
    transposed: set of ("data", k) / ("extra", k) stored as (d1, d0); "T": the DataArray itself is transposed."""
    import xarray as xr
    d0, d1 = dims
    e, n = axes(rnd, nn, ne)
    if as_int:
        e = np.array(rnd.sample(range(-50, 50), ne))
        n = np.array(rnd.sample(range(100, 200), nn))
    xnames = rnd.sample(XNAMES, nx)
    dnames = rnd.sample(DNAMES, nd)
    xs = [field(rnd, nn, ne, 5000.0 * (k + 1)) for k in range(nx)]
    arrs = [field(rnd, nn, ne, 100.0 * (k + 1)) for k in range(nd)]
    if as_int:
        arrs = [a.astype(int) for a in arrs]
    elif nan:
        nanify(rnd, arrs if mode in ("dataset", "member") else arrs[:1], xs, nan)
    elif dtypes:
        mixed_dtypes(rnd, arrs, xs)
    decl = [(d0, "idx", n), (d1, "idx", e)] + [(xnames[k], ("extra", k), xs[k]) for k in range(nx)]
    decl = [decl[i] for i in perm]
    coords, csrc = {}, []
    for name, what, val in decl:
        if what == "idx":
            coords[name] = val
            csrc.append("%r: %s" % (name, lit(val)))
        elif what in transposed:
            coords[name] = ((d1, d0), val.T)
            csrc.append("%r: (%r, %s)" % (name, (d1, d0), lit(val.T)))
        else:
            coords[name] = ((d0, d1), val)
            csrc.append("%r: (%r, %s)" % (name, (d0, d1), lit(val)))
    csrc = "{" + ", ".join(csrc) + "}"
    if mode in ("dataset", "member"):
        dv, dsrc = {}, []
        for k, (name, a) in enumerate(zip(dnames, arrs)):
            if ("data", k) in transposed:
                dv[name] = ((d1, d0), a.T)
                dsrc.append("%r: (%r, %s)" % (name, (d1, d0), lit(a.T)))
            else:
                dv[name] = ((d0, d1), a)
                dsrc.append("%r: (%r, %s)" % (name, (d0, d1), lit(a)))
        g = xr.Dataset(dv, coords=coords)
        recipe = "g = xr.Dataset({%s}, coords=%s)" % (", ".join(dsrc), csrc)
        if mode == "member":
            pick = dnames[rnd.randrange(nd)]
            g = g[pick]
            recipe += "[%r]" % pick
    else:
        name = dnames[0] if mode == "named" else None
        g = xr.DataArray(arrs[0], coords=coords, dims=(d0, d1), name=name)
        recipe = "g = xr.DataArray(%s, coords=%s, dims=%r, name=%r)" % (lit(arrs[0]), csrc, (d0, d1), name)
        if "T" in transposed:
            g = g.T
            recipe += ".T"
    return g, recipe


def coords_first_grid(vd, rnd, nn, ne, nd, nx, dims, how, transposed=(), nan=None, dtypes=False):
    """a Dataset assembled coordinates-first, so that the Dataset-level dimension order is (d1, d0) while every
    variable is declared (d0, d1).  how: 'make-none' (make_xarray_grid(data=None) then item assignment) |
    'to_dataset' (a member DataArray of a complete grid turned back into a Dataset, other variables re-assigned) |
    'xr-coords' (xr.Dataset(coords=...) with d1 declared first, then .assign).  transposed: ("data", k>=1) /
    ("extra", k) stored as (d1, d0).  returns (grid, recipe)"""
    import xarray as xr
    d0, d1 = dims
    e, n = axes(rnd, nn, ne)
    xnames = rnd.sample(XNAMES, nx)
    dnames = rnd.sample(DNAMES, nd)
    xs = [field(rnd, nn, ne, 5000.0 * (k + 1)) for k in range(nx)]
    arrs = [field(rnd, nn, ne, 100.0 * (k + 1)) for k in range(nd)]
    if nan:
        nanify(rnd, arrs, xs, nan)
    if dtypes:
        mixed_dtypes(rnd, arrs, xs)

    def var(k):
        if ("data", k) in transposed:
            return ((d1, d0), arrs[k].T), "(%r, %s)" % ((d1, d0), lit(arrs[k].T))
        return ((d0, d1), arrs[k]), "(%r, %s)" % ((d0, d1), lit(arrs[k]))

    if how == "xr-coords":
        coords, csrc = {d1: e, d0: n}, ["%r: %s" % (d1, lit(e)), "%r: %s" % (d0, lit(n))]
        for k in range(nx):
            if ("extra", k) in transposed:
                coords[xnames[k]] = ((d1, d0), xs[k].T)
                csrc.append("%r: (%r, %s)" % (xnames[k], (d1, d0), lit(xs[k].T)))
            else:
                coords[xnames[k]] = ((d0, d1), xs[k])
                csrc.append("%r: (%r, %s)" % (xnames[k], (d0, d1), lit(xs[k])))
        g = xr.Dataset(coords=coords)
        recipe = "g = xr.Dataset(coords={%s})" % ", ".join(csrc)
        for k in range(nd):
            v, vs = var(k)
            g = g.assign({dnames[k]: v})
            recipe += "; g = g.assign({%r: %s})" % (dnames[k], vs)
        return g, recipe
    E, N = np.meshgrid(e, n)
    call = "verde.make_xarray_grid((%s), %%s, %%s, dims=%r, extra_coords_names=%r)" % (
        "".join(lit(a) + "," for a in (E, N, *xs)), (d0, d1), xnames or None)
    if how == "make-none":
        g = vd.make_xarray_grid((E, N, *xs), None, None, dims=(d0, d1), extra_coords_names=xnames or None)
        recipe = "g = " + call % ("None", "None")
        first = 0
    else:
        g = vd.make_xarray_grid((E, N, *xs), arrs[0], dnames[0], dims=(d0, d1), extra_coords_names=xnames or None)
        g = g[dnames[0]].to_dataset()
        recipe = "g = " + call % (lit(arrs[0]), repr(dnames[0])) + "[%r].to_dataset()" % dnames[0]
        first = 1
    for k in range(first, nd):
        v, vs = var(k) if k > 0 else (((d0, d1), arrs[0]), "(%r, %s)" % ((d0, d1), lit(arrs[0])))
        g[dnames[k]] = v
        recipe += "; g[%r] = %s" % (dnames[k], vs)
    return g, recipe


def case_round_coords_first(vd, a, kind, stream_key):
    """arrays -> make_xarray_grid(data=None) -> variables assigned one by one -> grid_to_table, against the raveled inputs"""
    dims = a["dims"] if a["dims"] is not None else DEFAULT_DIMS
    data = a["data"] if isinstance(a["data"], tuple) else (a["data"],)
    names = [a["dnames"]] if isinstance(a["dnames"], str) else list(a["dnames"])

    def go():
        b = dict(a, data=None, dnames=None)
        g = call_make(vd, b)
        for nm, arr in zip(names, data):
            g[nm] = (tuple(dims), arr)
        return vd.grid_to_table(g)
    res = run(go)
    if res[0] == "ok":
        obs, out = "(Some %s)" % ctable(res[1]), ["ok", jtable(res[1])]
    elif res[0] == "ValueError":
        obs, out = "None", list(res)
    else:
        obs, out = BOGUS_TABLE, list(res)
    term = "c18_round %s %s" % (make_term_args(a), obs)
    tail = "".join("g[%r] = (%r, %s); " % (nm, tuple(dims), lit(arr)) for nm, arr in zip(names, data)) + "print(verde.grid_to_table(g))"
    return Case({"stream": stream_key, "args": jargs(a), "assembly": "make_xarray_grid(data=None) then item assignment"}, out, term,
                repro_make(dict(a, data=None, dnames=None), tail), kind, nontrivial=(res[0] == "ok" and len(res[1]) >= 2))


# ---------------------------------------------------------------------------
# meshgrid conversions
# ---------------------------------------------------------------------------
def opt_pair(res, f):
    if res[0] == "ok":
        return "(Some (%s, %s))" % (f(res[1][0]), f(res[1][1]))
    if res[0] == "ValueError":
        return "None"
    return None


def case_from_to(vd, e, n, extras, kind, stream_key):
    def passthrough(out):
        if len(out) != 2 + len(extras) or not all(np.array_equal(a, b, equal_nan=True) for a, b in zip(out[2:], extras)):
            raise RuntimeError("extra coordinates modified")
        return out
    r1 = run(lambda: passthrough(vd.utils.meshgrid_from_1d((e, n, *extras))))
    o1 = opt_pair(r1, carr)
    if r1[0] == "ok":
        r2 = run(lambda: passthrough(vd.utils.meshgrid_to_1d(r1[1])))
        o2 = opt_pair(r2, cvec)
    else:
        r2, o2 = ("skipped",), "None"
    if o1 is None:
        o1 = BOGUS_MESH
    if o2 is None:
        o2 = BOGUS_VECS
    term = "c18_from_to %s %s %s %s %s" % (cvec(e), cvec(n), clist([carr(x) for x in extras]), o1, o2)
    out = [r1[0], [jarr(x) for x in r1[1][:2]] if r1[0] == "ok" else r1[1:], r2[0], [jarr(x) for x in r2[1][:2]] if r2[0] == "ok" else r2[1:]]
    repro = ("import verde, numpy as np; c = verde.utils.meshgrid_from_1d((%s)); print(c); print(verde.utils.meshgrid_to_1d(c))"
             % "".join(lit(np.asarray(x, dtype=float)) + "," for x in (e, n, *extras)))
    return Case({"stream": stream_key, "easting": jarr(e), "northing": jarr(n), "extra_coords": [jarr(x) for x in extras]},
                out, term, repro, kind, nontrivial=(r1[0] == "ok" and len(e) * len(n) >= 2))


def case_to_from(vd, E, N, extras, kind, stream_key):
    r1 = run(lambda: vd.utils.meshgrid_to_1d((E, N, *extras)))
    o1 = opt_pair(r1, cvec)
    if r1[0] == "ok":
        r2 = run(lambda: vd.utils.meshgrid_from_1d(r1[1]))
        o2 = opt_pair(r2, carr)
    else:
        r2, o2 = ("skipped",), "None"
    if o1 is None:
        o1 = BOGUS_VECS
    if o2 is None:
        o2 = BOGUS_MESH
    term = "c18_to_from %s %s %s %s %s" % (carr(E), carr(N), clist([carr(x) for x in extras]), o1, o2)
    out = [r1[0], [jarr(x) for x in r1[1][:2]] if r1[0] == "ok" else r1[1:], r2[0], [jarr(x) for x in r2[1][:2]] if r2[0] == "ok" else r2[1:]]
    repro = ("import verde, numpy as np; c = verde.utils.meshgrid_to_1d((%s)); print(c); print(verde.utils.meshgrid_from_1d(c))"
             % "".join(lit(np.asarray(x, dtype=float)) + "," for x in (E, N, *extras)))
    return Case({"stream": stream_key, "easting": jarr(E), "northing": jarr(N), "extra_coords": [jarr(x) for x in extras]},
                out, term, repro, kind, nontrivial=(r1[0] == "ok" and E.size >= 2))


# ---------------------------------------------------------------------------
# perturbations
# ---------------------------------------------------------------------------
def perturb(rnd, a, where, big):
    """change one entry of the 2-D array a (in place) by a relative 1e-10 (small) or >= 1e-3 (big)"""
    i, j = where
    x = a[i, j]
    if big:
        a[i, j] = x + rnd.choice([-1, 1]) * (abs(x) * rnd.choice([1e-3, 0.5, 3.0]) + rnd.choice([1e-3, 0.125, 7.0]))
    else:
        a[i, j] = x + rnd.choice([-1, 1]) * (abs(x) * 1e-10 + 1e-10)


# ---------------------------------------------------------------------------
def generate(tier, seed, mixed=True):
    import verde as vd
    rnd = random.Random(seed)
    quick = tier == "quick"
    cases = []
    R = 4 if quick else 6
    shapes = [(nn, ne) for nn in range(1, R + 1) for ne in range(1, R + 1)]
    big = [(nn, ne) for nn in range(1, 9) for ne in range(1, 10) if nn > R or ne > R]

    # 1. make_xarray_grid: every configuration, 1-D and 2-D input
    k = 0
    for (nn, ne) in shapes:
        for nd in range(0, 5):
            for nx in range(0, 4):
                for two_d in (False, True):
                    if quick and ((nd == 0 and nx > 1) or (nn + ne + nd + nx) % 2 != int(two_d)):
                        continue        # quick: the 1-D / 2-D styles alternate over the configuration lattice
                    k += 1
                    a = build(rnd, nn, ne, nd, nx, two_d, dims=DIMS[k % len(DIMS)])
                    cases.append(case_make(vd, a, "make-2d" if two_d else "make-1d", "make"))
    # round trips on a sub-lattice of the configurations (all shapes, nd >= 1)
    for (nn, ne) in shapes:
        for nd in range(1, 5):
            for nx in range(0, 4):
                if quick and (nd + nx) % 2 == 1:
                    continue
                k += 1
                two_d = bool(k % 2)
                a = build(rnd, nn, ne, nd, nx, two_d, dims=DIMS[k % len(DIMS)])
                cases.append(case_round(vd, a, "round-2d" if two_d else "round-1d", "round"))

    # 2. meshgrids perturbed inside the tolerance (accepted) - make and round
    for it in range(60 if quick else 400):
        nn, ne = rnd.choice([s for s in shapes if s != (1, 1)])
        a = build(rnd, nn, ne, rnd.randint(1, 3), rnd.randint(0, 2), True, dims=rnd.choice(DIMS))
        for _ in range(rnd.randint(1, 3)):
            tgt = a["ce"] if rnd.random() < 0.5 else a["cn"]
            perturb(rnd, tgt, (rnd.randrange(nn), rnd.randrange(ne)), big=False)
        if it % 3 == 0:
            cases.append(case_round(vd, a, "round-approx", "round"))
        else:
            cases.append(case_make(vd, a, "make-approx", "make"))

    # 3. malformed inputs, one fault each
    faults = ["E-row", "E-row0", "N-col", "N-col0", "swapped", "transposed", "mixed-e", "mixed-n", "N-shape", "X-shape",
              "D-shape-2d", "D-shape-1d", "X-shape-1d", "D-transposed-1d", "names-more", "names-fewer", "names-none", "names-str",
              "xnames-more", "xnames-fewer", "xnames-none", "xnames-str",
              "names-str-len", "names-str-len", "names-str-otherlen", "xnames-str-len", "xnames-str-otherlen"]
    for it in range((4 if quick else 40) * len(faults)):
        f = faults[it % len(faults)]
        nn, ne = rnd.choice([s for s in shapes if s[0] >= 2 and s[1] >= 2 and s[0] != s[1]])
        two_d = f not in ("D-shape-1d", "X-shape-1d", "D-transposed-1d") and (rnd.random() < 0.7 or f in (
            "E-row", "E-row0", "N-col", "N-col0", "swapped", "transposed", "mixed-e", "mixed-n", "N-shape", "X-shape", "D-shape-2d"))
        nd = rnd.randint(1, 3)
        nx = rnd.randint(0, 2)
        if f.startswith("X-") or f.startswith("xnames"):
            nx = rnd.randint(1, 3)
        if f in ("names-str", "names-str-len", "names-str-otherlen"):
            nd = rnd.randint(2, 4)
        if f in ("xnames-str", "xnames-str-len", "xnames-str-otherlen"):
            nx = rnd.randint(2, 3)
        a = build(rnd, nn, ne, nd, nx, two_d, dims=rnd.choice(DIMS))
        if isinstance(a["data"], np.ndarray) and (f.startswith("D-") or f.startswith("names")):
            a["data"] = (a["data"],)
        if isinstance(a["dnames"], str):
            a["dnames"] = [a["dnames"]]
        if isinstance(a["xnames"], str):
            a["xnames"] = [a["xnames"]]
        if it % 2 and not f.startswith("names-str") and not f.startswith("xnames-str"):
            a["dnames"] = tuple(a["dnames"])      # names as list and as tuple
            if a["xnames"] is not None:
                a["xnames"] = tuple(a["xnames"])
        if f == "E-row":
            perturb(rnd, a["ce"], (rnd.randrange(1, nn), rnd.randrange(ne)), big=True)
        elif f == "E-row0":
            perturb(rnd, a["ce"], (0, rnd.randrange(ne)), big=True)
        elif f == "N-col":
            perturb(rnd, a["cn"], (rnd.randrange(nn), rnd.randrange(1, ne)), big=True)
        elif f == "N-col0":
            perturb(rnd, a["cn"], (rnd.randrange(nn), 0), big=True)
        elif f == "swapped":
            a["ce"], a["cn"] = a["cn"], a["ce"]
        elif f == "transposed":
            a["ce"], a["cn"] = a["ce"].T.copy(), a["cn"].T.copy()
            a["extras"] = [x.T.copy() for x in a["extras"]]
            a["data"] = tuple(x.T.copy() for x in a["data"]) if isinstance(a["data"], tuple) else a["data"].T.copy()
        elif f == "mixed-e":
            a["ce"] = a["ce"][0, :].copy()
        elif f == "mixed-n":
            a["cn"] = a["cn"][:, 0].copy()
        elif f == "N-shape":
            a["cn"] = a["cn"][:, :-1].copy() if rnd.random() < 0.5 else a["cn"][:-1, :].copy()
        elif f in ("X-shape", "X-shape-1d"):
            i = rnd.randrange(nx)
            a["extras"][i] = rnd.choice([a["extras"][i][:-1, :], a["extras"][i][:, :-1], a["extras"][i].T]).copy()
        elif f in ("D-shape-2d", "D-shape-1d"):
            d = list(a["data"])
            i = rnd.randrange(len(d))
            d[i] = rnd.choice([d[i][:-1, :], d[i][:, :-1], d[i].T]).copy()
            a["data"] = tuple(d)
        elif f == "D-transposed-1d":
            a["data"] = tuple(x.T.copy() for x in a["data"])
        elif f == "names-more":
            a["dnames"] = list(a["dnames"]) + ["surplus"]
        elif f == "names-fewer":
            a["dnames"] = list(a["dnames"])[:-1]
        elif f == "names-none":
            a["dnames"] = None
        elif f == "names-str":
            a["dnames"] = a["dnames"][0]
        elif f == "xnames-more":
            a["xnames"] = list(a["xnames"]) + ["surplus"]
        elif f == "xnames-fewer":
            a["xnames"] = list(a["xnames"])[:-1]
        elif f == "xnames-none":
            a["xnames"] = None
        elif f in ("names-str-len", "names-str-otherlen"):
            # one string whose LENGTH is (is not) the number of arrays: still one name for nd >= 2 arrays
            n_chars = nd if f == "names-str-len" else rnd.choice([c for c in (1, 2, 3, 4, 5, 6) if c != nd])
            a["dnames"] = "".join(rnd.sample("uvwxyzabc", n_chars))
        elif f in ("xnames-str-len", "xnames-str-otherlen"):
            n_chars = nx if f == "xnames-str-len" else rnd.choice([c for c in (1, 2, 3, 4, 5) if c != nx])
            a["xnames"] = "".join(rnd.sample("pqrstklm", n_chars))
        elif f == "xnames-str":
            a["xnames"] = a["xnames"][0]
        cases.append(case_make(vd, a, "reject-" + f, "make"))

    # 3a. names given as str / list / tuple for 1..4 arrays: accepted exactly when the count matches, a str being ONE name
    k = 0
    for nd in range(1, 5):
        for nx in range(0, 4):
            for style in ("str1", "strN", "list", "tuple", "list-short", "tuple-long"):
                for who in ("data", "extra"):
                    count = nd if who == "data" else nx
                    if count == 0:
                        continue
                    k += 1
                    if quick and k % 4 in (1, 2):
                        continue
                    nn, ne = rnd.choice([s for s in shapes if s[0] * s[1] >= 2])
                    a = build(rnd, nn, ne, nd, nx, bool(k % 2), dims=DIMS[k % len(DIMS)])
                    if isinstance(a["data"], np.ndarray):
                        a["data"] = (a["data"],)
                    alphabet = "uvwxyzabc" if who == "data" else "pqrstklm"
                    if style == "str1":
                        nm = rnd.choice(alphabet)                        # a one-character name: valid iff count == 1
                    elif style == "strN":
                        nm = "".join(rnd.sample(alphabet, max(count, 2)))   # as many characters as arrays: ONE name
                    else:
                        m = count + (-1 if style == "list-short" else 1 if style == "tuple-long" else 0)
                        names = ["%s%d" % (rnd.choice(alphabet), i) for i in range(m)]
                        nm = names if style.startswith("list") else tuple(names)
                    a["dnames" if who == "data" else "xnames"] = nm
                    cases.append(case_make(vd, a, "names-%s-%s" % (who, style), "make"))

    # 3b. single-row / single-column 2-D coordinates: non-meshgrids (the other axis has nothing to compare) and genuine controls
    line_shapes = [(1, k) for k in range(2, R + 3)] + [(k, 1) for k in range(2, R + 3)]
    reps = 2 if quick else 12
    for (nn, ne) in line_shapes * reps:
        for what in ("control", "fault", "fault-both"):
            a = build(rnd, nn, ne, rnd.randint(1, 3), rnd.randint(0, 2), True, dims=rnd.choice(DIMS))
            if what != "control":
                if nn == 1:     # a profile given as (1, n) arrays: northing varies along the single row
                    js = rnd.sample(range(1, ne), 1 if what == "fault" else ne - 1)
                    for j in js:
                        perturb(rnd, a["cn"], (0, j), big=True)
                    if what == "fault-both" and rnd.random() < 0.5:
                        a["ce"][0, :] = a["ce"][0, 0]       # easting constant along the line: a "vertical" profile
                else:           # an (n, 1) column whose easting varies
                    iis = rnd.sample(range(1, nn), 1 if what == "fault" else nn - 1)
                    for i in iis:
                        perturb(rnd, a["ce"], (i, 0), big=True)
                    if what == "fault-both" and rnd.random() < 0.5:
                        a["cn"][:, 0] = a["cn"][0, 0]
            tag = ("row" if nn == 1 else "col")
            kind = ("control-single-" + tag) if what == "control" else ("reject-single-%s-%s" % (tag, "N-varies" if nn == 1 else "E-varies"))
            pick = rnd.randrange(3)
            if pick == 0:
                cases.append(case_make(vd, a, kind, "make"))
            elif pick == 1:
                cases.append(case_round(vd, a, kind, "round"))
            else:
                cases.append(case_to_from(vd, np.asarray(a["ce"]), np.asarray(a["cn"]), a["extras"], kind, "to_from"))

    # 3b'. coordinates of very different magnitudes (ratio 1e3 .. 1e7, either way round): allclose's tolerance is per
    #      element, relative to THAT coordinate - one node of the small coordinate displaced by 100x its own tolerance
    #      (atol + rtol * |value|), which is far below 1e-5 times the other coordinate, is not a meshgrid; displaced by
    #      1/100 of its own tolerance it is accepted
    sc_shapes = [s for s in shapes if s[0] >= 2 and s[1] >= 2]
    for it in range(48 if quick else 600):
        nn, ne = rnd.choice(sc_shapes)
        ratio = 10.0 ** rnd.choice([3, 4, 5, 6, 7])
        small_scale = rnd.choice([1.0, 30.0, 1000.0])
        big_scale = small_scale * ratio
        small_is_east = bool(it % 2)
        ns, nb = (ne, nn) if small_is_east else (nn, ne)
        small = [small_scale * x / 32.0 for x in rnd.sample(range(-32, 33), ns)]   # may contain 0: its tolerance is atol alone
        large = [big_scale * (1 + x / 64.0) * rnd.choice([-1, 1]) for x in rnd.sample(range(0, 64), nb)]
        e2, n2 = (small, large) if small_is_east else (large, small)
        a = build(rnd, nn, ne, rnd.randint(1, 2), rnd.randint(0, 1), True, dims=rnd.choice(DIMS))
        E, N = np.meshgrid(np.array(e2), np.array(n2))
        a["ce"], a["cn"] = E.copy(), N.copy()
        tgt = a["ce"] if small_is_east else a["cn"]
        i, j = rnd.randrange(nn), rnd.randrange(ne)
        own_tol = 1e-8 + 1e-5 * abs(tgt[i, j])
        reject = (it // 2) % 3 != 2
        delta = (100.0 if reject else 0.01) * own_tol * rnd.choice([-1, 1])
        tgt[i, j] = tgt[i, j] + delta
        kind = ("reject-scale-" if reject else "make-scale-approx-") + ("smallE" if small_is_east else "smallN")
        pick = it % 3 if reject else (it // 6) % 3
        if pick == 0:
            cases.append(case_make(vd, a, kind, "make"))
        elif pick == 1:
            cases.append(case_to_from(vd, np.asarray(a["ce"]), np.asarray(a["cn"]), a["extras"], kind, "to_from"))
        else:
            cases.append(case_round(vd, a, kind, "round"))

    # 3c. Datasets assembled coordinates-first: Dataset-level dims are (d1, d0), the variables' (d0, d1)
    hows = ["make-none", "to_dataset", "xr-coords"]
    k = 0
    for (nn, ne) in shapes + ([] if quick else big[::3]):
        for nx in range(1, 4):
            for how in hows:
                if quick and (nn + ne + nx + hows.index(how)) % 2:
                    continue
                k += 1
                nd = rnd.randint(1, 4)
                tr = set()
                if k % 4 == 0 and nd >= 2:
                    tr.add(("data", rnd.randrange(1, nd)))
                if k % 4 == 2 and how == "xr-coords":
                    tr.add(("extra", rnd.randrange(nx)))
                g, recipe = coords_first_grid(vd, rnd, nn, ne, nd, nx, DIMS[1 + k % (len(DIMS) - 1)], how, transposed=tr)
                rev = tuple(g.dims) != tuple(g[list(g.data_vars)[0]].dims)    # observed, not assumed
                cases.append(case_table(vd, g, "table-coords-first" + ("" if rev else "-dimsorder") + ("-mixed" if tr else ""),
                                        "table-coords-first", recipe))
        for nd in (1, 3):
            for nx in (1, 2):
                k += 1
                a = build(rnd, nn, ne, nd, nx, bool(k % 2), dims=DIMS[k % len(DIMS)])
                if isinstance(a["data"], np.ndarray):
                    a["data"] = (a["data"],)
                cases.append(case_round_coords_first(vd, a, "round-coords-first", "round-coords-first"))

    # 4. grid_to_table on grids built directly with xarray
    tcount = 0
    for (nn, ne) in shapes:
        for nx in range(0, 3 if quick else 4):
            perms = list(itertools.permutations(range(2 + nx)))
            if quick and len(perms) > 6:
                perms = rnd.sample(perms, 6)
            elif len(perms) > 24:
                perms = rnd.sample(perms, 24)
            for perm in perms:
                tcount += 1
                mode = ["dataset", "named", "unnamed", "member"][tcount % 4]
                nd = rnd.randint(1, 4) if mode in ("dataset", "member") else 1
                dims = DIMS[1 + tcount % (len(DIMS) - 1)]
                # .T transposes the DataArray together with its 2-D coordinates: a consistent (d1, d0) grid
                tr = {"T"} if mode in ("named", "unnamed") and tcount % 5 == 0 else ()
                g, recipe = direct_grid(rnd, nn, ne, nd, nx, dims, perm, mode, transposed=tr, as_int=(tcount % 11 == 0))
                cases.append(case_table(vd, g, "table-" + mode + ("-T" if tr else ""), "table", recipe))

    # 4b. DataArray inputs (named, unnamed, member of a Dataset) with the index coordinates declared in dims order and
    #     reversed, extra coordinates declared before / between / after them, on non-square (and a few square) grids
    da_shapes = [s for s in shapes if s[0] != s[1]] + [s for s in shapes if s[0] == s[1] and s[0] > 1][:2]
    if not quick:
        da_shapes += [s for s in big[::5] if s[0] != s[1]]
    k = 0
    for (nn, ne) in da_shapes:
        for mode in ("named", "unnamed", "member"):
            for first in ("d0", "d1"):
                for nx, place in ((0, "none"), (1, "before"), (1, "after"), (2, "between"), (2, "before"), (2, "after")):
                    k += 1
                    if quick and (k + nn) % 4:
                        continue
                    idx = [0, 1] if first == "d0" else [1, 0]
                    ex = list(range(2, 2 + nx))
                    if place == "before":
                        perm = ex + idx
                    elif place == "between":
                        perm = [idx[0], ex[0], idx[1], ex[1]] if k % 2 else [ex[0], idx[0], ex[1], idx[1]]
                    else:
                        perm = idx + ex
                    nd = rnd.randint(1, 3) if mode == "member" else 1
                    g, recipe = direct_grid(rnd, nn, ne, nd, nx, DIMS[1 + k % (len(DIMS) - 1)], perm, mode)
                    cases.append(case_table(vd, g, "table-da-%s-%sfirst" % (mode, first), "table-da-decl", recipe))

    # 5. meshgrid conversions
    for it in range(90 if quick else 1000):
        nn, ne = rnd.choice(shapes)
        e, n = axes(rnd, nn, ne)
        nx = rnd.randint(0, 2)
        extras = [field(rnd, nn, ne, 5000.0 * (k + 1)) for k in range(nx)]
        r = it % 6
        if r in (0, 1):
            cases.append(case_from_to(vd, e, n, extras, "mesh-from-to", "from_to"))
        elif r == 2:
            if nn == ne or nx == 0:
                extras = extras + [field(rnd, nn + 1, ne, 9000.0)]
            else:
                extras[-1] = extras[-1].T.copy()
            cases.append(case_from_to(vd, e, n, extras, "mesh-from-to-reject", "from_to"))
        else:
            E, N = np.meshgrid(e, n)
            E, N = E.copy(), N.copy()
            kind = "mesh-to-from"
            if r == 4 and nn * ne > 1:
                perturb(rnd, E if rnd.random() < 0.5 else N, (rnd.randrange(nn), rnd.randrange(ne)), big=False)
                kind = "mesh-to-from-approx"
            if r == 5 and nn >= 2 and ne >= 2:
                if rnd.random() < 0.5:
                    perturb(rnd, E, (rnd.randrange(nn), rnd.randrange(ne)), big=True)
                else:
                    perturb(rnd, N, (rnd.randrange(nn), rnd.randrange(ne)), big=True)
                kind = "mesh-to-from-reject"
            cases.append(case_to_from(vd, E, N, extras, kind, "to_from"))

    # 5b. larger random grids (up to 8 x 9), all call styles
    for it in range(40 if quick else 800):
        nn, ne = rnd.choice(big)
        r = it % 5
        if r in (0, 1):
            a = build(rnd, nn, ne, rnd.randint(0, 4), rnd.randint(0, 3), bool(r), dims=rnd.choice(DIMS))
            cases.append(case_make(vd, a, "make-large", "make"))
        elif r == 2:
            a = build(rnd, nn, ne, rnd.randint(1, 4), rnd.randint(0, 3), rnd.random() < 0.5, dims=rnd.choice(DIMS))
            cases.append(case_round(vd, a, "round-large", "round"))
        else:
            nx = rnd.randint(0, 3)
            perm = list(range(2 + nx))
            rnd.shuffle(perm)
            mode = rnd.choice(["dataset", "named", "unnamed", "member"])
            nd = rnd.randint(1, 4) if mode in ("dataset", "member") else 1
            g, recipe = direct_grid(rnd, nn, ne, nd, nx, rnd.choice(DIMS[1:]), perm, mode)
            cases.append(case_table(vd, g, "table-large", "table", recipe))

    # 5c. NaN-valued cells (masked grids): one row per cell, NaN preserved in place
    k = 0
    for (nn, ne) in shapes * (1 if quick else 3) + ([] if quick else big[::2]):
        for pattern in NAN_PATTERNS:
            k += 1
            if quick and (nn * ne == 1 or (k + nn) % 2):
                continue
            nx = rnd.randint(0, 3)
            r = k % 5
            if r == 0:
                a = build(rnd, nn, ne, rnd.randint(1, 4), nx, bool(k % 2), dims=DIMS[k % len(DIMS)], nan=pattern)
                cases.append(case_make(vd, a, "make-nan", "make"))
            elif r == 1:
                a = build(rnd, nn, ne, rnd.randint(1, 4), nx, bool(k % 3), dims=DIMS[k % len(DIMS)], nan=pattern)
                cases.append(case_round(vd, a, "round-nan", "round"))
            elif r in (2, 3):
                perm = list(range(2 + nx))
                rnd.shuffle(perm)
                mode = ["dataset", "named", "unnamed", "member"][(k // 5) % 4]
                nd = rnd.randint(1, 4) if mode in ("dataset", "member") else 1
                tr = set()
                if r == 3 and mode == "dataset" and nd >= 2 and nn >= 2 and ne >= 2:
                    tr.add(("data", rnd.randrange(1, nd)))
                g, recipe = direct_grid(rnd, nn, ne, nd, nx, DIMS[1 + k % (len(DIMS) - 1)], perm, mode, transposed=tr, nan=pattern)
                cases.append(case_table(vd, g, "table-nan-" + mode, "table-nan", recipe))
            else:
                g, recipe = coords_first_grid(vd, rnd, nn, ne, rnd.randint(1, 3), max(nx, 1), DIMS[1 + k % (len(DIMS) - 1)],
                                              hows[k % 3], nan=pattern)
                cases.append(case_table(vd, g, "table-nan-coords-first", "table-nan", recipe))
    # NaN inside 2-D coordinates: allclose is False, so never a meshgrid
    for it in range(8 if quick else 60):
        nn, ne = rnd.choice(shapes)
        a = build(rnd, nn, ne, rnd.randint(1, 2), rnd.randint(0, 1), True, dims=rnd.choice(DIMS))
        (a["ce"] if it % 2 else a["cn"])[rnd.randrange(nn), rnd.randrange(ne)] = np.nan
        if it % 3 == 0:
            cases.append(case_to_from(vd, np.asarray(a["ce"]), np.asarray(a["cn"]), a["extras"], "reject-nan-coordinate", "to_from"))
        else:
            cases.append(case_make(vd, a, "reject-nan-coordinate", "make"))

    # 5d. variables and extra coordinates of different dtypes (float64 next to 64-bit integers beyond 2**53, float32,
    #     int32, bool): every value must come through exactly, whatever common dtype a shortcut would promote to
    k = 0
    for (nn, ne) in shapes * (1 if quick else 3) + ([] if quick else big[::3]):
        for variant in range(6):
            k += 1
            if quick and (k + nn) % 2:
                continue
            nx = rnd.randint(0, 2)
            if variant == 0:
                a = build(rnd, nn, ne, rnd.randint(2, 4), nx, bool(k % 2), dims=DIMS[k % len(DIMS)], dtypes=True)
                cases.append(case_round(vd, a, "round-dtypes", "round"))
            elif variant == 1:
                a = build(rnd, nn, ne, rnd.randint(1, 4), nx, bool(k % 2), dims=DIMS[k % len(DIMS)], dtypes=True)
                cases.append(case_make(vd, a, "make-dtypes", "make"))
            elif variant in (2, 3, 4):
                perm = list(range(2 + nx))
                rnd.shuffle(perm)
                mode = ["dataset", "dataset", "member", "named", "unnamed"][k % 5]
                nd = rnd.randint(2, 4) if mode in ("dataset", "member") else 1
                tr = set()
                if variant == 4 and mode == "dataset" and nn >= 2 and ne >= 2:
                    tr.add(("data", rnd.randrange(1, nd)))
                g, recipe = direct_grid(rnd, nn, ne, nd, nx, DIMS[1 + k % (len(DIMS) - 1)], perm, mode, transposed=tr, dtypes=True)
                cases.append(case_table(vd, g, "table-dtypes-" + mode, "table-dtypes", recipe))
            else:
                g, recipe = coords_first_grid(vd, rnd, nn, ne, rnd.randint(2, 3), max(nx, 1), DIMS[1 + k % (len(DIMS) - 1)],
                                              hows[k % 3], dtypes=True)
                cases.append(case_table(vd, g, "table-dtypes-coords-first", "table-dtypes", recipe))

    # 6. dims declared in a different order than the first variable's (the input class of finding F6)
    if mixed:
        for it in range(60 if quick else 500):
            nn, ne = rnd.choice([s for s in shapes + big if s[0] >= 2 and s[1] >= 2] if it % 8 else shapes)
            nx = rnd.randint(1, 3)
            nd = rnd.randint(2, 4)
            dims = DIMS[1 + it % (len(DIMS) - 1)]
            perm = list(range(2 + nx))
            rnd.shuffle(perm)
            which = it % 3
            if which == 0:      # some variables (never the first) stored as (d1, d0)
                tr = {("data", k) for k in rnd.sample(range(1, nd), rnd.randint(1, nd - 1))}
                mode = "dataset"
            elif which == 1:    # some extra coordinates stored as (d1, d0)
                tr = {("extra", k) for k in rnd.sample(range(nx), rnd.randint(1, nx))}
                mode = rnd.choice(["dataset", "named", "unnamed", "member"])
            else:               # both
                tr = {("data", rnd.randrange(1, nd)), ("extra", rnd.randrange(nx))}
                mode = rnd.choice(["dataset", "member"])
            g, recipe = direct_grid(rnd, nn, ne, nd, nx, dims, perm, mode, transposed=tr)
            cases.append(case_table(vd, g, "table-mixed-dims", "table-mixed", recipe))
    return cases


def search(dis, tier, seed):
    return generate("thorough", seed + 1)
