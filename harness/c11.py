"""C11 blocked cross-validators: BlockKFold, BlockShuffleSplit, partition_by_sum.

Layouts are generated from block-occupancy vectors (how many samples fall in
each block of an nr x nc grid of unit blocks); the block labels are then
OBSERVED with verde.block_split on the very coordinates given to the
cross-validators.  The real classes are run (twice, for reproducibility) and
the yielded (train, test) index arrays, the labels and the random draws
(oracles, replayed from numpy's RandomState with the same seed and checked
against sklearn's ShuffleSplit) go to Coq, where `c11_*_case` compares the
model's folds with the observed ones and evaluates the statement of C11 on the
observed ones.
"""
import itertools
import multiprocessing
import random
import warnings
from fractions import Fraction

import numpy as np

from . import core
from .core import Case, cD
from . import pylite_tie

obligations = pylite_tie.c11_obligations   # source-regenerated tie (see harness/pylite_tie.py)

ID = "C11"
PROPS_FILE = "Props/C11.v"
IMPORTS = "From Verde Require Import Model.CrossVal."
SHARD = 400
RULE = ("layouts built from block-occupancy vectors over nr x nc grids of unit blocks (labels observed with "
        "verde.block_split on the same coordinates): EXHAUSTIVE over occupancy vectors of length <= 5 with entries 0..4 "
        "(quick: entries 0..3 up to length 4, 0..2 at length 5) x every n_splits from 2 to (occupied blocks + 1) x "
        "shuffle off / two seeds x balance on/off for BlockKFold; exhaustive over vectors of length <= 5 with entries "
        "0..3 (quick: 0..2, length <= 4) x int / float / absent test_size and train_size x balancing 1..3 x seeds for "
        "BlockShuffleSplit; partition_by_sum called directly on every array of length <= 5 with entries 0..4 "
        "(0..3 at length 6; quick: length <= 4, 0..2 at length 5) x every parts from 1 to length+1 and on random longer arrays; random layouts up to 12x12 "
        "blocks with empty and very uneven blocks, shape= or spacing=; a malformed stream (n_splits < 2 or larger than "
        "the number of occupied blocks, balancing < 1, sizes out of range); a sparse-fine-grid stream for both "
        "cross-validators (180-300 samples, thorough up to 400, along survey lines and in clusters over mostly empty "
        "50x50 .. 100x100 block grids with the corner blocks occupied, n_splits 3..5, shuffle on/off, balance on/off; block ids "
        "run into the thousands, where numpy's isin takes its sort-based path; the labels go to Coq as their ranks among the "
        "occupied ids); an uneven-blocks stream for both cross-validators (one row of up to 9 blocks whose largest population "
        "lies strictly between one and two ideal folds, total/n_splits < max < 2*total/n_splits, the large block first, in the "
        "middle, last, or two large ones; n_splits 2..5; shuffle on/off; BlockShuffleSplit with balancing 2..10); a deterministic kfold-exact-marks stream (n_splits 11..20, totals up to 400 "
        "for which some k*total/n_splits is an exact integer that np.linspace(0, total, n_splits+1)[k] misses by an ulp - 13 "
        "triples, computed with numpy at run time - and one row of blocks whose cumulative population hits that integer exactly "
        "at the end of a larger block, a block of 2 or 3 right after, unit blocks elsewhere; balance=True, shuffle=False). Reproducibility: for every case the folds "
        "compared with the model are the first split() of a fresh instance on a C-ordered X, and the following must give "
        "exactly the same folds: split() a 2nd (thorough: and 3rd) time on the SAME instance, a second fresh instance, "
        "sklearn.base.clone of the used instance (split twice; safe=False, i.e. a deep copy, while the splitters have no "
        "get_params), an instance built and used with another seed and then set_params(random_state=seed) (plain attribute "
        "assignment while the splitters have no set_params), ONE instance used first on other data sets (the same points in reversed row order, then the points "
        "mirrored inside the bounding box: same size and bounding box, other order/positions; separately a shifted and "
        "stretched copy: same size, other bounding box) and then on the case's data, interleaved / nested use of ONE instance (a live split(X) generator "
        "is continued after split() was started on the mirrored data and consumed partly, on X[train] of its first fold and "
        "consumed fully, and zip(split(X), split(shorter reordered data)): the outer generator must keep yielding the reference "
        "folds and the inner one the folds of a fresh instance on its own data), and X in other memory layouts (np.asfortranarray, transposed view of a 2 x n array, "
        "strided column view of a wider array; block_split labels must be identical too) - thorough: all seven variants on "
        "every random/malformed case and two (rotating) on every exhaustive case; quick: one (rotating) per case. Float test/train sizes whose exact "
        "product with the number of blocks is within 1e-9 of an integer without being one are excluded (counted in "
        "EXTRA). A case is non-trivial when the cross-validator yields folds over >= 2 occupied blocks; distinct = "
        "distinct (labels, parameters, seed) tuples.")
ASSUMPTIONS = [
    "sparse-fine-grid cases only: the observed block labels are passed to Coq as their ranks among the distinct observed labels (a strictly increasing renaming done by the harness); the model only sorts the distinct labels and tests membership, which this renaming preserves",
    "block labels are whatever verde.block_split returns for the given coordinates and shape/spacing (observed per case, an input of the model)",
    "numpy RandomState(seed).shuffle of a 1-D array of length m applies a permutation that depends only on (seed, m); RandomState.permutation likewise (oracles replayed with the same seed)",
    "sklearn ShuffleSplit draws one rng.permutation(m) per split, test = first n_test entries, train = the next n_train (re-checked against the real ShuffleSplit on every case)",
    "np.searchsorted(side='right') on the non-decreasing cumulative sum returns the number of entries <= v",
    "float imbalances |a/b - c/d| of distinct exact values keep their order (sample counts < 2000: distinct values differ by > 1e-13 relative); candidates tying exactly with different point ratios are reported as near-ties (agreement not required, statement still required)",
    "float test_size/train_size times the number of blocks: products within 1e-9 of an integer (not equal) are not generated (float ceil/floor quirk)",
]
TRUSTED = ["python harness harness/c11.py (layout generator, oracle replay, warning capture, comparison of the repeated-call / clone / set_params / memory-layout observations with the primary one, Coq literal printing)"]

_EXCLUDED = {"float_size_quirk": 0}
_STATS = {}


def EXTRA():
    return {"excluded_float_size_quirk": _EXCLUDED["float_size_quirk"], "stream_counts": dict(_STATS)}


# ---------------------------------------------------------------------------
# Coq literals (inside a %nat wrapper: bare numerals are nat)
# ---------------------------------------------------------------------------
def nl(l):
    return "[" + ";".join(str(int(v)) for v in l) + "]"


def csplits(splits):
    return "[" + ";".join("(%s,%s)" % (nl(tr), nl(te)) for tr, te in splits) + "]"


def csize(s):
    if s is None:
        return "SNone"
    if isinstance(s, (int, np.integer)):
        return "(SInt (%d)%%Z)" % int(s)
    return "(SFloat %s)" % cD(float(s))


# ---------------------------------------------------------------------------
# layouts
# ---------------------------------------------------------------------------
_FR = [0.5, 0.25, 0.75, 0.375, 0.625, 0.3125, 0.6875, 0.4375, 0.5625]


def coords(occ, nr, nc):
    """occ[r*nc + c] samples in the unit block (row r, column c).  The first
    sample of a block on the border of the grid sits on that border, so that the
    data region is the whole grid whenever the border rows/columns are occupied.
    Samples are emitted in an interleaved order (round-robin over the blocks) so
    that index order and block order differ."""
    pts = []
    for b, m in enumerate(occ):
        r, c = divmod(b, nc)
        for k in range(m):
            fx = _FR[k % len(_FR)]
            fy = _FR[(3 * k + 1) % len(_FR)]
            if k == 0:
                if c == 0:
                    fx = 0.0
                if c == nc - 1:
                    fx = 1.0
                if r == 0:
                    fy = 0.0
                if r == nr - 1:
                    fy = 1.0
            pts.append((k, b, c + fx, r + fy))
    pts.sort()
    return [p[2] for p in pts], [p[3] for p in pts]


def _blockargs(spec):
    if spec.get("spacing") is not None:
        return {"spacing": spec["spacing"]}
    return {"shape": tuple(spec["grid"])}


def _labels(vd, x, y, bargs):
    return [int(v) for v in vd.block_split((np.array(x), np.array(y)), region=None, adjust="spacing", **bargs)[1]]


def _construct(make, seed):
    """the cross-validator object, or the outcome tuple if the constructor raised"""
    try:
        return make(seed)
    except ValueError:
        return ("ValueError",)
    except Exception as exc:  # pragma: no cover
        return ("other", type(exc).__name__)


def _split(cv, X):
    """one call of cv.split(X): ('ok', warned, splits) | ('ValueError',) | ('other', name)"""
    if isinstance(cv, tuple):
        return cv
    try:
        with warnings.catch_warnings(record=True) as w:
            warnings.simplefilter("always")
            splits = [([int(i) for i in tr], [int(i) for i in te]) for tr, te in cv.split(X)]
            warned = any(issubclass(i.category, UserWarning) and "Could not balance folds" in str(i.message) for i in w)
        return ("ok", warned, splits)
    except ValueError:
        return ("ValueError",)
    except Exception as exc:  # pragma: no cover
        return ("other", type(exc).__name__)


VARIANTS = ["clone", "set_params", "reuse", "interleaved", "fortran", "transposed", "strided"]


class _Gen:
    """a live cv.split(D) generator that is advanced a few folds at a time"""

    def __init__(self, cv, D):
        self.out, self.err, self.done = [], None, False
        self.g = cv.split(D)

    def take(self, k=None):
        while not self.done and (k is None or k > 0):
            try:
                tr, te = next(self.g)
                self.out.append(([int(i) for i in tr], [int(i) for i in te]))
            except StopIteration:
                self.done = True
            except ValueError:
                self.err, self.done = ("ValueError",), True
            except Exception as exc:  # pragma: no cover
                self.err, self.done = ("other", type(exc).__name__), True
            if k is not None:
                k -= 1
        return self

    def result(self):
        return self.err if self.err is not None else ("ok", self.out)


def _folds(obs):
    """an observation without the warning flag"""
    return ("ok", obs[2]) if obs[0] == "ok" else tuple(obs)


def _interleaved(make, seed, X, A):
    """nested / interleaved use of ONE instance: a live split(X) generator must keep yielding the folds of a
    fresh instance on X while split() is started (and consumed partly or fully) on other data, and that
    other generator must yield the folds of a fresh instance on its own data"""
    failed = []
    refA = _folds(A)
    n = X.shape[0]
    with warnings.catch_warnings():
        warnings.simplefilter("ignore")
        oth = _other_datasets(X)
        # 1. same size: alternate
        Y = oth["mirrored"]
        refY = _folds(_split(_construct(make, seed), Y))
        cv = _construct(make, seed)
        if not isinstance(cv, tuple):
            g1 = _Gen(cv, X).take(1)
            g2 = _Gen(cv, Y).take(1)
            g1.take()
            g2.take()
            if g1.result() != refA:
                failed.append("interleaved-outer-same-size")
            if g2.result() != refY:
                failed.append("interleaved-inner-same-size")
        # 2. nested cross-validation: the inner data are the outer training points
        cv = _construct(make, seed)
        if not isinstance(cv, tuple):
            g1 = _Gen(cv, X).take(1)
            if g1.out:
                Y = X[np.array(g1.out[0][0], dtype=int)]
                refY = _folds(_split(_construct(make, seed), Y))
                g2 = _Gen(cv, Y).take()
                g1.take()
                if g1.result() != refA:
                    failed.append("nested-outer")
                if g2.result() != refY:
                    failed.append("nested-inner")
        # 3. zip of two generators over data sets of different sizes
        Y = oth["reordered"][: max(1, n - max(1, n // 3))]
        refY = _folds(_split(_construct(make, seed), Y))
        cv = _construct(make, seed)
        if not isinstance(cv, tuple) and refA[0] == "ok" and refY[0] == "ok":
            try:
                pairs = [(([int(i) for i in a[0]], [int(i) for i in a[1]]), ([int(i) for i in b[0]], [int(i) for i in b[1]]))
                         for a, b in zip(cv.split(X), cv.split(Y))]
            except Exception as exc:
                pairs = type(exc).__name__
            if pairs != list(zip(refA[1], refY[1])):
                failed.append("zip-of-two-generators")
    return failed


def _other_datasets(X):
    """data sets to use an instance on BEFORE the case's own X: the same points in reversed row order and
    the points mirrored inside the bounding box (same size, same bounding box, other positions/order), and a
    shifted and stretched copy (same size, different bounding box)"""
    x, y = X[:, 0], X[:, 1]
    mirrored = np.column_stack([(x.min() + x.max()) - x, (y.min() + y.max()) - y]) if X.shape[0] else X.copy()
    return {"reordered": X[::-1].copy(), "mirrored": mirrored,
            "other-bbox": np.column_stack([x * 1.5 + 3.0, y * 0.5 - 2.0])}


def _layouts(x, y):
    """the same n x 2 coordinates in other memory layouts"""
    X = np.column_stack([np.array(x, dtype=float), np.array(y, dtype=float)])
    wide = np.full((X.shape[0], 5), -7.5)
    wide[:, 1] = X[:, 0]
    wide[:, 3] = X[:, 1]
    return {"fortran": np.asfortranarray(X),
            "transposed": np.vstack([np.array(x, dtype=float), np.array(y, dtype=float)]).T,
            "strided": wide[:, 1::2]}


def _observe(vd, make, seed, x, y, X, bargs, labels, variants, ncalls=3):
    """Primary observation A = first split() of a fresh instance on the C-ordered X, plus the
    reproducibility checks: every other way of obtaining the folds for the same parameters and
    random_state must give exactly A.  Returns (A, [names of the checks that failed])."""
    from sklearn.base import clone
    failed = []
    cv = _construct(make, seed)
    A = _split(cv, X)
    # the SAME instance, split() again and again
    for k in range(2, ncalls + 1):
        if _split(cv, X) != A:
            failed.append("same-instance-call-%d" % k)
    # a fresh instance with the same parameters
    if _split(_construct(make, seed), X) != A:
        failed.append("fresh-instance")
    if "clone" in variants and not isinstance(cv, tuple):
        # a clone of the (already used) instance behaves like a freshly constructed object.
        # (sklearn 1.9 cross-validators - sklearn's own KFold included - have no get_params, so
        # clone(cv) raises TypeError for all of them; clone(..., safe=False) is the deep copy
        # sklearn falls back to for such objects)
        try:
            c = clone(cv) if hasattr(cv, "get_params") else clone(cv, safe=False)
        except Exception as exc:  # pragma: no cover
            c = ("other", type(exc).__name__)
        if _split(c, X) != A:
            failed.append("clone")
        if _split(c, X) != A:
            failed.append("clone-call-2")
    if "set_params" in variants and seed is not None:
        # built (and used) with another seed, then set_params(random_state=seed)
        other = seed + 1 if seed % 2 else 4242 + seed
        cvo = _construct(make, other)
        if not isinstance(cvo, tuple):
            _split(cvo, X)
            try:
                if hasattr(cvo, "set_params"):
                    cvo.set_params(random_state=seed)
                else:       # what set_params does; sklearn 1.9 cross-validators do not have the method
                    setattr(cvo, "random_state", seed)
            except Exception as exc:  # pragma: no cover
                cvo = ("other", type(exc).__name__)
        if _split(cvo, X) != A:
            failed.append("set_params-random_state")
    if "reuse" in variants:
        # ONE instance used on other data sets first, then on the case's data set
        oth = _other_datasets(X)
        cvr = _construct(make, seed)
        _split(cvr, oth["reordered"])
        _split(cvr, oth["mirrored"])
        if _split(cvr, X) != A:
            failed.append("reuse-after-same-bbox-same-size-data")
        cvr = _construct(make, seed)
        _split(cvr, oth["other-bbox"])
        if _split(cvr, X) != A:
            failed.append("reuse-after-other-bbox-data")
    if "interleaved" in variants:
        failed += _interleaved(make, seed, X, A)
    lay = _layouts(x, y)
    for name in ("fortran", "transposed", "strided"):
        if name in variants:
            Xv = lay[name]
            try:
                lv = [int(v) for v in vd.block_split((Xv[:, 0], Xv[:, 1]), region=None, adjust="spacing", **bargs)[1]]
            except Exception:  # pragma: no cover
                lv = None
            if lv != labels:
                failed.append("labels-%s-layout" % name)
            if _split(_construct(make, seed), Xv) != A:
                failed.append("folds-%s-layout" % name)
    if A[0] == "other":
        failed.append("unexpected-exception")
    return A, failed


def _repro_src(x, y, ctor):
    """python one-liner: three split() calls on one instance, then one instance used on the reordered and the
    mirrored data set before the case's data set"""
    return ("import verde, numpy as np; X = np.column_stack([%r, %r]); mk = lambda: %s; cv = mk(); "
            "print('one instance, split() calls 1-3:', [[te.tolist() for _, te in cv.split(X)] for call in (1, 2, 3)]); "
            "cv = mk(); M = np.column_stack([X[:, 0].min() + X[:, 0].max() - X[:, 0], X[:, 1].min() + X[:, 1].max() - X[:, 1]]); "
            "[list(cv.split(D)) for D in (X[::-1].copy(), M)]; "
            "print('same parameters, after use on reordered and mirrored data:', [te.tolist() for _, te in cv.split(X)])\n"
            "cv = mk(); g1 = cv.split(X); first = next(g1); g2 = cv.split(M); inner = [next(g2)[1].tolist()]; "
            "outer = [first[1].tolist()] + [te.tolist() for _, te in g1]; inner += [te.tolist() for _, te in g2]\n"
            "print('interleaved on one instance: split(X) continued after split(mirrored) was started:', outer, "
            "'| split(mirrored):', inner, '| fresh instance on mirrored:', [te.tolist() for _, te in mk().split(M)])"
            % (x, y, ctor))


def _variants_for(spec):
    if spec.get("all_variants"):
        return VARIANTS
    k = spec.get("variant", 0)
    return [VARIANTS[(k + 3 * i) % len(VARIANTS)] for i in range(spec.get("nvariants", 1))]


def _coq_labels(labels, spec):
    """labels as given to Coq.  For the fine, mostly empty grids the labels are replaced by their ranks among
    the occupied block ids (a strictly increasing renaming): the model only sorts the distinct labels and tests
    membership, both invariant under it, and unary naturals in the thousands would make coqc crawl."""
    if not spec.get("compress"):
        return labels
    rank = {b: k for k, b in enumerate(sorted(set(labels)))}
    return [rank[b] for b in labels]


def _occ_desc(spec):
    occ = spec["occ"]
    if spec.get("compress"):
        return {"nonzero blocks (index: samples)": {str(i): int(v) for i, v in enumerate(occ) if v}}
    return list(occ)


def _bargs_src(bargs):
    return ", ".join("%s=%r" % kv for kv in bargs.items())


# ---------------------------------------------------------------------------
# workers (pure functions of the spec)
# ---------------------------------------------------------------------------
def _do_kfold(spec):
    import verde as vd
    from sklearn.utils import check_random_state
    nr, nc = spec["grid"]
    x, y = coords(spec["occ"], nr, nc)
    X = np.column_stack([np.array(x, dtype=float), np.array(y, dtype=float)])
    bargs = _blockargs(spec)
    labels = _labels(vd, x, y, bargs)
    nb = len(set(labels))
    kw = dict(n_splits=spec["n_splits"], shuffle=spec["seed"] is not None, balance=spec["balance"])
    make = lambda seed: vd.BlockKFold(random_state=seed, **bargs, **kw)
    obs, failed = _observe(vd, make, spec["seed"], x, y, X, bargs, labels, _variants_for(spec),
                           ncalls=spec.get("ncalls", 2))
    repro_ok = not failed
    if spec["seed"] is None:
        shuf = "None"
        perm = None
    else:
        p = np.arange(nb)
        check_random_state(spec["seed"]).shuffle(p)
        perm = [int(v) for v in p]
        shuf = "(Some %s)" % nl(perm)
    if obs[0] == "ok":
        cobs = "(Some (%s,%s))" % (core.cbool(obs[1]), csplits(obs[2]))
    elif obs[0] == "ValueError":
        cobs = "None"
    else:
        cobs = "(Some (true,[]))"
    term = "(c11_kfold_case %s %d %s %s %s %s)%%nat" % (
        nl(_coq_labels(labels, spec)), spec["n_splits"], shuf, core.cbool(spec["balance"]), core.cbool(repro_ok), cobs)
    inp = {"cv": "BlockKFold", "grid": [nr, nc], "block_args": {k: (list(v) if isinstance(v, tuple) else v) for k, v in bargs.items()},
           "occupancy": _occ_desc(spec), "labels": labels, "n_splits": spec["n_splits"],
           "shuffle": spec["seed"] is not None, "random_state": spec["seed"], "balance": spec["balance"],
           "shuffle_oracle": perm}
    out = list(obs) + [{"reproducible": repro_ok, "failed_reproducibility_checks": failed}]
    repro = _repro_src(x, y, "verde.BlockKFold(%s, n_splits=%d, shuffle=%r, random_state=%r, balance=%r)"
                       % (_bargs_src(bargs), spec["n_splits"], spec["seed"] is not None, spec["seed"], spec["balance"]))
    return (inp, out, term, repro, spec["kind"], obs[0] == "ok" and nb >= 2)


def _size_quirk(s, nb):
    if isinstance(s, float):
        q = Fraction(s) * nb
        r = q - round(q)
        return r != 0 and abs(r) < Fraction(1, 10 ** 9)
    return False


def _do_bss(spec):
    import verde as vd
    from sklearn.model_selection import ShuffleSplit
    from sklearn.utils import check_random_state
    nr, nc = spec["grid"]
    x, y = coords(spec["occ"], nr, nc)
    X = np.column_stack([np.array(x, dtype=float), np.array(y, dtype=float)])
    bargs = _blockargs(spec)
    labels = _labels(vd, x, y, bargs)
    nb = len(set(labels))
    ts, tr = spec["test_size"], spec["train_size"]
    if _size_quirk(ts, nb) or _size_quirk(tr, nb):
        return "quirk"
    if isinstance(ts, float) and isinstance(tr, float):
        s = Fraction(ts) + Fraction(tr)
        if s != 1 and abs(s - 1) < Fraction(1, 10 ** 9):
            return "quirk"
    kw = dict(n_splits=spec["n_splits"], test_size=ts, train_size=tr, balancing=spec["balancing"])
    make = lambda seed: vd.BlockShuffleSplit(random_state=seed, **bargs, **kw)
    obs, failed = _observe(vd, make, spec["seed"], x, y, X, bargs, labels, _variants_for(spec),
                           ncalls=spec.get("ncalls", 2))
    repro_ok = not failed
    # oracle: the permutations ShuffleSplit's random state draws, checked against the real ShuffleSplit
    perms = []
    ndraw = spec["n_splits"] * max(spec["balancing"], 0)
    if ndraw > 0:
        try:
            draws = list(ShuffleSplit(n_splits=ndraw, test_size=ts, train_size=tr,
                                      random_state=spec["seed"]).split(np.arange(nb)))
        except ValueError:
            draws = None
        if draws is not None:
            rs = check_random_state(spec["seed"])
            for dtr, dte in draws:
                p = rs.permutation(nb)
                if not (np.array_equal(p[:dte.size], dte) and np.array_equal(p[dte.size:dte.size + dtr.size], dtr)):
                    raise AssertionError("sklearn ShuffleSplit no longer draws as assumed: %r" % (spec,))
                perms.append([int(v) for v in p])
    if obs[0] == "ok":
        cobs = "(Some %s)" % csplits(obs[2])
    elif obs[0] == "ValueError":
        cobs = "None"
    else:
        cobs = "(Some [])"
    term = "(c11_bss_case %s %d %d %s %s %s %s %s)%%nat" % (
        nl(_coq_labels(labels, spec)), spec["n_splits"], max(spec["balancing"], 0), csize(ts), csize(tr),
        "[" + ";".join(nl(p) for p in perms) + "]", core.cbool(repro_ok), cobs)
    inp = {"cv": "BlockShuffleSplit", "grid": [nr, nc], "block_args": {k: (list(v) if isinstance(v, tuple) else v) for k, v in bargs.items()},
           "occupancy": _occ_desc(spec), "labels": labels, "n_splits": spec["n_splits"],
           "test_size": ts, "train_size": tr, "random_state": spec["seed"], "balancing": spec["balancing"],
           "permutation_oracle": perms if len(perms) <= 12 else "%d permutations of range(%d)" % (len(perms), nb)}
    out = list(obs[:1]) + list(obs[2:]) + [{"reproducible": repro_ok, "failed_reproducibility_checks": failed}]
    repro = _repro_src(x, y, "verde.BlockShuffleSplit(%s, n_splits=%d, test_size=%r, train_size=%r, random_state=%r, balancing=%d)"
                       % (_bargs_src(bargs), spec["n_splits"], ts, tr, spec["seed"], spec["balancing"]))
    return (inp, out, term, repro, spec["kind"], obs[0] == "ok" and nb >= 2)


def _do_pbs(spec):
    from verde.utils import partition_by_sum
    arr, parts = spec["array"], spec["parts"]
    try:
        with warnings.catch_warnings():
            warnings.simplefilter("ignore")
            obs = ("ok", [int(v) for v in partition_by_sum(arr if spec.get("aslist") else np.array(arr), parts)])
    except ValueError:
        obs = ("ValueError",)
    except Exception as exc:  # pragma: no cover
        obs = ("other", type(exc).__name__)
    if obs[0] == "ok":
        cobs = "(Some %s)" % nl(obs[1])
    elif obs[0] == "ValueError":
        cobs = "None"
    else:
        cobs = "(Some [0;0;0])"
    term = "(c11_pbs_case %s %d %s)%%nat" % (nl(arr), parts, cobs)
    repro = "from verde.utils import partition_by_sum; print(partition_by_sum(%r, %d))" % (list(arr), parts)
    return ({"fn": "partition_by_sum", "array": list(arr), "parts": parts}, list(obs), term, repro, spec["kind"],
            obs[0] == "ok" and parts >= 2)


def _work(spec):
    f = {"kfold": _do_kfold, "bss": _do_bss, "pbs": _do_pbs}[spec["cv"]]
    return f(spec)


# ---------------------------------------------------------------------------
# generators
# ---------------------------------------------------------------------------
def _grids_for(L):
    g = [(1, L)]
    if L == 4:
        g.append((2, 2))
    return g


def _kfold_exhaustive(tier, rnd):
    specs = []
    seeds = [0, 7]
    if tier == "thorough":
        plan = [(L, 4) for L in range(1, 6)]
    else:
        plan = [(1, 3), (2, 3), (3, 3), (4, 3), (5, 2)]
    for L, top in plan:
        for occ in itertools.product(range(top + 1), repeat=L):
            if sum(occ) == 0:
                continue
            nocc = sum(1 for v in occ if v)
            for grid in _grids_for(L):
                for ns in range(2, nocc + 2):
                    for seed in [None] + seeds:
                        for bal in (True, False):
                            specs.append({"cv": "kfold", "kind": "kfold-exhaustive", "grid": grid, "occ": occ,
                                          "n_splits": ns, "seed": seed, "balance": bal})
    return specs


def _random_layout(rnd, big):
    nr = rnd.randint(1, 12 if big else 4)
    nc = rnd.randint(2 if nr == 1 else 1, 12 if big else 4)
    nblk = nr * nc
    style = rnd.choice(["sparse", "uneven", "dense", "one-giant"])
    budget = rnd.randint(nblk // 2 + 2, 110 if big else 30)
    occ = [0] * nblk
    if style == "sparse":
        for _ in range(budget // 2 + 1):
            occ[rnd.randrange(nblk)] += rnd.choice([1, 1, 2])
    elif style == "uneven":
        for b in range(nblk):
            occ[b] = rnd.choice([0, 0, 1, 1, 1, 2, 3])
        for _ in range(rnd.randint(1, 3)):
            occ[rnd.randrange(nblk)] += rnd.randint(5, 25)
    elif style == "dense":
        for b in range(nblk):
            occ[b] = rnd.choice([1, 1, 1, 2, 2, 3])
    else:
        occ = [rnd.choice([0, 1, 1]) for _ in range(nblk)]
        occ[rnd.choice([0, nblk - 1, rnd.randrange(nblk)])] = rnd.randint(10, 40)
    while sum(occ) > (130 if big else 40):
        b = rnd.randrange(nblk)
        occ[b] = occ[b] // 2
    if sum(occ) == 0:
        occ[0] = 1
    spec = {"grid": (nr, nc), "occ": tuple(occ)}
    if rnd.random() < 0.3:
        spec["spacing"] = rnd.choice([1.0, 1.0, 2.0, 0.5, (1.0, 2.0), 1.5])
    return spec


def _kfold_random(tier, rnd):
    specs = []
    n = 160 if tier == "quick" else 2500
    for i in range(n):
        lay = _random_layout(rnd, big=(i % 3 != 0))
        nocc = sum(1 for v in lay["occ"] if v)
        hi = max(2, min(nocc, 12))
        ns = rnd.choice([2, 2, 3, hi, hi, max(2, hi - 1), rnd.randint(2, hi), rnd.randint(2, hi)])
        if i % 25 == 0:
            ns = nocc + rnd.randint(1, 3)
        spec = dict(lay, cv="kfold", kind="kfold-random", n_splits=ns,
                    seed=rnd.choice([None, rnd.randrange(10 ** 6), rnd.randrange(10 ** 6)]),
                    balance=rnd.random() < 0.7)
        specs.append(spec)
    return specs


def _kfold_malformed(tier, rnd):
    specs = []
    for occ in [(1, 1), (3, 0, 2), (1, 1, 1, 1), (2, 0, 0, 1, 4), (4,), (0, 0, 3)]:
        for ns in [-1, 0, 1, len([v for v in occ if v]) + 1, len(occ) + 1, 9]:
            for seed in (None, 3):
                for bal in (True, False):
                    specs.append({"cv": "kfold", "kind": "kfold-malformed", "grid": (1, len(occ)), "occ": occ,
                                  "n_splits": ns, "seed": seed, "balance": bal})
    return [s for s in specs if s["n_splits"] >= 0]


_FLOATS = [0.1, 0.25, 0.5, 0.3, 0.75, 0.34, 0.6, 0.9]


def _size_options(nocc, rnd, full):
    """(test_size, train_size) pairs around the decision boundaries"""
    opts = [(0.1, None), (0.5, None), (0.25, None), (0.3, None), (None, None), (None, 0.5), (None, 0.7),
            (0.34, 0.5), (0.25, 0.25), (0.5, 0.5)]
    for t in range(1, max(2, nocc)):
        opts.append((t, None))
    opts += [(1, 1), (None, 1), (None, max(1, nocc - 1)), (1, max(1, nocc - 2)), (0.5, 1), (1, 0.5)]
    if not full:
        rnd.shuffle(opts)
        opts = opts[:4]
    return opts


def _bss_exhaustive(tier, rnd):
    specs = []
    if tier == "thorough":
        plan = [(L, 3) for L in range(1, 6)]
    else:
        plan = [(1, 2), (2, 2), (3, 2), (4, 2)]
    for L, top in plan:
        for occ in itertools.product(range(top + 1), repeat=L):
            if sum(occ) == 0:
                continue
            nocc = sum(1 for v in occ if v)
            full = tier == "thorough" and L <= 4
            for ts, tr in _size_options(nocc, rnd, full or tier == "quick" and L <= 3):
                for bal in ((1, 2, 3) if (tier == "thorough" or L <= 3) else (rnd.choice([1, 2, 3]),)):
                    for seed in ((0, 11) if tier == "thorough" else (rnd.choice([0, 11, 5]),)):
                        specs.append({"cv": "bss", "kind": "bss-exhaustive", "grid": (1, L), "occ": occ,
                                      "n_splits": 2 if bal < 3 else 1, "balancing": bal, "test_size": ts,
                                      "train_size": tr, "seed": seed})
    return specs


def _bss_random(tier, rnd):
    specs = []
    n = 160 if tier == "quick" else 2500
    for i in range(n):
        lay = _random_layout(rnd, big=(i % 3 != 0))
        nocc = sum(1 for v in lay["occ"] if v)
        c = rnd.random()
        tr = None
        if c < 0.35:
            ts = rnd.choice(_FLOATS)
        elif c < 0.6:
            ts = rnd.randint(1, max(1, nocc - 1))
        elif c < 0.75:
            ts = rnd.choice(_FLOATS[:5])
            tr = rnd.choice([0.25, 0.5, 0.3, rnd.randint(1, max(1, nocc // 2))])
        elif c < 0.85:
            ts = None
            tr = rnd.choice([0.5, 0.75, 0.6, rnd.randint(1, max(1, nocc - 1))])
        else:
            ts = rnd.randint(1, max(1, nocc // 2))
            tr = rnd.randint(1, max(1, nocc // 2))
        big = lay["grid"][0] * lay["grid"][1] > 40
        specs.append(dict(lay, cv="bss", kind="bss-random", n_splits=rnd.choice([1, 2, 3] if big else [1, 2, 3, 5]),
                          balancing=rnd.choice([1, 2, 3, 5] if big else [1, 2, 4, 10]), test_size=ts, train_size=tr,
                          seed=rnd.randrange(10 ** 6)))
    return specs


def _bss_malformed(tier, rnd):
    specs = []
    for occ in [(1, 1), (3, 0, 2), (1, 1, 1, 1), (2, 0, 0, 1, 4), (4,)]:
        nocc = len([v for v in occ if v])
        sizes = [(0, None), (-1, None), (nocc, None), (nocc + 1, None), (0.0, None), (1.0, None), (1.5, None),
                 (-0.25, None), (None, 0), (None, nocc), (None, 1.0), (0.75, 0.5), (0.5, 0.75), (nocc - 1, nocc - 1),
                 (1, nocc), (0.5, None), (0.125, None), (None, 0.125)]
        for ts, tr in sizes:
            for bal, ns in [(1, 1), (2, 2), (0, 2), (3, 0), (-1, 1)]:
                if ts == 0.5 and bal > 0 and ns > 0:
                    continue
                specs.append({"cv": "bss", "kind": "bss-malformed", "grid": (1, len(occ)), "occ": occ,
                              "n_splits": ns, "balancing": bal, "test_size": ts, "train_size": tr, "seed": 2})
    return specs


def _pbs(tier, rnd):
    specs = []
    if tier == "thorough":
        plan = [(L, 4) for L in range(1, 6)] + [(6, 3)]
    else:
        plan = [(L, 4) for L in range(1, 5)] + [(5, 2)]
    for L, top in plan:
        for arr in itertools.product(range(top + 1), repeat=L):
            for parts in range(1, L + 2):
                specs.append({"cv": "pbs", "kind": "pbs-exhaustive", "array": arr, "parts": parts,
                              "aslist": (sum(arr) + parts) % 2 == 0})
    for i in range(300 if tier == "quick" else 3000):
        L = rnd.randint(2, 40)
        style = i % 4
        if style == 0:
            arr = [rnd.randint(0, 5) for _ in range(L)]
        elif style == 1:
            arr = [rnd.randint(1, 3) for _ in range(L)]
            arr[rnd.randrange(L)] = rnd.randint(10, 200)
        elif style == 2:
            arr = [rnd.choice([1, 1, 1, 2]) for _ in range(L)]
        else:
            arr = [rnd.randint(0, 60) for _ in range(L)]
        parts = rnd.choice([1, 2, 3, L, L - 1, L + 1, rnd.randint(1, L), rnd.randint(1, max(1, L // 2))])
        specs.append({"cv": "pbs", "kind": "pbs-random", "array": tuple(arr), "parts": max(1, parts)})
    return specs


def _specs(tier, rnd):
    specs = _specs0(tier, rnd)
    for k, sp in enumerate(specs):
        if sp["cv"] != "pbs":
            sp["variant"] = k // 2      # consecutive specs differ in balance on/off: give both the same variant
            sp["all_variants"] = tier == "thorough" and "exhaustive" not in sp["kind"]
            sp["nvariants"] = 2 if tier == "thorough" else 1
            sp["ncalls"] = 3 if tier == "thorough" else 2
    return specs


def _sparse_layout(rnd, max_points):
    """a few hundred samples along survey lines / in clusters over a fine, mostly empty block grid; the two
    opposite corner blocks are occupied so that the data region is the whole grid"""
    side = rnd.choice([50, 60, 60, 80, 80, 100])
    nr, nc = side, rnd.choice([side, side, max(40, side - 20)])
    occ = [0] * (nr * nc)
    target = rnd.randint(200, max_points)
    style = rnd.choice(["lines", "lines", "clusters", "mixed"])
    if style in ("lines", "mixed"):
        nlines = rnd.randint(3, 7)
        for _ in range(nlines):
            vertical = rnd.random() < 0.7
            pos = rnd.randrange(nc if vertical else nr)
            length = nr if vertical else nc
            for t in range(length):
                if rnd.random() < (target / nlines / length / 1.6):
                    b = (t * nc + pos) if vertical else (pos * nc + t)
                    occ[b] += rnd.choice([1, 1, 2, 2, 3, 4])
    if style in ("clusters", "mixed"):
        for _ in range(rnd.randint(5, 12)):
            r0, c0, w = rnd.randrange(nr), rnd.randrange(nc), rnd.randint(2, 5)
            for r in range(r0, min(nr, r0 + w)):
                for c in range(c0, min(nc, c0 + w)):
                    if rnd.random() < 0.6:
                        occ[r * nc + c] += rnd.choice([1, 2, 2, 3, 5])
    occ[0] = max(occ[0], 1)
    occ[-1] = max(occ[-1], 1)
    while sum(occ) < 180:       # top up along the occupied blocks' neighbours
        nz = [i for i, v in enumerate(occ) if v]
        b = min(len(occ) - 1, max(0, rnd.choice(nz) + rnd.choice([-nc, nc, -1, 1, 0])))
        occ[b] += 1
    while sum(occ) > max_points:
        nz = [i for i, v in enumerate(occ) if v and i not in (0, len(occ) - 1)]
        occ[rnd.choice(nz)] -= 1
    return {"grid": (nr, nc), "occ": tuple(occ), "compress": True}


def _sparse_grid(tier, rnd, n=None):
    specs = []
    if n is None:
        n = 12 if tier == "quick" else 96
    for i in range(n):
        lay = _sparse_layout(rnd, 300 if tier == "quick" else 400)
        nocc = sum(1 for v in lay["occ"] if v)
        seed = None if i % 4 == 3 else rnd.randrange(10 ** 6)
        if i % 3 != 2:
            specs.append(dict(lay, cv="kfold", kind="kfold-sparse-grid", n_splits=rnd.choice([3, 4, 5]), seed=seed,
                              balance=(i % 2 == 0)))
        else:
            ts, tr = rnd.choice([(0.25, None), (0.2, None), (0.3, 0.5), (max(1, nocc // 4), None), (None, 0.75)])
            specs.append(dict(lay, cv="bss", kind="bss-sparse-grid", n_splits=rnd.choice([1, 2]),
                              balancing=rnd.choice([1, 2, 3]), test_size=ts, train_size=tr,
                              seed=rnd.randrange(10 ** 6)))
    return specs


def _uneven_pops(rnd, k):
    """populations of one row of blocks whose maximum lies strictly between one and two ideal folds
    (total/k < max < 2*total/k), the large block(s) first, in the middle, last, or two of them"""
    for _ in range(200):
        L = rnd.randint(k + 1, 9)
        pops = [rnd.choice([1, 1, 1, 2, 2, 3]) for _ in range(L)]
        where = rnd.choice(["first", "middle", "last", "two", "two-adjacent", "random"])
        small = sum(pops)
        lo = small // max(1, k - 1) + 1
        hi = (2 * small) // (k - 2) if k > 2 else 4 * small
        big = rnd.randint(lo, max(lo, min(hi, lo + 12)))
        pos = {"first": [0], "middle": [L // 2], "last": [L - 1], "two": [rnd.randrange(L // 2), L - 1 - rnd.randrange(L // 2)],
               "two-adjacent": [L // 2 - 1, L // 2], "random": [rnd.randrange(L)]}[where]
        for i in set(pos):
            pops[i] = big if len(set(pos)) == 1 else max(2, big - rnd.randint(0, 2) - big // 3)
        tot, mx = sum(pops), max(pops)
        if tot < k * mx < 2 * tot:
            return tuple(pops)
    return (3, 1, 1, 1, 1, 8, 8)


def _uneven_blocks(tier, rnd, n=None):
    specs = [{"cv": "kfold", "kind": "kfold-uneven-blocks", "grid": (1, 7), "occ": (3, 1, 1, 1, 1, 8, 8),
              "n_splits": 3, "seed": None, "balance": True}]
    if n is None:
        n = 120 if tier == "quick" else 1500
    for i in range(n):
        k = rnd.choice([2, 3, 3, 3, 4, 4, 5])
        pops = _uneven_pops(rnd, k)
        grid = (1, len(pops))
        if i % 3 != 2:
            seed = None if i % 2 == 0 else rnd.randrange(10 ** 6)
            specs.append({"cv": "kfold", "kind": "kfold-uneven-blocks", "grid": grid, "occ": pops,
                          "n_splits": k, "seed": seed, "balance": i % 7 != 6})
        else:
            nocc = len(pops)
            ts, tr = rnd.choice([(1, None), (2, None), (0.25, None), (0.34, None), (0.5, None), (1, 2), (None, 0.6),
                                 (max(1, nocc // 3), None)])
            specs.append({"cv": "bss", "kind": "bss-uneven-blocks", "grid": grid, "occ": pops,
                          "n_splits": rnd.choice([1, 2, 3]), "balancing": rnd.choice([2, 3, 5, 10]),
                          "test_size": ts, "train_size": tr, "seed": rnd.randrange(10 ** 6)})
    return specs


def _exact_mark_triples():
    """(parts, total, k, k*total/parts) with k*total/parts an exact integer that np.linspace(0, total, parts+1)[k]
    misses by an ulp (computed here, with numpy): inputs on which a floating-point form of the ideal cumulative
    sums differs from the exact integer form (k*total)//parts"""
    out = []
    for parts in range(11, 21):
        for total in range(parts, 401):
            ls = np.linspace(0, total, parts + 1)
            for k in range(1, parts):
                if (k * total) % parts == 0 and ls[k] != (k * total) // parts:
                    out.append((parts, total, k, (k * total) // parts, bool(ls[k] < (k * total) // parts)))
    return out


def _pbs_exact(pops, parts):
    """the split points of the exact integer rule, or None (python ints; used only to pick layouts)"""
    cs, t = [], 0
    for v in pops:
        t += v
        cs.append(t)
    idx = [sum(1 for c in cs if c <= (j * t) // parts) for j in range(1, parts)]
    if len(set(idx)) != len(idx) or 0 in idx or len(pops) in idx:
        return None
    return idx


def _exact_marks(tier, rnd, full=None):
    """one row of blocks whose cumulative population hits the exact integer mark k*total/parts at a block end:
    unit blocks, then one (or three) larger block(s) ending exactly at the mark, a block of 2 or 3 right after, unit
    blocks for the rest; balance=True, shuffle=False"""
    specs = []
    full = (tier == "thorough") if full is None else full
    for parts, total, k, v, below in _exact_mark_triples():
        if not full and (total > 250 or not below):
            continue
        ideal = -(-total // parts)
        rich = full and below       # the marks linspace overshoots are harmless with side="right": one layout each
        for b in ((ideal, ideal + 1) if rich else (ideal,)):
            for c in ((2, 3) if rich else (2,)):
                for nbig in ((1, 3) if (rich or not full) else (1,)):
                    if v - nbig * b < 1 or total - v - c < 1:
                        continue
                    pops = [1] * (v - nbig * b) + [b] * nbig + [c] + [1] * (total - v - c)
                    if len(pops) < parts or _pbs_exact(pops, parts) is None:
                        continue
                    specs.append({"cv": "kfold", "kind": "kfold-exact-marks", "grid": (1, len(pops)), "occ": tuple(pops),
                                  "n_splits": parts, "seed": None, "balance": True})
    return specs


def _specs0(tier, rnd):
    specs = []
    specs += _pbs(tier, rnd)
    specs += _kfold_exhaustive(tier, rnd)
    specs += _kfold_random(tier, rnd)
    specs += _kfold_malformed(tier, rnd)
    specs += _bss_exhaustive(tier, rnd)
    specs += _bss_random(tier, rnd)
    specs += _bss_malformed(tier, rnd)
    specs += _sparse_grid(tier, rnd)
    specs += _uneven_blocks(tier, rnd)
    specs += _exact_marks(tier, rnd)
    return specs


def _run(specs, rnd):
    import verde  # noqa: F401  (imported before forking)
    if len(specs) < 200 or core.NPROC <= 1:
        res = [_work(s) for s in specs]
    else:
        ctx = multiprocessing.get_context("fork")
        with ctx.Pool(min(core.NPROC, 16)) as pool:
            res = pool.map(_work, specs, chunksize=64)
    cases = []
    seen = set()
    for r in res:
        if r == "quirk":
            _EXCLUDED["float_size_quirk"] += 1
            continue
        inp, out, term, repro, kind, nontrivial = r
        c = Case(inp, out, term, repro, kind, nontrivial)
        if c.term in seen:      # same labels, parameters, oracle and observation: nothing new
            continue
        seen.add(c.term)
        _STATS[kind] = _STATS.get(kind, 0) + 1
        cases.append(c)
    # spread the expensive (large random) cases evenly over the shards
    rnd.shuffle(cases)
    return cases


def generate(tier, seed):
    _EXCLUDED["float_size_quirk"] = 0
    _STATS.clear()
    rnd = random.Random(seed)
    return _run(_specs(tier, rnd), rnd)


def search(dis, tier, seed):
    rnd = random.Random(seed + 1)
    specs = _exact_marks("thorough", rnd) + _uneven_blocks("quick", rnd, n=600) + _sparse_grid("thorough", rnd, n=48) + _kfold_random("quick", rnd) + _bss_random("quick", rnd) \
        + _kfold_exhaustive("quick", rnd) + _bss_exhaustive("quick", rnd) + _pbs("quick", rnd)
    for k, sp in enumerate(specs):
        if sp["cv"] != "pbs":
            sp.update(variant=k // 2, all_variants=False, nvariants=3, ncalls=3)
    return _run(specs, rnd)
