"""Source-regenerated tie for the scalar coordinate functions (C07, C13).

On every run the Python source of check_region, get_region, pad_region, spacing_to_size and
line_coordinates is read from the checkout under test, serialised into PyLite terms
(coq/theories/Lib/PyLite.v) by harness/translate_pylite.py, and coqc re-proves - for ALL arguments -
that running the serialised source gives what the hand-written model (Model/Coordinates.v) gives
(theorems in harness/pylite_coordinates.v.tmpl).  A source change that alters the behaviour of one of
these functions breaks its theorem; so can a harmless rewrite (then the check reports the broken
obligation with `no-failing-input-found` after the correspondence search found nothing)."""
import os
import re
import subprocess
from . import core, translate_pylite

FUNCS = ["check_region", "get_region", "pad_region", "spacing_to_size", "line_coordinates"]
THEOREMS = ["src_check_region_eq", "src_get_region_eq", "src_pad_region_scalar_eq", "src_pad_region_pair_eq",
            "src_spacing_to_size_eq", "src_line_coordinates_eq"]
HEAD = """From Coq Require Import QArith Qround Qabs ZArith List Bool String Lia Lqa.
From Verde Require Import Lib.QExtra Model.Coordinates Lib.PyLite.
Import ListNotations.
Open Scope string_scope.

"""


def coord_obligations():
    """returns list of (name, ok, detail)"""
    d = os.path.join(core.BUILD, "PyLite_%d" % os.getpid())
    os.makedirs(d, exist_ok=True)
    path = os.path.join(d, "CoordSrc.v")
    try:
        defs = translate_pylite.translate(os.path.join(core.REPO, "verde", "coordinates.py"), FUNCS)
    except translate_pylite.Unsupported as exc:
        return [(t, False, "translator failed closed: %s" % exc) for t in THEOREMS]
    tmpl = open(os.path.join(os.path.dirname(__file__), "pylite_coordinates.v.tmpl")).read()
    with open(path, "w") as f:
        f.write(HEAD + "\n".join(defs[n] for n in FUNCS) + "\n" + tmpl)
    p = subprocess.run(["timeout", "600", "coqc", "-R", os.path.join(core.COQ, "theories"), "Verde", "-w", "-all", path],
                       stdout=subprocess.PIPE, stderr=subprocess.STDOUT, text=True, cwd=d)
    out = p.stdout
    res = []
    if p.returncode == 0:
        closed = out.count("Closed under the global context")
        for t in THEOREMS:
            res.append((t, True, "re-proved against the current source (%d/%d closed under the global context)" % (closed, len(THEOREMS))))
    else:
        # find the first theorem whose proof failed: everything before the error line compiled
        m = re.search(r'line (\d+), characters', out)
        line = int(m.group(1)) if m else 0
        src = open(path).read().splitlines()
        failed_at = None
        for i, l in enumerate(src[:line][::-1]):
            mm = re.match(r"\s*(?:Theorem|Lemma)\s+(\w+)", l)
            if mm:
                failed_at = mm.group(1)
                break
        seen_fail = False
        for t in THEOREMS:
            if t == failed_at:
                seen_fail = True
            ok = not seen_fail and failed_at is not None
            res.append((t, ok, "proved" if ok else "NOT re-proved: coqc failed in %s: %s" % (failed_at, out[-600:])))
    for fn in os.listdir(d):
        os.unlink(os.path.join(d, fn))
    os.rmdir(d)
    return res
