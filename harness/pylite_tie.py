"""Source-regenerated ties (C07, C13: scalar coordinate functions; C17: longitude_continuity; C11:
partition_by_sum).

On every run the Python source of the tied functions is read from the checkout under test, serialised
into PyLite terms (coq/theories/Lib/PyLite.v) by harness/translate_pylite.py, and coqc re-proves - for
ALL arguments - that running the serialised source gives what the hand-written model gives (theorems
in harness/pylite_*.v.tmpl).  A source change that alters the behaviour of one of these functions
breaks its theorem; so can a harmless rewrite (then the check reports the broken obligation with
`no-failing-input-found` after the correspondence search found nothing)."""
import os
import re
import subprocess
import time
from . import core, translate_pylite

HEAD = """From Coq Require Import QArith Qround Qabs ZArith List Bool String Lia Lqa.
From Verde Require Import Lib.QExtra Model.Coordinates Lib.PyLite.
%s
Import ListNotations.
Open Scope string_scope.

"""

SECTION = re.compile(r"^\(\* ---------- (.*?) ---------- \*\)\s*$", re.M)


def _compile(path, d):
    p = subprocess.run(["timeout", "600", "coqc", "-R", os.path.join(core.COQ, "theories"), "Verde", "-w", "-all", path],
                       stdout=subprocess.PIPE, stderr=subprocess.STDOUT, text=True, cwd=d)
    return p.returncode, p.stdout


def _failing_theorem(path, out):
    m = re.search(r'line (\d+), characters', out)
    line = int(m.group(1)) if m else 0
    src = open(path).read().splitlines()
    for l in src[:line][::-1]:
        mm = re.match(r"\s*(?:Theorem|Lemma)\s+(\w+)", l)
        if mm:
            return mm.group(1), line
    return None, line


def tie(tag, module_path, funcs, tmpl_name, theorems, imports="", skip=()):
    """Generate build/PyLite_<pid>/<tag>.v from the current source and the template, compile it, and return
    [(theorem, ok, detail)].  The template is a sequence of sections introduced by
    `(* ---------- title ---------- *)`; when a proof fails, the section containing it is dropped and the
    file recompiled, so that every theorem is judged on its own (a theorem that needs a dropped one fails
    too).  `skip`: titles of sections of the templates that this tie does not need (they are reported by
    another property and cost compile time); they are left out of the generated file."""
    d = os.path.join(core.BUILD, "PyLite_%d" % os.getpid())
    os.makedirs(d, exist_ok=True)
    path = os.path.join(d, tag + ".v")
    defs = {}
    untranslated = {}
    # funcs: names in module_path, or (module path, name) pairs for functions of other modules
    where = [(f if isinstance(f, tuple) else (module_path, f)) for f in funcs]
    funcs = [f for _, f in where]
    for mod_, fn in where:
        try:
            defs.update(translate_pylite.translate(os.path.join(core.REPO, mod_), [fn]))
        except translate_pylite.Unsupported as exc:
            untranslated[fn] = str(exc)      # its theorems (and those that use it) will fail to compile
        except (OSError, SyntaxError) as exc:
            return [(t, False, "cannot read the source: %s" % exc) for t in theorems]
    # tmpl_name: one template, or several that are concatenated in the given order
    tmpl_names = [tmpl_name] if isinstance(tmpl_name, str) else list(tmpl_name)
    tmpl = "".join(open(os.path.join(os.path.dirname(__file__), n)).read() for n in tmpl_names)
    # split the template into sections
    pos = [m.start() for m in SECTION.finditer(tmpl)] + [len(tmpl)]
    sections = [tmpl[:pos[0]]] + [tmpl[pos[i]:pos[i + 1]] for i in range(len(pos) - 1)]
    sections = [sec for sec in sections if not (SECTION.match(sec) and SECTION.match(sec).group(1) in skip)]
    head = HEAD % imports + "\n".join(defs[n] for n in funcs if n in defs) + "\n"
    failed = {}
    t0 = time.time()
    for _ in range(len(sections) + 1):
        with open(path, "w") as f:
            f.write(head + "".join(sections))
        rc, out = _compile(path, d)
        if rc == 0:
            break
        name, line = _failing_theorem(path, out)
        # locate the section that contains the failing line
        at = head.count("\n")
        hit = None
        for i, sec in enumerate(sections):
            n = sec.count("\n")
            if at < line <= at + n:
                hit = i
                break
            at += n
        if hit is None or not sections[hit]:
            for t in theorems:
                failed.setdefault(t, "coqc failed outside the template sections: " + out[-500:])
            break
        why = "".join("translator failed closed on %s: %s; " % (f, m) for f, m in untranslated.items()
                      if "src_" + f.replace(".", "_") in sections[hit])
        for t in re.findall(r"^\s*Theorem\s+(\w+)", sections[hit], re.M):
            failed.setdefault(t, "NOT re-proved: %scoqc failed in %s: %s" % (why, name, out[-500:]))
        sections[hit] = ""
    secs = time.time() - t0
    closed = out.count("Closed under the global context") if rc == 0 else 0
    res = []
    for t in theorems:
        if t in failed:
            res.append((t, False, failed[t]))
        elif rc != 0:
            res.append((t, False, "NOT re-proved: " + out[-500:]))
        else:
            res.append((t, True, "re-proved against the current source (%d closed under the global context; %.1f s)" % (closed, secs)))
    for fn in os.listdir(d):
        os.unlink(os.path.join(d, fn))
    os.rmdir(d)
    return res


COORD_FUNCS = ["check_region", "get_region", "pad_region", "spacing_to_size", "line_coordinates", "shape_to_spacing",
               "grid_coordinates", "inside", (os.path.join("verde", "projections.py"), "project_region")]
COORD_THEOREMS = ["src_check_region_eq", "src_get_region_eq", "src_pad_region_scalar_eq", "src_pad_region_pair_eq",
                  "src_spacing_to_size_eq", "src_line_coordinates_eq", "src_shape_to_spacing_eq",
                  "src_grid_coordinates_eq", "src_inside_eq", "src_project_region_eq"]
COORD_IMPORTS = "From Verde Require Import Proofs.PyLiteBridge."


def coord_obligations():
    """returns list of (name, ok, detail)"""
    return tie("CoordSrc", os.path.join("verde", "coordinates.py"), COORD_FUNCS, "pylite_coordinates.v.tmpl",
               COORD_THEOREMS, COORD_IMPORTS)


LON_FUNCS = ["_check_geographic_region", "_check_geographic_coordinates", "longitude_continuity"]
LON_THEOREMS = ["src_check_geographic_region_eq", "src_longitude_continuity_region_eq",
                "src_check_geographic_coordinates_eq", "src_longitude_continuity_coords_eq"]
LON_IMPORTS = "From Coq Require Import ZifyBool.\nFrom Verde Require Import Model.Longitude Proofs.PyLiteBridge."


def lon_obligations():
    return tie("LonSrc", os.path.join("verde", "coordinates.py"), LON_FUNCS, "pylite_longitude.v.tmpl",
               LON_THEOREMS, LON_IMPORTS)


UTILS_FUNCS = ["partition_by_sum"]
UTILS_THEOREMS = ["src_partition_by_sum_eq"]
UTILS_IMPORTS = ("From Coq Require Import ZifyBool.\n"
                 "From Verde Require Import Model.CrossVal Proofs.CrossValProofs Proofs.PyLiteBridge.")


def utils_obligations():
    return tie("UtilsSrc", os.path.join("verde", "utils.py"), UTILS_FUNCS, "pylite_utils.v.tmpl",
               UTILS_THEOREMS, UTILS_IMPORTS)


CHECKS_FUNCS = ["check_data_names", "check_extra_coords_names", "check_data", "check_coordinates", "check_fit_input"]
CHECKS_THEOREMS = ["src_check_data_names_eq", "src_check_extra_coords_names_eq", "src_check_data_eq",
                   "src_check_coordinates_eq", "src_check_fit_input_eq", "src_check_fit_input_gen"]
CHECKS_IMPORTS = "From Verde Require Import Model.Checks Proofs.PyLiteBridge."


def checks_obligations():
    """verde/base/utils.py argument checks against Model/Checks.v (property C20); to hook it:
    `obligations = pylite_tie.checks_obligations` in harness/c20.py"""
    return tie("ChecksSrc", os.path.join("verde", "base", "utils.py"), CHECKS_FUNCS, "pylite_checks.v.tmpl",
               CHECKS_THEOREMS, CHECKS_IMPORTS)


TREND_FUNCS = ["polynomial_power_combinations"]
TREND_THEOREMS = ["src_polynomial_power_combinations_neg", "src_polynomial_power_combinations_eq"]
TREND_IMPORTS = "From Verde Require Import Model.Trend Proofs.PyLiteBridge."


def trend_obligations():
    """verde/trend.py polynomial_power_combinations against Model/Trend.v (property C03); to hook it:
    `obligations = pylite_tie.trend_obligations` in harness/c03.py"""
    return tie("TrendSrc", os.path.join("verde", "trend.py"), TREND_FUNCS, "pylite_trend.v.tmpl",
               TREND_THEOREMS, TREND_IMPORTS)


TREND_METHODS_FUNCS = ["Trend.predict", "Trend.jacobian", "Trend.fit",
                       (os.path.join("verde", "coordinates.py"), "get_region"),
                       (os.path.join("verde", "base", "utils.py"), "n_1d_arrays")]
TREND_METHODS_THEOREMS = ["src_Trend_predict_bcast", "src_Trend_predict_eq", "src_Trend_predict_scalar_east",
                          "src_Trend_predict_scalar_north", "src_Trend_predict_unfitted", "src_Trend_jacobian_eq",
                          "src_Trend_jacobian_shapes", "src_Trend_fit_eq", "src_Trend_fit_rejects"]
TREND_METHODS_IMPORTS = "From Verde Require Import Model.Trend Proofs.TrendProofs Proofs.PyLiteBridge."


_SPLINE = os.path.join("verde", "spline.py")
SPLINE_FUNCS = [(_SPLINE, "predict_numpy"), (_SPLINE, "jacobian_numpy"), (_SPLINE, "Spline.jacobian"),
                (_SPLINE, "Spline.predict"), (_SPLINE, "warn_weighted_exact_solution"), (_SPLINE, "Spline.fit")]
SPLINE_THEOREMS = ["src_jacobian_numpy_eq", "src_predict_numpy_eq", "src_Spline_jacobian_eq", "src_Spline_predict_eq",
                   "src_Spline_predict_unfitted", "src_warn_weighted_exact_solution_eq", "src_Spline_fit_eq",
                   "src_Spline_fit_rejects"]


_VECTOR_PY = os.path.join("verde", "vector.py")
VSPLINE_FUNCS = [(os.path.join("verde", "base", "utils.py"), "n_1d_arrays"), (os.path.join("verde", "coordinates.py"), "get_region"),
                 (_SPLINE, "warn_weighted_exact_solution"), (_VECTOR_PY, "jacobian_2d_numpy"), (_VECTOR_PY, "predict_2d_numpy"),
                 (_VECTOR_PY, "VectorSpline2D.jacobian"), (_VECTOR_PY, "VectorSpline2D.predict"), (_VECTOR_PY, "VectorSpline2D.fit")]
VSPLINE_THEOREMS = ["src_jacobian_2d_numpy_eq", "src_predict_2d_numpy_eq", "src_VectorSpline2D_jacobian_eq",
                    "src_VectorSpline2D_predict_eq", "src_VectorSpline2D_predict_unfitted", "src_VectorSpline2D_fit_eq",
                    "src_VectorSpline2D_fit_rejects", "src_VectorSpline2D_fit_components"]
VSPLINE_IMPORTS = "From Verde Require Import Model.Trend Proofs.TrendProofs Proofs.PyLiteBridge Proofs.PyLiteSpline."


def vspline_obligations():
    """verde/vector.py jacobian_2d_numpy / predict_2d_numpy / VectorSpline2D.jacobian / predict / fit against jac2_of /
    predict2_loop of Model/Trend.v (harness/pylite_vspline.v.tmpl; static lemmas in Proofs/PyLiteSpline.v)"""
    return tie("VSplineSrc", _VECTOR_PY, VSPLINE_FUNCS, "pylite_vspline.v.tmpl", VSPLINE_THEOREMS, VSPLINE_IMPORTS)


def c02_obligations():
    """least_squares (the solver glue) and VectorSpline2D (what it is given: the stacked data / weights and the block
    Jacobian); hooked as `obligations = pylite_tie.c02_obligations` in harness/c02.py"""
    return lsq_obligations() + vspline_obligations()


def c03_obligations():
    """verde/trend.py: polynomial_power_combinations (as trend_obligations) and, in the same generated file,
    Trend.predict / Trend.jacobian against trend_predict / trend_jacobian of Model/Trend.v, with the callee
    polynomial_power_combinations instantiated by its serialised source, and the glue of Trend.fit (its callees
    Trend.jacobian and get_region instantiated by their serialised sources, check_fit_input and least_squares
    arbitrary functions) (harness/pylite_trend_methods.v.tmpl)"""
    # ... and verde/spline.py jacobian_numpy / predict_numpy / Spline.jacobian / Spline.predict / Spline.fit against the
    # kernel-table loops of Model/Trend.v (harness/pylite_spline.v.tmpl; it reuses the lemmas of the two templates before)
    return tie("TrendSrc", os.path.join("verde", "trend.py"), TREND_FUNCS + TREND_METHODS_FUNCS + SPLINE_FUNCS,
               ["pylite_trend.v.tmpl", "pylite_trend_methods.v.tmpl", "pylite_spline.v.tmpl"],
               TREND_THEOREMS + TREND_METHODS_THEOREMS + SPLINE_THEOREMS, TREND_METHODS_IMPORTS)


LSQ_FUNCS = ["least_squares"]
LSQ_THEOREMS = ["src_least_squares_eq", "src_least_squares_minimises"]
LSQ_IMPORTS = ("From Verde Require Import Lib.LinAlgQ Model.LeastSquares Proofs.LeastSquaresProofs "
               "Proofs.PyLiteBridge.")


def lsq_obligations():
    """verde/base/least_squares.py least_squares (property C02): its glue against the code path of
    Model/LeastSquares.v (scaled_matrix / unscale), the scikit-learn objects by specification; to hook it:
    `obligations = pylite_tie.lsq_obligations` in harness/c02.py"""
    return tie("LsqSrc", os.path.join("verde", "base", "least_squares.py"), LSQ_FUNCS, "pylite_lsq.v.tmpl",
               LSQ_THEOREMS, LSQ_IMPORTS)


CV_FUNCS = [(os.path.join("verde", "base", "base_classes.py"), "BaseBlockCrossValidator.__init__"),
            "BlockKFold.__init__", "BlockShuffleSplit.__init__"]
CV_THEOREMS = ["src_BaseBlockCrossValidator_init_eq", "src_BlockKFold_init_eq", "src_BlockShuffleSplit_init_eq"]
CV_IMPORTS = ("From Coq Require Import ZifyBool.\n"
              "From Verde Require Import Model.CrossVal Proofs.PyLiteBridge.")


def cv_obligations():
    """argument validation of the blocked cross-validators' constructors (verde/model_selection.py,
    verde/base/base_classes.py) against the rejections of Model/CrossVal.v"""
    return tie("CVSrc", os.path.join("verde", "model_selection.py"), CV_FUNCS, "pylite_cv.v.tmpl",
               CV_THEOREMS, CV_IMPORTS)


def c11_obligations():
    return utils_obligations() + cv_obligations() + cvsplit_obligations() + bss_obligations()


_BASE_UTILS = os.path.join("verde", "base", "utils.py")
_BASE_CLASSES = os.path.join("verde", "base", "base_classes.py")
_COORDS = os.path.join("verde", "coordinates.py")
_VECTOR = os.path.join("verde", "vector.py")
CHAIN_FUNCS = [(_BASE_UTILS, "check_data_names"), (_BASE_UTILS, "check_extra_coords_names"), (_BASE_UTILS, "check_data"),
               (_BASE_UTILS, "check_coordinates"), (_BASE_UTILS, "check_fit_input"),
               "Chain.predict", (_BASE_CLASSES, "BaseGridder.filter"), "Chain.fit", (_COORDS, "get_region"),
               "Chain.__init__",
               (_VECTOR, "Vector.fit"), (_VECTOR, "Vector.predict"), (_VECTOR, "Vector.__init__")]
CHAIN_THEOREMS = ["src_Chain_predict_eq", "chain_predict_from_fold",
                  "src_BaseGridder_filter_eq", "src_Chain_fit_eq", "src_Chain_fit_calls", "chain_fit_calls_model",
                  "src_Chain_init_eq",
                  "src_Vector_fit_eq", "src_Vector_fit_calls", "src_Vector_predict_eq", "src_Vector_init_eq",
                  "vector_calls_model", "vector_predict_model"]
CHAIN_IMPORTS = "From Verde Require Import Model.Chain Proofs.PyLiteBridge."
# Chain + Vector in one file (the checks template first: Vector.fit calls check_fit_input); Model.Checks is
# required but not imported (its `run` / `call` / `vector_fit` would shadow PyLite's and Model.Chain's)
CHAINV_IMPORTS = "From Verde Require Model.Checks.\nFrom Verde Require Import Model.Chain Proofs.PyLiteBridge."
CHAIN_TEMPLATES = ["pylite_checks.v.tmpl", "pylite_chain.v.tmpl", "pylite_vector.v.tmpl"]


def chain_obligations():
    """verde/chain.py Chain.predict / Chain.fit / Chain.__init__, BaseGridder.filter and verde/vector.py
    Vector.fit / Vector.predict / Vector.__init__ against Model/Chain.v (property C06); the checks template
    comes first because Vector.fit calls check_fit_input (its theorems are reported by C20, not here).
    To hook it: `obligations = pylite_tie.chain_obligations` in harness/c06.py"""
    return tie("ChainSrc", os.path.join("verde", "chain.py"), CHAIN_FUNCS, CHAIN_TEMPLATES,
               CHAIN_THEOREMS, CHAINV_IMPORTS)


GRIDDER_FUNCS = ["get_instance_region", "BaseGridder._get_dims", "BaseGridder._get_data_names",
                 (_BASE_UTILS, "check_data_names"), "BaseGridder._get_extra_coords_names"]
GRIDDER_THEOREMS = ["src_get_instance_region_eq", "src_BaseGridder_get_dims_eq", "src_BaseGridder_get_data_names_eq",
                    "src_BaseGridder_get_extra_coords_names_eq"]
GRIDDER_IMPORTS = "From Verde Require Import Model.Gridder Proofs.PyLiteBridge."


def gridder_obligations():
    """verde/base/base_classes.py get_instance_region, BaseGridder._get_dims / _get_data_names /
    _get_extra_coords_names against the naming and defaulting rules of Model/Gridder.v (property C05);
    to hook it: `obligations = pylite_tie.gridder_obligations` in harness/c05.py"""
    return tie("GridderSrc", _BASE_CLASSES, GRIDDER_FUNCS, "pylite_gridder.v.tmpl", GRIDDER_THEOREMS, GRIDDER_IMPORTS)


GRIDDERM_FUNCS = GRIDDER_FUNCS + [(_BASE_UTILS, "check_data"), "BaseGridder.grid", "BaseGridder.scatter",
                                  "BaseGridder.profile"]
GRIDDERM_THEOREMS = ["src_BaseGridder_grid_eq", "src_BaseGridder_scatter_eq", "src_BaseGridder_profile_eq"]
GRIDDERM_TEMPLATES = ["pylite_gridder.v.tmpl", "pylite_gridder_methods.v.tmpl"]


def c05_obligations():
    """gridder_obligations and, in the same generated file, the glue of BaseGridder.grid / scatter / profile
    (harness/pylite_gridder_methods.v.tmpl): which callee receives which arguments in which order, what is
    projected and what is not, what the Dataset / DataFrame is built from"""
    return tie("GridderSrc", _BASE_CLASSES, GRIDDERM_FUNCS, GRIDDERM_TEMPLATES, GRIDDER_THEOREMS + GRIDDERM_THEOREMS,
               GRIDDER_IMPORTS)


_MODSEL = os.path.join("verde", "model_selection.py")
SCORE_FUNCS = ["check_data", "score_estimator", (_BASE_CLASSES, "BaseGridder.score")]
SCORE_THEOREMS = ["src_BaseGridder_score_eq", "src_score_estimator_eq"]
SCORE_TEMPLATES = ["pylite_score.v.tmpl"]
SCORE_IMPORTS = ("From Verde Require Model.Scoring.\n"
                 "From Verde Require Import Proofs.PyLiteBridge Proofs.PyLiteCV.")


def score_obligations():
    """verde/base/utils.py score_estimator and BaseGridder.score against Model/Scoring.v score_tuple (property C12)"""
    return tie("ScoreSrc", _BASE_UTILS, SCORE_FUNCS, SCORE_TEMPLATES, SCORE_THEOREMS, SCORE_IMPORTS)


CVSCORE_FUNCS = [(_BASE_UTILS, f) if isinstance(f, str) else f for f in SCORE_FUNCS] + [
    (os.path.join("verde", "utils.py"), "dispatch"), "select", "fit_score", "cross_val_score", "train_test_split"]
CVSCORE_THEOREMS = SCORE_THEOREMS + ["src_select_eq", "src_select_nones", "src_fit_score_eq", "src_dispatch_eq",
                                     "src_cross_val_score_eq", "cross_val_score_model", "src_train_test_split_eq"]
CVSCORE_TEMPLATES = ["pylite_score.v.tmpl", "pylite_cvscore.v.tmpl", "pylite_tts.v.tmpl"]
CVSCORE_IMPORTS = SCORE_IMPORTS


def cvscore_obligations():
    """score_obligations and, in the same generated file, verde/model_selection.py select / fit_score /
    cross_val_score (+ verde/utils.py dispatch) against Model/Scoring.v (harness/pylite_cvscore.v.tmpl)"""
    return tie("CVScoreSrc", _MODSEL, CVSCORE_FUNCS, CVSCORE_TEMPLATES, CVSCORE_THEOREMS, CVSCORE_IMPORTS)


def c12_obligations():
    return cvscore_obligations()


SURFER_FUNCS = ["_read_surfer_header", "_check_surfer_integrity"]
SURFER_THEOREMS = ["src_read_surfer_header_eq", "src_check_surfer_integrity_eq"]
SURFER_IMPORTS = ("From Verde Require Import Lib.Dyadic Model.Surfer Proofs.SurferProofs Proofs.PyLiteBridge "
                  "Proofs.PyLiteSurfer.")
SURFER_SPEC = ("SurferSrc", os.path.join("verde", "io.py"), SURFER_FUNCS, "pylite_surfer.v.tmpl", SURFER_IMPORTS)


def surfer_obligations():
    """verde/io.py _read_surfer_header / _check_surfer_integrity against Model/Surfer.v (property C19)"""
    tag, mod_, funcs, tmpl, imports = SURFER_SPEC
    return tie(tag, mod_, funcs, tmpl, SURFER_THEOREMS, imports)


CVSPLIT_FUNCS = [(os.path.join("verde", "utils.py"), "partition_by_sum"),
                 "BlockKFold._iter_test_indices",
                 (os.path.join("verde", "base", "base_classes.py"), "BaseBlockCrossValidator.split")]
CVSPLIT_THEOREMS = ["src_BlockKFold_iter_test_indices_eq", "src_BlockKFold_split_eq"]
CVSPLIT_IMPORTS = ("From Coq Require Import ZifyBool Permutation.\n"
                   "From Verde Require Import Model.CrossVal Proofs.CrossValProofs Proofs.PyLiteBridge Proofs.PyLiteCV.")
CVSPLIT_SPEC = ("CVSplitSrc", os.path.join("verde", "model_selection.py"), CVSPLIT_FUNCS, "pylite_cvsplit.v.tmpl",
                CVSPLIT_IMPORTS)


def cvsplit_obligations():
    """BlockKFold._iter_test_indices / BaseBlockCrossValidator.split against Model/CrossVal.v (property C11)"""
    tag, mod_, funcs, tmpl, imports = CVSPLIT_SPEC
    return tie(tag, mod_, funcs, tmpl, CVSPLIT_THEOREMS, imports)


BSS_FUNCS = ["BlockShuffleSplit._iter_test_indices",
             (os.path.join("verde", "base", "base_classes.py"), "BaseBlockCrossValidator.split")]
BSS_THEOREMS = ["src_BlockShuffleSplit_iter_test_indices_eq", "src_BlockShuffleSplit_split_eq"]
BSS_SPEC = ("BSSSrc", os.path.join("verde", "model_selection.py"), BSS_FUNCS, "pylite_bss.v.tmpl", CVSPLIT_IMPORTS)


def bss_obligations():
    """BlockShuffleSplit._iter_test_indices against Model/CrossVal.v block_shuffle_split (property C11)"""
    tag, mod_, funcs, tmpl, imports = BSS_SPEC
    return tie(tag, mod_, funcs, tmpl, BSS_THEOREMS, imports)


WINDOWS_FUNCS = ["rolling_window", "expanding_window"]
WINDOWS_THEOREMS = ["src_expanding_window_eq", "expanding_window_model", "src_rolling_window_eq", "rolling_window_model"]
WINDOWS_IMPORTS = ("From Verde Require Import Model.CoordCases Model.Blocks Model.Windows Proofs.PyLiteBridge.")
WINDOWS_SPEC = ("WindowsSrc", os.path.join("verde", "coordinates.py"), WINDOWS_FUNCS, "pylite_windows.v.tmpl",
                WINDOWS_IMPORTS)


def windows_obligations():
    """rolling_window / expanding_window (validation, window centres, query plumbing) against Model/Windows.v (C14)"""
    tag, mod_, funcs, tmpl, imports = WINDOWS_SPEC
    return tie(tag, mod_, funcs, tmpl, WINDOWS_THEOREMS, imports)


WEIGHTS_FUNCS = [(_BASE_UTILS, "check_data"), "variance_to_weights", "maxabs"]
V2W_THEOREMS = ["src_variance_to_weights_eq", "src_variance_to_weights_single_eq", "src_variance_to_weights_defaults"]
MAXABS_THEOREMS = ["src_maxabs_eq", "src_maxabs_raises"]
WEIGHTS_IMPORTS = ("From Coq Require Import Qminmax.\n"
                   "From Verde Require Import Lib.QList Model.Weights Proofs.WeightsProofs Proofs.PyLiteBridge "
                   "Proofs.PyLiteWeights.")
WEIGHTS_SPEC = ("WeightsSrc", os.path.join("verde", "utils.py"), WEIGHTS_FUNCS, "pylite_weights.v.tmpl", WEIGHTS_IMPORTS)


def weights_obligations(theorems=None):
    """verde/utils.py variance_to_weights against Model/Weights.v (C10) and maxabs against Model/Coordinates.v
    maxabs (C13); one generated file, each property reports its own theorems"""
    tag, mod_, funcs, tmpl, imports = WEIGHTS_SPEC
    return tie(tag, mod_, funcs, tmpl, theorems or (V2W_THEOREMS + MAXABS_THEOREMS), imports)


def c10_obligations():
    """variance_to_weights (more ties of C10 are appended here)"""
    return weights_obligations(V2W_THEOREMS) + blockreduce_obligations()


def c13_obligations():
    """the coordinate functions of C13 plus maxabs"""
    return coord_obligations() + weights_obligations(MAXABS_THEOREMS)


BLOCKRED_FUNCS = ["BlockReduce._block_coordinates", "BlockReduce.filter"]
BLOCKRED_THEOREMS = ["src_BlockReduce_block_coordinates_eq", "src_BlockReduce_filter_unweighted_eq",
                     "src_BlockReduce_filter_weighted_eq"]
BLOCKRED_IMPORTS = ("From Verde Require Import Lib.QList Model.BlockReduce Proofs.BlockReduceProofs Proofs.PyLiteBridge "
                    "Proofs.PyLiteBlocks.")
BLOCKRED_SPEC = ("BlockReduceSrc", os.path.join("verde", "blockreduce.py"), BLOCKRED_FUNCS,
                 ["pylite_blockreduce.v.tmpl", "pylite_blockreduce_filter.v.tmpl"], BLOCKRED_IMPORTS)


def blockreduce_obligations():
    """verde/blockreduce.py BlockReduce._block_coordinates against Model/BlockReduce.v block_coords (C09, C10) and
    BlockReduce.filter without weights against block_coords / block_data (C09)"""
    tag, mod_, funcs, tmpl, imports = BLOCKRED_SPEC
    return tie(tag, mod_, funcs, tmpl, BLOCKRED_THEOREMS, imports)


BLOCKSPLIT_FUNCS = COORD_FUNCS + [(_BASE_UTILS, "check_coordinates"), (_BASE_UTILS, "n_1d_arrays"), "block_split"]
BLOCKSPLIT_THEOREMS = ["src_block_split_eq", "block_split_model"]
# sections of the coordinates template that block_split does not use (the slow shape_to_spacing proof, inside)
BLOCKSPLIT_SKIP = ("shape_to_spacing", "inside (calls check_region)")
BLOCKSPLIT_SPEC = ("BlockSplitSrc", os.path.join("verde", "coordinates.py"), BLOCKSPLIT_FUNCS,
                   ["pylite_coordinates.v.tmpl", "pylite_blocksplit.v.tmpl"],
                   COORD_IMPORTS + "\nFrom Verde Require Import Model.Blocks Proofs.PyLiteWeights Proofs.PyLiteGrid2.")


def blocksplit_obligations():
    """verde/coordinates.py block_split against Model/Blocks.v block_split (C08); the coordinates template comes
    first because block_split calls get_region and grid_coordinates (their theorems are reported by C07 / C13)"""
    tag, mod_, funcs, tmpl, imports = BLOCKSPLIT_SPEC
    return tie(tag, mod_, funcs, tmpl, BLOCKSPLIT_THEOREMS, imports, skip=BLOCKSPLIT_SKIP)


PROFILE_FUNCS = ["profile_coordinates"]
PROFILE_THEOREMS = ["src_profile_coordinates_eq", "profile_code_model"]
PROFILE_IMPORTS = "From Coq Require Import Field.\nFrom Verde Require Import Proofs.PyLiteBridge."
PROFILE_SPEC = ("ProfileSrc", os.path.join("verde", "coordinates.py"), PROFILE_FUNCS, "pylite_profile.v.tmpl", PROFILE_IMPORTS)


def profile_obligations():
    """verde/coordinates.py profile_coordinates against Model/Coordinates.v profile_points / profile_dist2 (C07)"""
    tag, mod_, funcs, tmpl, imports = PROFILE_SPEC
    return tie(tag, mod_, funcs, tmpl, PROFILE_THEOREMS, imports)


def c07_obligations():
    """the coordinate functions of C07 plus profile_coordinates"""
    return coord_obligations() + profile_obligations()
