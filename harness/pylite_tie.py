"""Source-regenerated ties (C07, C13: scalar coordinate functions; C17: longitude_continuity; C11:
partition_by_sum).

On every run the Python source of the tied functions is read from the checkout under test, serialised
into PyLite terms (coq/theories/Lib/PyLite.v) by harness/translate_pylite.py, and coqc re-proves - for
ALL arguments - that running the serialised source gives what the hand-written model gives (theorems
in harness/pylite_*.v.tmpl).  A source change that alters the behaviour of one of these functions
breaks its theorem; so can a harmless rewrite (then the check reports the broken obligation with
`no-failing-input-found` after the correspondence search found nothing)."""
import os
import re
import subprocess
import time
from . import core, translate_pylite

HEAD = """From Coq Require Import QArith Qround Qabs ZArith List Bool String Lia Lqa.
From Verde Require Import Lib.QExtra Model.Coordinates Lib.PyLite.
%s
Import ListNotations.
Open Scope string_scope.

"""

SECTION = re.compile(r"^\(\* ---------- (.*?) ---------- \*\)\s*$", re.M)


def _compile(path, d):
    p = subprocess.run(["timeout", "600", "coqc", "-R", os.path.join(core.COQ, "theories"), "Verde", "-w", "-all", path],
                       stdout=subprocess.PIPE, stderr=subprocess.STDOUT, text=True, cwd=d)
    return p.returncode, p.stdout


def _failing_theorem(path, out):
    m = re.search(r'line (\d+), characters', out)
    line = int(m.group(1)) if m else 0
    src = open(path).read().splitlines()
    for l in src[:line][::-1]:
        mm = re.match(r"\s*(?:Theorem|Lemma)\s+(\w+)", l)
        if mm:
            return mm.group(1), line
    return None, line


def tie(tag, module_path, funcs, tmpl_name, theorems, imports=""):
    """Generate build/PyLite_<pid>/<tag>.v from the current source and the template, compile it, and return
    [(theorem, ok, detail)].  The template is a sequence of sections introduced by
    `(* ---------- title ---------- *)`; when a proof fails, the section containing it is dropped and the
    file recompiled, so that every theorem is judged on its own (a theorem that needs a dropped one fails
    too)."""
    d = os.path.join(core.BUILD, "PyLite_%d" % os.getpid())
    os.makedirs(d, exist_ok=True)
    path = os.path.join(d, tag + ".v")
    defs = {}
    untranslated = {}
    # funcs: names in module_path, or (module path, name) pairs for functions of other modules
    where = [(f if isinstance(f, tuple) else (module_path, f)) for f in funcs]
    funcs = [f for _, f in where]
    for mod_, fn in where:
        try:
            defs.update(translate_pylite.translate(os.path.join(core.REPO, mod_), [fn]))
        except translate_pylite.Unsupported as exc:
            untranslated[fn] = str(exc)      # its theorems (and those that use it) will fail to compile
        except (OSError, SyntaxError) as exc:
            return [(t, False, "cannot read the source: %s" % exc) for t in theorems]
    tmpl = open(os.path.join(os.path.dirname(__file__), tmpl_name)).read()
    # split the template into sections
    pos = [m.start() for m in SECTION.finditer(tmpl)] + [len(tmpl)]
    sections = [tmpl[:pos[0]]] + [tmpl[pos[i]:pos[i + 1]] for i in range(len(pos) - 1)]
    head = HEAD % imports + "\n".join(defs[n] for n in funcs if n in defs) + "\n"
    failed = {}
    t0 = time.time()
    for _ in range(len(sections) + 1):
        with open(path, "w") as f:
            f.write(head + "".join(sections))
        rc, out = _compile(path, d)
        if rc == 0:
            break
        name, line = _failing_theorem(path, out)
        # locate the section that contains the failing line
        at = head.count("\n")
        hit = None
        for i, sec in enumerate(sections):
            n = sec.count("\n")
            if at < line <= at + n:
                hit = i
                break
            at += n
        if hit is None or not sections[hit]:
            for t in theorems:
                failed.setdefault(t, "coqc failed outside the template sections: " + out[-500:])
            break
        why = "".join("translator failed closed on %s: %s; " % (f, m) for f, m in untranslated.items()
                      if "src_" + f.replace(".", "_") in sections[hit])
        for t in re.findall(r"^\s*Theorem\s+(\w+)", sections[hit], re.M):
            failed.setdefault(t, "NOT re-proved: %scoqc failed in %s: %s" % (why, name, out[-500:]))
        sections[hit] = ""
    secs = time.time() - t0
    closed = out.count("Closed under the global context") if rc == 0 else 0
    res = []
    for t in theorems:
        if t in failed:
            res.append((t, False, failed[t]))
        elif rc != 0:
            res.append((t, False, "NOT re-proved: " + out[-500:]))
        else:
            res.append((t, True, "re-proved against the current source (%d closed under the global context; %.1f s)" % (closed, secs)))
    for fn in os.listdir(d):
        os.unlink(os.path.join(d, fn))
    os.rmdir(d)
    return res


COORD_FUNCS = ["check_region", "get_region", "pad_region", "spacing_to_size", "line_coordinates", "shape_to_spacing",
               "grid_coordinates", "inside"]
COORD_THEOREMS = ["src_check_region_eq", "src_get_region_eq", "src_pad_region_scalar_eq", "src_pad_region_pair_eq",
                  "src_spacing_to_size_eq", "src_line_coordinates_eq", "src_shape_to_spacing_eq",
                  "src_grid_coordinates_eq", "src_inside_eq"]
COORD_IMPORTS = "From Verde Require Import Proofs.PyLiteBridge."


def coord_obligations():
    """returns list of (name, ok, detail)"""
    return tie("CoordSrc", os.path.join("verde", "coordinates.py"), COORD_FUNCS, "pylite_coordinates.v.tmpl",
               COORD_THEOREMS, COORD_IMPORTS)


LON_FUNCS = ["_check_geographic_region", "_check_geographic_coordinates", "longitude_continuity"]
LON_THEOREMS = ["src_check_geographic_region_eq", "src_longitude_continuity_region_eq",
                "src_check_geographic_coordinates_eq", "src_longitude_continuity_coords_eq"]
LON_IMPORTS = "From Coq Require Import ZifyBool.\nFrom Verde Require Import Model.Longitude Proofs.PyLiteBridge."


def lon_obligations():
    return tie("LonSrc", os.path.join("verde", "coordinates.py"), LON_FUNCS, "pylite_longitude.v.tmpl",
               LON_THEOREMS, LON_IMPORTS)


UTILS_FUNCS = ["partition_by_sum"]
UTILS_THEOREMS = ["src_partition_by_sum_eq"]
UTILS_IMPORTS = ("From Coq Require Import ZifyBool.\n"
                 "From Verde Require Import Model.CrossVal Proofs.CrossValProofs Proofs.PyLiteBridge.")


def utils_obligations():
    return tie("UtilsSrc", os.path.join("verde", "utils.py"), UTILS_FUNCS, "pylite_utils.v.tmpl",
               UTILS_THEOREMS, UTILS_IMPORTS)


CHECKS_FUNCS = ["check_data_names", "check_extra_coords_names", "check_data", "check_coordinates", "check_fit_input"]
CHECKS_THEOREMS = ["src_check_data_names_eq", "src_check_extra_coords_names_eq", "src_check_data_eq",
                   "src_check_coordinates_eq", "src_check_fit_input_eq"]
CHECKS_IMPORTS = "From Verde Require Import Model.Checks Proofs.PyLiteBridge."


def checks_obligations():
    """verde/base/utils.py argument checks against Model/Checks.v (property C20); to hook it:
    `obligations = pylite_tie.checks_obligations` in harness/c20.py"""
    return tie("ChecksSrc", os.path.join("verde", "base", "utils.py"), CHECKS_FUNCS, "pylite_checks.v.tmpl",
               CHECKS_THEOREMS, CHECKS_IMPORTS)


TREND_FUNCS = ["polynomial_power_combinations"]
TREND_THEOREMS = ["src_polynomial_power_combinations_neg", "src_polynomial_power_combinations_eq"]
TREND_IMPORTS = "From Verde Require Import Model.Trend Proofs.PyLiteBridge."


def trend_obligations():
    """verde/trend.py polynomial_power_combinations against Model/Trend.v (property C03); to hook it:
    `obligations = pylite_tie.trend_obligations` in harness/c03.py"""
    return tie("TrendSrc", os.path.join("verde", "trend.py"), TREND_FUNCS, "pylite_trend.v.tmpl",
               TREND_THEOREMS, TREND_IMPORTS)


CV_FUNCS = [(os.path.join("verde", "base", "base_classes.py"), "BaseBlockCrossValidator.__init__"),
            "BlockKFold.__init__", "BlockShuffleSplit.__init__"]
CV_THEOREMS = ["src_BaseBlockCrossValidator_init_eq", "src_BlockKFold_init_eq", "src_BlockShuffleSplit_init_eq"]
CV_IMPORTS = ("From Coq Require Import ZifyBool.\n"
              "From Verde Require Import Model.CrossVal Proofs.PyLiteBridge.")


def cv_obligations():
    """argument validation of the blocked cross-validators' constructors (verde/model_selection.py,
    verde/base/base_classes.py) against the rejections of Model/CrossVal.v"""
    return tie("CVSrc", os.path.join("verde", "model_selection.py"), CV_FUNCS, "pylite_cv.v.tmpl",
               CV_THEOREMS, CV_IMPORTS)


def c11_obligations():
    return utils_obligations() + cv_obligations() + cvsplit_obligations() + bss_obligations()


CHAIN_FUNCS = ["Chain.predict", (os.path.join("verde", "base", "utils.py"), "check_data")]
CHAIN_THEOREMS = ["src_Chain_predict_eq", "chain_predict_from_fold"]
CHAIN_IMPORTS = "From Verde Require Import Model.Chain Proofs.PyLiteBridge."


def chain_obligations():
    """verde/chain.py Chain.predict against Model/Chain.v (property C06); to hook it:
    `obligations = pylite_tie.chain_obligations` in harness/c06.py"""
    return tie("ChainSrc", os.path.join("verde", "chain.py"), CHAIN_FUNCS, "pylite_chain.v.tmpl",
               CHAIN_THEOREMS, CHAIN_IMPORTS)


SURFER_FUNCS = ["_read_surfer_header", "_check_surfer_integrity"]
SURFER_THEOREMS = ["src_read_surfer_header_eq", "src_check_surfer_integrity_eq"]
SURFER_IMPORTS = ("From Verde Require Import Lib.Dyadic Model.Surfer Proofs.SurferProofs Proofs.PyLiteBridge "
                  "Proofs.PyLiteSurfer.")
SURFER_SPEC = ("SurferSrc", os.path.join("verde", "io.py"), SURFER_FUNCS, "pylite_surfer.v.tmpl", SURFER_IMPORTS)


def surfer_obligations():
    """verde/io.py _read_surfer_header / _check_surfer_integrity against Model/Surfer.v (property C19)"""
    tag, mod_, funcs, tmpl, imports = SURFER_SPEC
    return tie(tag, mod_, funcs, tmpl, SURFER_THEOREMS, imports)


CVSPLIT_FUNCS = [(os.path.join("verde", "utils.py"), "partition_by_sum"),
                 "BlockKFold._iter_test_indices",
                 (os.path.join("verde", "base", "base_classes.py"), "BaseBlockCrossValidator.split")]
CVSPLIT_THEOREMS = ["src_BlockKFold_iter_test_indices_eq", "src_BlockKFold_split_eq"]
CVSPLIT_IMPORTS = ("From Coq Require Import ZifyBool Permutation.\n"
                   "From Verde Require Import Model.CrossVal Proofs.CrossValProofs Proofs.PyLiteBridge Proofs.PyLiteCV.")
CVSPLIT_SPEC = ("CVSplitSrc", os.path.join("verde", "model_selection.py"), CVSPLIT_FUNCS, "pylite_cvsplit.v.tmpl",
                CVSPLIT_IMPORTS)


def cvsplit_obligations():
    """BlockKFold._iter_test_indices / BaseBlockCrossValidator.split against Model/CrossVal.v (property C11)"""
    tag, mod_, funcs, tmpl, imports = CVSPLIT_SPEC
    return tie(tag, mod_, funcs, tmpl, CVSPLIT_THEOREMS, imports)


BSS_FUNCS = ["BlockShuffleSplit._iter_test_indices",
             (os.path.join("verde", "base", "base_classes.py"), "BaseBlockCrossValidator.split")]
BSS_THEOREMS = ["src_BlockShuffleSplit_iter_test_indices_eq", "src_BlockShuffleSplit_split_eq"]
BSS_SPEC = ("BSSSrc", os.path.join("verde", "model_selection.py"), BSS_FUNCS, "pylite_bss.v.tmpl", CVSPLIT_IMPORTS)


def bss_obligations():
    """BlockShuffleSplit._iter_test_indices against Model/CrossVal.v block_shuffle_split (property C11)"""
    tag, mod_, funcs, tmpl, imports = BSS_SPEC
    return tie(tag, mod_, funcs, tmpl, BSS_THEOREMS, imports)


WINDOWS_FUNCS = ["rolling_window", "expanding_window"]
WINDOWS_THEOREMS = ["src_expanding_window_eq", "expanding_window_model", "src_rolling_window_eq", "rolling_window_model"]
WINDOWS_IMPORTS = ("From Verde Require Import Model.CoordCases Model.Blocks Model.Windows Proofs.PyLiteBridge.")
WINDOWS_SPEC = ("WindowsSrc", os.path.join("verde", "coordinates.py"), WINDOWS_FUNCS, "pylite_windows.v.tmpl",
                WINDOWS_IMPORTS)


def windows_obligations():
    """rolling_window / expanding_window (validation, window centres, query plumbing) against Model/Windows.v (C14)"""
    tag, mod_, funcs, tmpl, imports = WINDOWS_SPEC
    return tie(tag, mod_, funcs, tmpl, WINDOWS_THEOREMS, imports)
