"""Shared machinery of the /verif checks.

A property module (harness/cNN.py) provides

    ID            "C17"
    PROPS_FILE    "Props/C17.v"          (theorem statements + Print Assumptions)
    RULE          str                    (how cases are generated / what is non-trivial)
    ASSUMPTIONS   [str]                  (trusted base specific to the property)
    def generate(tier, seed) -> list[Case]
    def known(case) -> str | None        (optional: classify a violating case)

A Case carries the input, the implementation's observed output (obtained by
running verde imported from /repo's working tree), a Coq term that evaluates
to a `verdict` (see coq/theories/Lib/Verdict.v) and a python one-liner that
reproduces the observation.  Cases are sharded into generated .v files which
`coqc` evaluates with vm_compute; the verdict string is parsed back.
"""
import hashlib
import json
import math
import os
import re
import subprocess
import sys
import time
import fcntl

VERIF = os.path.dirname(os.path.dirname(os.path.abspath(__file__)))
REPO = os.environ.get("VERDE_REPO", "/repo")
COQ = os.path.join(VERIF, "coq")
BUILD = os.path.join(VERIF, "build")
NPROC = int(os.environ.get("VERIF_JOBS", "16"))

os.environ.setdefault("PYTHONHASHSEED", "0")
os.environ.setdefault("OMP_NUM_THREADS", "1")
os.environ.setdefault("OPENBLAS_NUM_THREADS", "1")
os.environ["VERDE_VERIF"] = "1"
if REPO not in sys.path:
    sys.path.insert(0, REPO)

FORBIDDEN = re.compile(
    r"\b(Admitted|admit|Axiom|Axioms|Parameter|Parameters|Conjecture|Conjectures|"
    r"Admit Obligations|Unset Guard Checking|Unset Positivity Checking|"
    r"Unset Universe Checking|bypass_check|native_compute)\b"
)


# ---------------------------------------------------------------------------
# Coq literals
# ---------------------------------------------------------------------------
def cfloat(x):
    """a finite python float as a Coq primitive float literal (exact)."""
    x = float(x)
    if not math.isfinite(x):
        raise ValueError("non-finite float has no dyadic value: %r" % x)
    if x == 0:
        return "0%float"
    h = x.hex()
    if h.startswith("-"):
        return "(-%s)%%float" % h[1:]
    return "%s%%float" % h


def cD(x):
    """a finite float as an exact dyadic D (m*2^e): emitted as a primitive float literal
    converted inside Coq by Lib.Dyadic.DF (fast to parse, exact)."""
    x = float(x)
    if not math.isfinite(x):
        raise ValueError("non-finite float has no dyadic value: %r" % x)
    if x == 0:
        return "(0,0)%Z"
    h = x.hex()
    if h.startswith("-"):
        return "(DF (-%s)%%float)" % h[1:]
    return "(DF %s%%float)" % h


def cOD(x):
    """option dyadic: None for NaN / inf."""
    x = float(x)
    if not math.isfinite(x):
        return "None"
    return "(Some %s)" % cD(x)


def cZraw(n):
    n = int(n)
    return "(%d)" % n if n < 0 else "%d" % n


def cZ(n):
    return "(%d)%%Z" % int(n)


def cN(n):
    return "%d%%nat" % int(n)


def cbool(b):
    return "true" if b else "false"


def clist(items):
    return "[" + "; ".join(items) + "]"


def cpair(*items):
    return "(" + ", ".join(items) + ")"


def cstr(s):
    return '"' + s.replace('"', '""') + '"%string'


def copt(x, f):
    return "None" if x is None else "(Some %s)" % f(x)


# ---------------------------------------------------------------------------
class Case:
    __slots__ = ("inp", "out", "term", "repro", "kind", "nontrivial", "verdict", "key")

    def __init__(self, inp, out, term, repro="", kind="", nontrivial=True, key=None):
        self.inp = inp          # JSON-able description of the input
        self.out = out          # JSON-able observed implementation output
        self.term = term        # Coq term : verdict
        self.repro = repro      # python snippet reproducing the observation
        self.kind = kind        # generator stream / class (for the histogram)
        self.nontrivial = nontrivial
        self.verdict = None
        self.key = key if key is not None else json.dumps(inp, sort_keys=True, default=str)


def relayout(arr, rnd):
    """the same logical array (same shape, dtype, element sequence) in a randomly chosen memory layout:
    C-contiguous, Fortran-ordered, a transposed view of a transposed copy, or a strided view of a larger
    buffer.  Results must never depend on this."""
    import numpy as np
    a = np.asarray(arr)
    if a.ndim == 0:
        return a
    k = rnd.randrange(4)
    if k == 0:
        return np.ascontiguousarray(a)
    if k == 1:
        return np.asfortranarray(a) if a.ndim >= 2 else a[::-1].copy()[::-1]
    if k == 2 and a.ndim >= 2:
        return a.T.copy().T
    big = np.zeros(tuple(2 * n for n in a.shape), dtype=a.dtype)
    sl = tuple(slice(None, None, 2) for _ in a.shape)
    big[sl] = a
    return big[sl]


def guarded(make_case, inp, kind):
    """run a case constructor; if the implementation (or the observation of its output) raises on an
    input that is expected to work, turn that into a violating case carrying the input, instead of
    aborting the whole run"""
    import traceback
    try:
        return make_case()
    except Exception as exc:  # the implementation raised on a valid input
        return Case(inp, {"unexpected_exception": repr(exc), "trace": traceback.format_exc()[-1500:]},
                    "Vboth", "# the call raised: %r" % (exc,), kind + "-raised", nontrivial=True)


# ---------------------------------------------------------------------------
# Coq build
# ---------------------------------------------------------------------------
def _lock():
    os.makedirs(BUILD, exist_ok=True)
    f = open(os.path.join(BUILD, ".lock"), "w")
    fcntl.flock(f, fcntl.LOCK_EX)
    return f


def scan_forbidden():
    bad = []
    for root, _, files in os.walk(os.path.join(COQ, "theories")):
        for fn in files:
            if fn.endswith(".v"):
                p = os.path.join(root, fn)
                txt = open(p).read()
                txt = re.sub(r"\(\*.*?\*\)", "", txt, flags=re.S)
                for m in FORBIDDEN.finditer(txt):
                    bad.append("%s: %s" % (os.path.relpath(p, VERIF), m.group(0)))
    return bad


def coq_build(timeout=3000):
    """full .vo build of the development (a dependency check when up to date).
    returns (ok, log)"""
    lock = _lock()
    try:
        subprocess.run(["sh", os.path.join(COQ, "gen_coqproject.sh")], check=True)
        p = subprocess.run(
            ["timeout", str(timeout), "make", "-C", COQ, "-j%d" % NPROC],
            stdout=subprocess.PIPE, stderr=subprocess.STDOUT, text=True)
        return p.returncode == 0, p.stdout
    finally:
        lock.close()


def props_assumptions(props_file, timeout=600):
    """re-check the property file on its own and capture its output:
    returns (ok, theorem_names, assumptions_text)"""
    path = os.path.join(COQ, "theories", props_file)
    src = open(path).read()
    names = re.findall(r"^\s*(?:Theorem|Corollary)\s+(\w+)", src, flags=re.M)
    lock = _lock()
    try:
        p = subprocess.run(
            ["timeout", str(timeout), "coqc", "-R", os.path.join(COQ, "theories"), "Verde",
             "-w", "-notation-overridden,-deprecated-hint-without-locality,-deprecated-instance-without-locality,-deprecated-syntactic-definition",
             path],
            stdout=subprocess.PIPE, stderr=subprocess.STDOUT, text=True, cwd=COQ)
    finally:
        lock.close()
    return p.returncode == 0, names, p.stdout


def summarise_assumptions(text):
    """collapse Print Assumptions output to the set of axiom names"""
    ax = set()
    closed = 0
    for line in text.splitlines():
        if "Closed under the global context" in line:
            closed += 1
        m = re.match(r"^([A-Za-z_][\w.']*)\s*:", line)
        if m and not line.startswith(" "):
            ax.add(m.group(1))
    return closed, sorted(ax)


# ---------------------------------------------------------------------------
# Evaluating cases in Coq
# ---------------------------------------------------------------------------
HEADER = """From Coq Require Import ZArith QArith List String Bool PrimFloat.
From Verde Require Import Lib.Verdict Lib.Dyadic.
%s
Import ListNotations.
Open Scope string_scope.
Set Printing Width 1000000.
Set Printing Depth 1000000.
"""

VCHARS = {"a": "ok", "d": "disagree", "v": "violation", "x": "both", "t": "skip"}


def eval_cases(pid, cases, imports, shard=300, timeout=900, prelude=""):
    """write build/<pid>/cases_k.v, run coqc in parallel, set case.verdict.
    returns (ok, log)."""
    d = os.path.join(BUILD, pid)
    os.makedirs(d, exist_ok=True)
    for fn in os.listdir(d):
        if fn.startswith("cases_"):
            os.unlink(os.path.join(d, fn))
    nsh = max(1, -(-len(cases) // shard))
    nsh = max(nsh, min(NPROC, len(cases) // 8 or 1))   # use the cores; round-robin spreads heavy streams
    shards = [cases[k::nsh] for k in range(nsh)]
    procs = []
    logs = []
    ok = True
    running = []

    def launch(k, sh):
        path = os.path.join(d, "cases_%d.v" % k)
        with open(path, "w") as f:
            f.write(HEADER % imports)
            f.write(prelude)
            f.write("Definition cases : list verdict := [\n")
            f.write(";\n".join(c.term for c in sh))
            f.write("\n].\nEval vm_compute in (show_verdicts cases).\n")
        return subprocess.Popen(
            ["timeout", str(timeout), "coqc", "-R", os.path.join(COQ, "theories"), "Verde",
             "-w", "-all", path],
            stdout=subprocess.PIPE, stderr=subprocess.STDOUT, text=True, cwd=d)

    queue = list(enumerate(shards))
    results = {}
    while queue or running:
        while queue and len(running) < NPROC:
            k, sh = queue.pop(0)
            running.append((k, sh, launch(k, sh)))
        k, sh, p = running.pop(0)
        out, _ = p.communicate()
        results[k] = (sh, p.returncode, out)
    for k in sorted(results):
        sh, rc, out = results[k]
        m = re.search(r'=\s*"([advxt]*)"', out.replace("\n", ""))
        if rc != 0 or not m or len(m.group(1)) != len(sh):
            ok = False
            logs.append("shard %d: rc=%s output=%s" % (k, rc, out[-2000:]))
            for c in sh:
                c.verdict = "error"
            continue
        for c, ch in zip(sh, m.group(1)):
            c.verdict = VCHARS[ch]
    return ok, "\n".join(logs)


def eval_terms(pid, name, imports, terms, timeout=600, prelude=""):
    """evaluate arbitrary closed terms with vm_compute (for replays): returns raw output"""
    d = os.path.join(BUILD, pid)
    os.makedirs(d, exist_ok=True)
    path = os.path.join(d, "%s.v" % name)
    with open(path, "w") as f:
        f.write(HEADER % imports)
        f.write(prelude)
        for t in terms:
            f.write("Eval vm_compute in (%s).\n" % t)
    p = subprocess.run(["timeout", str(timeout), "coqc", "-R", os.path.join(COQ, "theories"), "Verde",
                        "-w", "-all", path], stdout=subprocess.PIPE, stderr=subprocess.STDOUT, text=True, cwd=d)
    return p.returncode, p.stdout


# ---------------------------------------------------------------------------
# Known findings, replays, evidence
# ---------------------------------------------------------------------------
def load_known():
    p = os.path.join(VERIF, "known_findings.json")
    if not os.path.exists(p):
        return []
    return json.load(open(p)).get("findings", [])


def write_replay(pid, payload):
    d = os.path.join(VERIF, "replays", pid)
    os.makedirs(d, exist_ok=True)
    blob = json.dumps(payload, indent=1, sort_keys=True, default=str)
    h = hashlib.sha1(blob.encode()).hexdigest()[:12]
    path = os.path.join(d, "%s.json" % h)
    with open(path, "w") as f:
        f.write(blob)
    return path


def write_evidence(pid, tier, seed, coverage, assumptions, wall, violations):
    evdir = os.environ.get("VERIF_EVIDENCE_DIR") or os.path.join(VERIF, "evidence")   # seed trials redirect it
    os.makedirs(evdir, exist_ok=True)
    ev = {
        "property_id": pid,
        "tier": tier,
        "seed": int(seed),
        "level": "proof",
        "coverage": coverage,
        "assumptions": assumptions,
        "wall_s": round(wall, 2),
        "violations": int(violations),
    }
    with open(os.path.join(evdir, "%s.json" % pid), "w") as f:
        json.dump(ev, f, indent=1, default=str)


def py_env():
    e = dict(os.environ)
    e["PYTHONPATH"] = REPO
    e["PYTHONHASHSEED"] = "0"
    return e
