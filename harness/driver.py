"""Generic check driver: build proofs, run the correspondence, classify, report."""
import importlib
import json
import os
import random
import sys
import time
import traceback

from . import core


def _finding_keys(pid):
    keys = {}
    for f in core.load_known():
        if f.get("property") == pid and f.get("status") == "known":
            keys[f["key"]] = f
    return keys


def report_violation(pid, payload, suffix=""):
    path = core.write_replay(pid, payload)
    print("VIOLATION property=%s replay=%s%s" % (pid, path, (" " + suffix) if suffix else ""))
    sys.stdout.flush()


def run(pid, tier, seed):
    t0 = time.time()
    mod = importlib.import_module("harness.%s" % pid.lower())
    violations = 0
    known_hits = {}
    assumptions = list(getattr(mod, "ASSUMPTIONS", []))
    coverage = {
        "checker_cmd": "make -C /verif/coq (coqc 8.16.1, full .vo build) + coqc theories/%s + coqc build/%s/cases_*.v (vm_compute)" % (mod.PROPS_FILE, pid),
        "obligations": 0, "discharged": 0, "trusted_base": [],
        "evaluations": 0, "distinct_nontrivial": 0, "rule": mod.RULE, "samples": [],
    }

    def finish():
        core.write_evidence(pid, tier, seed, coverage, assumptions, time.time() - t0, violations)
        return 1 if violations else 0

    # 0. fail closed on forbidden vernacular
    bad = core.scan_forbidden()
    if bad:
        violations += 1
        report_violation(pid, {"kind": "forbidden-vernacular", "where": bad,
                               "theorem": "development no longer axiom-free"}, "no-failing-input-found")
        return finish()

    # 1. proofs
    ok, log = core.coq_build()
    build_broken = None
    if not ok:
        build_broken = log[-3000:]
    else:
        okp, names, atext = core.props_assumptions(mod.PROPS_FILE)
        closed, axioms = core.summarise_assumptions(atext)
        coverage["obligations"] = len(names)
        coverage["discharged"] = len(names) if okp else 0
        coverage["theorems"] = names
        coverage["print_assumptions"] = {"closed_under_global_context": closed, "axioms": axioms}
        coverage["trusted_base"] = [
            "Coq 8.16.1 kernel (coqc; vm_compute used, native_compute not used)",
            "axioms reported by Print Assumptions for %s: %s" % (mod.PROPS_FILE, ", ".join(axioms) if axioms else "none (all theorems closed under the global context)"),
            "hand-written Gallina model tied to /repo by the per-run correspondence check (harness/%s.py)" % pid.lower(),
            "PrimFloat hex-literal lexer and FloatOps.Prim2SF for exact float transfer (generated case files only)",
        ] + list(getattr(mod, "TRUSTED", []))
        if not okp:
            build_broken = atext[-3000:]

    # 1a. thorough tier: re-check the property file and everything it depends on with the independent checker
    if tier == "thorough" and build_broken is None and os.environ.get("VERIF_COQCHK", "1") != "0":
        import subprocess
        modname = "Verde." + mod.PROPS_FILE[:-2].replace("/", ".")
        t1 = time.time()
        try:
            pc = subprocess.run(["timeout", "2400", "coqchk", "-silent", "-o", "-R", os.path.join(core.COQ, "theories"), "Verde", modname],
                                stdout=subprocess.PIPE, stderr=subprocess.STDOUT, text=True, cwd=core.COQ)
            out = pc.stdout
            summ = out[out.find("CONTEXT SUMMARY"):] if "CONTEXT SUMMARY" in out else out[-1500:]
            coverage["coqchk"] = {"module": modname, "exit": pc.returncode, "wall_s": round(time.time() - t1, 1),
                                  "summary": " ".join(summ.split())[:3000]}
            if pc.returncode not in (0, 124):
                build_broken = "coqchk rejected %s: %s" % (modname, out[-2000:])
        except Exception as exc:  # coqchk not runnable: recorded, not fatal
            coverage["coqchk"] = {"module": modname, "error": repr(exc)}

    # 1b. source-regenerated obligations (models / summaries regenerated from /repo on every run)
    ob_fail = []
    extra_ob = getattr(mod, "obligations", None)
    if extra_ob is not None and build_broken is None:
        try:
            obs = extra_ob()
        except Exception:
            obs = [("regenerated-obligations", False, traceback.format_exc()[-1500:])]
        coverage["regenerated_obligations"] = [{"name": n, "ok": ok, "detail": d[:300]} for n, ok, d in obs]
        for n, ok, d in obs:
            coverage["obligations"] += 1
            if ok:
                coverage["discharged"] += 1
            else:
                ob_fail.append((n, d))

    # 2. correspondence
    try:
        cases = mod.generate(tier, seed)
    except Exception:
        violations += 1
        report_violation(pid, {"kind": "harness-error", "trace": traceback.format_exc(),
                               "correspondence": "generator / implementation driver of %s raised" % pid},
                         "no-failing-input-found")
        return finish()

    extra = getattr(mod, "EXTRA", None)
    if extra:
        coverage.update(extra() if callable(extra) else extra)

    if build_broken is not None:
        violations += 1
        report_violation(pid, {"kind": "proof-obligation-broken", "log": build_broken,
                               "theorem": _first_error(build_broken)}, "no-failing-input-found")
        coverage["evaluations"] = len(cases)
        return finish()

    okc, clog = core.eval_cases(pid, cases, mod.IMPORTS, shard=getattr(mod, "SHARD", 300),
                                prelude=getattr(mod, "PRELUDE", ""))
    hist = {}
    for c in cases:
        hist.setdefault(c.kind, {}).setdefault(c.verdict, 0)
        hist[c.kind][c.verdict] += 1
    coverage["evaluations"] = len(cases)
    coverage["distinct_nontrivial"] = len({c.key for c in cases if c.nontrivial})
    coverage["traces_validated_against_impl"] = sum(1 for c in cases if c.verdict in ("ok", "skip"))
    coverage["excluded_near_tie"] = sum(1 for c in cases if c.verdict == "skip")
    coverage["histogram"] = hist
    rnd = random.Random(seed)
    pool = [c for c in cases if c.nontrivial] or cases
    coverage["samples"] = [{"input": c.inp, "impl_output": c.out, "verdict": c.verdict, "kind": c.kind}
                           for c in rnd.sample(pool, min(4, len(pool)))]

    known = _finding_keys(pid)
    fkey = getattr(mod, "finding_key", lambda c: None)
    viol = [c for c in cases if c.verdict in ("violation", "both")]
    dis = [c for c in cases if c.verdict == "disagree"]
    err = [c for c in cases if c.verdict == "error"]

    reported = set()
    for c in viol:
        k = fkey(c)
        if k is not None and k in known:
            known_hits.setdefault(k, 0)
            known_hits[k] += 1
            continue
        sig = (k, c.kind)
        if sig in reported and len(reported) >= 1:
            continue
        reported.add(sig)
        violations += 1
        report_violation(pid, {"kind": "property-violated-by-implementation", "input": c.inp,
                               "impl_output": c.out, "verdict": c.verdict, "stream": c.kind,
                               "repro": c.repro, "coq_term": c.term[:4000],
                               "n_cases_with_same_signature": sum(1 for d in viol if (fkey(d), d.kind) == sig)})
    for k, n in sorted(known_hits.items()):
        print("KNOWN-FINDING: property=%s %s (%d cases this run)" % (pid, known[k]["what"], n))
    coverage["known_finding_hits"] = known_hits

    if dis and not violations:
        # correspondence broken with no failing input yet: search
        found = None
        search = getattr(mod, "search", None)
        if search is not None:
            try:
                more = search(dis, tier, seed)
                if more:
                    core.eval_cases(pid + "_search", more, mod.IMPORTS, shard=getattr(mod, "SHARD", 300),
                                    prelude=getattr(mod, "PRELUDE", ""))
                    coverage["search_evaluations"] = len(more)
                    for c in more:
                        if c.verdict in ("violation", "both") and not (fkey(c) in known):
                            found = c
                            break
            except Exception:
                coverage["search_error"] = traceback.format_exc()[-1500:]
        violations += 1
        if found is not None:
            report_violation(pid, {"kind": "property-violated-by-implementation (found by search after a broken correspondence)",
                                   "input": found.inp, "impl_output": found.out, "repro": found.repro,
                                   "coq_term": found.term[:4000], "first_disagreement": dis[0].inp})
        else:
            c = dis[0]
            report_violation(pid, {"kind": "correspondence-broken", "correspondence": "model %s vs implementation" % mod.IMPORTS,
                                   "n_disagreements": len(dis), "first_disagreeing_input": c.inp,
                                   "impl_output": c.out, "repro": c.repro, "coq_term": c.term[:4000], "stream": c.kind},
                             "no-failing-input-found")
    if ob_fail and not violations:
        # a regenerated proof obligation broke and the correspondence run showed nothing: search harder
        found = None
        search = getattr(mod, "search", None)
        if search is not None:
            try:
                more = search([], tier, seed)
                if more:
                    core.eval_cases(pid + "_search", more, mod.IMPORTS, shard=getattr(mod, "SHARD", 300),
                                    prelude=getattr(mod, "PRELUDE", ""))
                    coverage["search_evaluations"] = len(more)
                    for c in more:
                        if c.verdict in ("violation", "both") and not (fkey(c) in known):
                            found = c
                            break
            except Exception:
                coverage["search_error"] = traceback.format_exc()[-1500:]
        violations += 1
        if found is not None:
            report_violation(pid, {"kind": "property-violated-by-implementation (found by search after a broken regenerated obligation)",
                                   "input": found.inp, "impl_output": found.out, "repro": found.repro,
                                   "coq_term": found.term[:4000], "broken_obligations": [n for n, _ in ob_fail]})
        else:
            report_violation(pid, {"kind": "regenerated-proof-obligation-broken", "theorem": ob_fail[0][0],
                                   "all_broken": [n for n, _ in ob_fail], "detail": ob_fail[0][1][-1500:]},
                             "no-failing-input-found")
    if err or not okc:
        violations += 1
        report_violation(pid, {"kind": "case-evaluation-failed", "log": clog[-3000:],
                               "correspondence": "generated case files did not evaluate"}, "no-failing-input-found")
    return finish()


def _first_error(log):
    import re
    m = re.search(r'File "([^"]+)", line (\d+)', log)
    return "%s:%s" % (m.group(1), m.group(2)) if m else "unknown"


def main(argv):
    import argparse
    ap = argparse.ArgumentParser()
    ap.add_argument("pid")
    ap.add_argument("--tier", default=os.environ.get("VERIF_TIER", "quick"))
    ap.add_argument("--seed", type=int, default=int(os.environ.get("VERIF_SEED", "20260928")))
    ap.add_argument("--replay")
    a = ap.parse_args(argv)
    if a.replay:
        print(open(a.replay).read())
        r = json.load(open(a.replay))
        if r.get("repro"):
            import subprocess
            subprocess.run([sys.executable, "-c", r["repro"]], env=core.py_env())
        return 0
    tier = a.tier if a.tier in ("quick", "thorough") else "quick"
    return run(a.pid.upper(), tier, a.seed)
