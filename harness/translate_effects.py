"""C20 (a): regenerate the effect IR (Model/Effects.v) of every function and
method of verde from the source, with python's `ast`; compute callee-first
summaries; emit one Coq obligation per public callable.  Fail closed: an
unclassifiable construct raises Abort (a broken tie for that callable).

Value model (documented in harness/c20.py ASSUMPTIONS): arrays are heap
buffers; tuples, lists, dicts, DataFrames, Datasets and estimator objects are
values holding references.  numpy / scipy / pandas / xarray / scikit-learn /
builtin functions and user-supplied callables do not write to their arguments
unless called with out=, copy=False / inplace=True, or listed as mutators.
"""
import ast
import os

ALLOW = {"least_squares": ([0], "F8-least_squares-copy_jacobian")}   # documented default copy_jacobian=False

MUTATOR_METHODS = {"sort", "fill", "resize", "put", "itemset", "partition", "setfield", "setflags", "shuffle", "byteswap"}
CONTAINER_MUT = {"append", "extend", "insert", "update", "setdefault", "add", "pop", "popitem", "remove", "clear", "discard"}
NP_MUTATORS = {"shuffle": [0], "put": [0], "place": [0], "putmask": [0], "copyto": [0], "fill_diagonal": [0], "put_along_axis": [0]}
INPLACE_XFORM = {"fit_transform", "transform", "inverse_transform", "partial_fit"}
FRESH_METHODS = {"copy", "min", "max", "sum", "mean", "std", "var", "cumsum", "cumprod", "argsort", "argmin", "argmax", "any", "all",
                 "tolist", "item", "format", "strip", "split", "readline", "join", "keys", "nonzero", "dot", "round", "compute", "close",
                 "dropna", "result", "groupby", "aggregate", "apply", "get_params", "query", "query_ball_point", "find_simplex", "uniform", "normal", "randint"}
CONST_ATTRS = {"shape", "size", "dtype", "ndim", "name", "dims", "itemsize", "nbytes", "__name__", "__class__"}
FRESH_FUNCS = {"array", "zeros", "ones", "empty", "zeros_like", "ones_like", "empty_like", "full", "full_like", "arange", "linspace",
               "meshgrid", "sqrt", "log", "exp", "sin", "cos", "abs", "hypot", "arctan2", "concatenate", "column_stack", "stack",
               "vstack", "hstack", "unique", "isin", "mean", "median", "sum", "min", "max", "nanmin", "nanmax", "argmin", "argmax",
               "any", "all", "allclose", "isscalar", "ndim", "result_type", "finfo", "split", "unravel_index", "searchsorted",
               "cumsum", "logical_and", "logical_or", "greater_equal", "less_equal", "isnan", "isfinite", "loadtxt", "var", "average",
               "len", "int", "float", "str", "bool", "round", "range", "isinstance", "hasattr", "repr", "type", "open", "abs_",
               "sorted", "print", "broadcast", "copy", "deepcopy", "clone", "cKDTree", "pyKDTree", "Delaunay", "DataFrame", "Dataset",
               "DataArray", "KFold", "ShuffleSplit", "check_random_state", "check_scoring", "LinearRegression", "Ridge",
               "StandardScaler", "ValueError", "IOError", "RuntimeError", "NotImplementedError", "FutureWarning", "UserWarning",
               "nan_to_num", "where", "delayed", "partial", "warn", "check_is_fitted"}
ALIAS_FUNCS = {"asarray", "atleast_1d", "atleast_2d", "ravel", "reshape", "transpose", "squeeze", "tuple", "list", "dict", "zip",
               "enumerate", "reversed", "iter", "next", "getattr", "asanyarray", "ascontiguousarray", "broadcast_to", "masked_where",
               "min_", "max_", "filter", "map", "product"}
# augmented assignments whose target is documented to be an immutable scalar, or an accumulator that starts as the int 0
SCALAR_AUG = {("shape_to_spacing", "n_points"): "element of the tuple of ints `shape`",
              ("predict", "result"): "Chain.predict: list of int 0, so the first += rebinds each element to a new array"}
MAXDEPTH = 25


class Abort(Exception):
    pass


def _dotted(node):
    if isinstance(node, ast.Name):
        return node.id
    if isinstance(node, ast.Attribute):
        b = _dotted(node.value)
        return None if b is None else b + "." + node.attr
    return None


class Package:
    def __init__(self, pkgdir):
        self.funcs = {}       # short name -> FunctionDef (module level)
        self.classes = {}
        self.dups = set()
        self.public = set()
        for root, dirs, files in os.walk(pkgdir):
            dirs[:] = [d for d in dirs if d not in ("tests", "datasets", "__pycache__")]
            for fn in sorted(files):
                if not fn.endswith(".py"):
                    continue
                tree = ast.parse(open(os.path.join(root, fn)).read())
                for node in ast.walk(tree):
                    if isinstance(node, ast.Assign) and isinstance(node.value, ast.Call):
                        # NAME = jit(...)(function): alias of a module-level function
                        inner = node.value
                        if isinstance(inner.func, ast.Call) and len(inner.args) == 1 and isinstance(inner.args[0], ast.Name) \
                                and isinstance(node.targets[0], ast.Name) and node in tree.body:
                            self.funcs.setdefault("__alias__", {})
                for node in tree.body:
                    if isinstance(node, ast.FunctionDef):
                        if node.name in self.funcs:
                            self.dups.add(node.name)
                        self.funcs[node.name] = node
                    elif isinstance(node, ast.ClassDef):
                        self.classes[node.name] = node
                    elif isinstance(node, ast.Assign) and isinstance(node.value, ast.Call) and isinstance(node.value.func, ast.Call) \
                            and len(node.value.args) == 1 and isinstance(node.value.args[0], ast.Name) and isinstance(node.targets[0], ast.Name):
                        self.aliases = getattr(self, "aliases", {})
                        self.aliases[node.targets[0].id] = node.value.args[0].id
                if fn == "__init__.py":
                    for node in tree.body:
                        if isinstance(node, ast.ImportFrom) and node.level >= 1:
                            for a in node.names:
                                self.public.add(a.asname or a.name)
        self.funcs.pop("__alias__", None)
        self.aliases = getattr(self, "aliases", {})

    def mro(self, cname):
        chain = [cname]
        cur = cname
        while True:
            vb = [_dotted(b).split(".")[-1] for b in self.classes[cur].bases if _dotted(b) and _dotted(b).split(".")[-1] in self.classes]
            if not vb:
                return chain
            cur = vb[0]
            chain.append(cur)

    def find_method(self, cname, m):
        for c in self.mro(cname):
            for node in self.classes[c].body:
                if isinstance(node, ast.FunctionDef) and node.name == m:
                    return c, node
        return None


class FuncTranslator:
    """one function -> (nparams, instrs, RET var)"""

    def __init__(self, pkg, summaries, fn, cname=None, qual=""):
        self.pkg = pkg
        self.summ = summaries
        self.fn = fn
        self.cname = cname
        self.qual = qual
        self.vars = {}
        self.cur = {}          # python name -> current version's variable (straight-line rebinding gets a new version)
        self.depth = 0         # > 0 inside loops / try / closures: no new versions there
        self.instrs = []
        self.containers = set()
        self.noncopy = set()
        a = fn.args
        self.params = [x.arg for x in a.posonlyargs + a.args + a.kwonlyargs]
        self.star = [x.arg for x in (a.vararg, a.kwarg) if x is not None]
        for n in self.params + self.star:
            self.var(n)
        self.np = len(self.params) + len(self.star)
        self.K = self.var("<const>")
        self.RET = self.var("<return>")
        self.emit(("Fresh", self.K))
        self._scan_containers(fn)

    def var(self, name):
        if name in self.cur:
            return self.cur[name]
        if name not in self.vars:
            self.vars[name] = len(self.vars)
        self.cur[name] = self.vars[name]
        return self.vars[name]

    def newversion(self, name):
        if self.depth > 0 or name not in self.cur:
            return self.var(name)
        v = len(self.vars)
        self.vars["%s#%d" % (name, v)] = v
        self.cur[name] = v
        return v

    def merge(self, snaps):
        """join point of branches: a name with different versions gets a merged version"""
        names = set()
        for sn in snaps:
            names |= set(sn)
        out = {}
        for n in names:
            vs = sorted({sn[n] for sn in snaps if n in sn})
            if len(vs) == 1:
                out[n] = vs[0]
            else:
                v = len(self.vars)
                self.vars["%s#%d" % (n, v)] = v
                self.emit(("Alias", v, vs))
                out[n] = v
        self.cur = out

    def tmp(self):
        return self.var("<t%d>" % len(self.vars))

    def emit(self, i):
        self.instrs.append(i)

    def _scan_containers(self, fn):
        """local names only ever bound to container displays / comprehensions / list()/dict() calls"""
        cand, other = set(), set()
        for node in ast.walk(fn):
            if isinstance(node, ast.Assign):
                for t in node.targets:
                    if isinstance(t, ast.Name):
                        v = node.value
                        ok = isinstance(v, (ast.List, ast.Dict, ast.Set, ast.ListComp, ast.DictComp, ast.SetComp, ast.Tuple)) or (
                            isinstance(v, ast.Call) and _dotted(v.func) in ("list", "dict", "set"))
                        (cand if ok else other).add(t.id)
                    else:
                        for n in ast.walk(t):
                            if isinstance(n, ast.Name) and isinstance(n.ctx, ast.Store):
                                other.add(n.id)
            elif isinstance(node, (ast.For, ast.comprehension)):
                for n in ast.walk(node.target):
                    if isinstance(n, ast.Name):
                        other.add(n.id)
        self.containers = (cand - other) - set(self.params)
        self.containers |= set(self.star)         # *args / **kwargs are new containers

    # -- expressions: return the variable holding the value -----------------
    def E(self, node):
        if node is None or isinstance(node, ast.Constant):
            return self.K
        if isinstance(node, ast.Name):
            if node.id in self.cur:
                return self.cur[node.id]
            if self._is_local(node.id):
                return self.var(node.id)
            return self.K                                     # module-level name: function, module, constant
        if isinstance(node, ast.Attribute):
            if node.attr in CONST_ATTRS:
                self.E(node.value)
                return self.K
            return self.alias([self.E(node.value)])
        if isinstance(node, ast.Subscript):
            v = self.E(node.value)
            self.E(node.slice)
            return self.alias([v])
        if isinstance(node, ast.Slice):
            for x in (node.lower, node.upper, node.step):
                self.E(x)
            return self.K
        if isinstance(node, (ast.BinOp, ast.UnaryOp, ast.Compare)):
            for c in ast.iter_child_nodes(node):
                if isinstance(c, ast.expr):
                    self.E(c)
            if isinstance(node, ast.BinOp) and isinstance(node.op, ast.Add) and (
                    isinstance(node.left, (ast.Tuple, ast.List)) or isinstance(node.right, (ast.Tuple, ast.List))):
                return self.alias([self.E(node.left), self.E(node.right)])     # sequence concatenation
            return self.fresh()
        if isinstance(node, ast.BoolOp):
            return self.alias([self.E(v) for v in node.values])
        if isinstance(node, ast.IfExp):
            self.E(node.test)
            return self.alias([self.E(node.body), self.E(node.orelse)])
        if isinstance(node, (ast.Tuple, ast.List, ast.Set)):
            return self.alias([self.E(e) for e in node.elts])
        if isinstance(node, ast.Dict):
            return self.alias([self.E(e) for e in list(node.keys) + list(node.values) if e is not None])
        if isinstance(node, ast.Starred):
            return self.E(node.value)
        if isinstance(node, (ast.ListComp, ast.SetComp, ast.GeneratorExp, ast.DictComp)):
            self.depth += 1
            for g in node.generators:
                it = self.E(g.iter)
                self.bind(g.target, it)
                for c in g.ifs:
                    self.E(c)
            if isinstance(node, ast.DictComp):
                r = self.alias([self.E(node.key), self.E(node.value)])
            else:
                r = self.alias([self.E(node.elt)])
            self.depth -= 1
            return r
        if isinstance(node, ast.Lambda):
            for a in node.args.args:
                self.emit(("Alias", self.var(a.arg), self.scope_vars()))
            return self.alias([self.E(node.body)])
        if isinstance(node, ast.JoinedStr):
            for v in node.values:
                if isinstance(v, ast.FormattedValue):
                    self.E(v.value)
            return self.K
        if isinstance(node, (ast.Yield, ast.YieldFrom)):
            if node.value is not None:
                self.emit(("Alias", self.RET, [self.E(node.value)]))
            return self.K
        if isinstance(node, ast.Call):
            return self.call(node)
        raise Abort("%s: unsupported expression %s (line %d)" % (self.qual, type(node).__name__, getattr(node, "lineno", 0)))

    def _is_local(self, name):
        for n in ast.walk(self.fn):
            if isinstance(n, ast.Name) and n.id == name and isinstance(n.ctx, ast.Store):
                return True
            if isinstance(n, ast.FunctionDef) and n is not self.fn and (n.name == name or name in [a.arg for a in n.args.args]):
                return True
            if isinstance(n, ast.ExceptHandler) and n.name == name:
                return True
        return False

    def scope_vars(self):
        return sorted({v for k, v in self.cur.items() if not k.startswith("<")})

    def fresh(self):
        t = self.tmp()
        self.emit(("Fresh", t))
        return t

    def alias(self, vs):
        vs = [v for v in vs if v != self.K]
        if not vs:
            return self.K
        if len(vs) == 1:
            return vs[0]
        t = self.tmp()
        self.emit(("Alias", t, sorted(set(vs))))
        return t

    def bind(self, target, v):
        if isinstance(target, ast.Name):
            x = self.newversion(target.id)
            if v == self.K:
                self.emit(("Fresh", x))
            elif v != x:
                self.emit(("Alias", x, [v]))
        elif isinstance(target, (ast.Tuple, ast.List)):
            for e in target.elts:
                self.bind(e, v)
        elif isinstance(target, ast.Starred):
            self.bind(target.value, v)
        elif isinstance(target, (ast.Subscript, ast.Attribute)):
            self.store(target, v)
        else:
            raise Abort("%s: unsupported target %s" % (self.qual, type(target).__name__))

    def root(self, node):
        while isinstance(node, (ast.Subscript, ast.Attribute)):
            node = node.value
        if isinstance(node, ast.Call):
            # x.ravel()[:] = ...  writes through a view of the receiver / arguments
            return self.E(node)
        return self.E(node)

    def store(self, target, v):
        """x[...] = v   or   x.attr = v"""
        if isinstance(target, ast.Subscript):
            self.E(target.slice)
            base = target.value
            if isinstance(base, ast.Name) and base.id in self.containers:
                x = self.var(base.id)
                self.emit(("Alias", x, sorted({x, v} - {self.K})))
                return
            if isinstance(base, ast.Attribute) and base.attr == "attrs":
                x = self.root(base)
                if x != self.K:
                    self.emit(("Alias", x, sorted({x, v} - {self.K})))
                return
            x = self.root(base)
            if x != self.K:
                self.emit(("Inplace", x))
            return
        # attribute store: the object (a value) now references v
        x = self.root(target.value)
        if x != self.K and v != self.K:
            self.emit(("Alias", x, sorted({x, v})))

    # -- calls --------------------------------------------------------------------
    def call(self, node):
        f = node.func
        fname = _dotted(f)
        short = fname.split(".")[-1] if fname else None
        argnodes = list(node.args) + [k.value for k in node.keywords]
        kw = {k.arg: k.value for k in node.keywords if k.arg}
        # out= : the named array is written
        if "out" in kw and not (isinstance(kw["out"], ast.Constant) and kw["out"].value is None):
            o = self.E(kw["out"])
            if o != self.K:
                self.emit(("Inplace", o))
        copy_false = any(k in kw and not (isinstance(kw[k], ast.Constant) and kw[k].value is True) for k in ("copy",))
        inplace_true = "inplace" in kw and not (isinstance(kw["inplace"], ast.Constant) and kw["inplace"].value is False)

        # ---- method calls ------------------------------------------------------
        if isinstance(f, ast.Attribute) and not self._is_module(f.value):
            m = f.attr
            # self.method(...) of a verde class
            if self.cname and isinstance(f.value, ast.Name) and f.value.id == self.params[0] and self.pkg.find_method(self.cname, m):
                key = (self.cname, m)
                return self.summary_call(key, [f.value] + list(node.args), node.keywords, method=True)
            if isinstance(f.value, ast.Call) and _dotted(f.value.func) == "super" and self.cname:
                chain = self.pkg.mro(self.cname)
                for c in chain[1:]:
                    if any(isinstance(n, ast.FunctionDef) and n.name == m for n in self.pkg.classes[c].body):
                        return self.summary_call((c, m), [ast.Name(id=self.params[0], ctx=ast.Load())] + list(node.args), node.keywords, method=True)
                args = [self.E(a) for a in argnodes]
                return self.alias([self.cur[self.params[0]]] + args)
            recv = self.E(f.value)
            args = [self.E(a) for a in argnodes]
            if m in MUTATOR_METHODS or inplace_true:
                if m == "shuffle":
                    for a in args[:1]:
                        if a != self.K:
                            self.emit(("Inplace", a))
                elif recv != self.K:
                    self.emit(("Inplace", recv))
                return self.K
            if m in CONTAINER_MUT:
                if isinstance(f.value, ast.Name) and f.value.id in self.params and f.value.id not in self.containers:
                    self.emit(("Inplace", recv))              # the caller's own list / dict
                if recv != self.K:
                    self.emit(("Alias", recv, sorted({recv} | set(args) - {self.K})))
                return self.alias([recv] + args)
            if m in INPLACE_XFORM and isinstance(f.value, ast.Name) and f.value.id in self.noncopy:
                for a in args:
                    if a != self.K:
                        self.emit(("Inplace", a))
                return self.alias([recv] + args)
            if m == "astype" and not copy_false:
                return self.fresh()
            if m in FRESH_METHODS:
                return self.fresh()
            return self.alias([recv] + args)

        # ---- function calls ------------------------------------------------------
        if short in self.pkg.aliases:
            short = self.pkg.aliases[short]
        if isinstance(f, ast.Name) and f.id in self.cur and f.id not in self.pkg.funcs:
            # a callable held in a variable (projection, reduction, scorer ...): assumed not to write to its arguments
            args = [self.E(a) for a in argnodes]
            return self.alias([self.cur[f.id]] + args)
        if isinstance(f, ast.Name) and self._nested(f.id) is not None:
            args = [self.E(a) for a in argnodes]
            return self.alias(self.scope_vars() + args)
        if short in self.pkg.funcs and (isinstance(f, ast.Name) or not self._is_external_module(f)):
            if short in self.pkg.dups:
                raise Abort("%s: ambiguous callee %s" % (self.qual, short))
            return self.summary_call(short, list(node.args), node.keywords)
        if short in self.pkg.classes:
            args = [self.E(a) for a in argnodes]
            return self.alias(args) if any(a != self.K for a in args) else self.fresh()
        if isinstance(f, ast.Call) or isinstance(f, ast.Subscript):
            # dispatch(fn, ...)(args) / classes[method]() : result of calling a computed callable
            inner = self.E(f)
            args = [self.E(a) for a in argnodes]
            return self.alias([inner] + args)
        args = [self.E(a) for a in argnodes]
        if short in NP_MUTATORS:
            for i in NP_MUTATORS[short]:
                if i < len(node.args) and args[i] != self.K:
                    self.emit(("Inplace", args[i]))
            return self.K
        if short == "nan_to_num" and copy_false:
            if args and args[0] != self.K:
                self.emit(("Inplace", args[0]))
            return self.alias(args)
        if copy_false and short not in ("array", "asarray", "astype"):
            self._mark_noncopy = True
        if short in ("array",) and not copy_false:
            return self.fresh()
        if short in FRESH_FUNCS and not (short in ("array", "nan_to_num") and copy_false):
            t = self.fresh()
            if copy_false:
                self._last_noncopy = t
            return t
        if short in ALIAS_FUNCS or fname is None:
            return self.alias(args)
        if self._is_external_module(f) or short in ("super", "any", "all", "sum", "min", "max", "abs"):
            if short in ("any", "all", "sum", "abs"):
                return self.fresh()
            return self.alias(args)
        raise Abort("%s: unclassified call %s (line %d)" % (self.qual, fname, node.lineno))

    def _is_module(self, node):
        d = _dotted(node)
        return d is not None and d.split(".")[0] in ("np", "numpy", "pd", "xr", "warnings", "itertools", "functools", "dask", "numba", "scipy", "sklearn") \
            and d.split(".")[0] not in self.cur

    def _is_external_module(self, f):
        return isinstance(f, ast.Attribute) and self._is_module(f.value)

    def _nested(self, name):
        for n in ast.walk(self.fn):
            if isinstance(n, ast.FunctionDef) and n is not self.fn and n.name == name:
                return n
        return None

    def summary_call(self, key, argnodes, keywords, method=False):
        summ = self.summ(key)
        if summ is None:
            raise Abort("%s: recursive or untranslatable callee %s" % (self.qual, key))
        pnames, mut, ali = summ["params"], summ["mutated"], summ["ret_alias"]
        star_idx = summ["star"]
        bound = {}
        extra = []
        pos = 0
        for a in argnodes:
            if isinstance(a, ast.Starred):
                v = self.E(a.value)
                for j in range(pos, len(pnames)):
                    bound.setdefault(j, []).append(v)
                extra.append(v)
                pos = len(pnames)
                continue
            v = self.E(a)
            if pos < len(pnames) - len(star_idx):
                bound.setdefault(pos, []).append(v)
            else:
                extra.append(v)
                for j in star_idx:
                    bound.setdefault(j, []).append(v)
            pos += 1
        for k in keywords:
            v = self.E(k.value)
            if k.arg is None:
                for j in range(len(pnames)):
                    bound.setdefault(j, []).append(v)
            elif k.arg in pnames:
                bound.setdefault(pnames.index(k.arg), []).append(v)
            else:
                for j in star_idx:
                    bound.setdefault(j, []).append(v)
        for j in mut:
            for v in bound.get(j, []):
                if v != self.K:
                    self.emit(("Inplace", v))
        res = []
        for j in ali:
            res.extend(bound.get(j, []))
        return self.alias(res) if any(v != self.K for v in res) else self.fresh()

    # -- statements ----------------------------------------------------------------
    def block(self, stmts):
        for st in stmts:
            self.stmt(st)

    def stmt(self, st):
        if isinstance(st, ast.Expr):
            self.E(st.value)
        elif isinstance(st, ast.Assign):
            self._last_noncopy = None
            self._mark_noncopy = False
            v = self.E(st.value)
            if self._mark_noncopy:
                for t in st.targets:
                    if isinstance(t, ast.Name):
                        self.noncopy.add(t.id)
            for t in st.targets:
                self.bind(t, v)
        elif isinstance(st, ast.AnnAssign):
            if st.value is not None:
                self.bind(st.target, self.E(st.value))
        elif isinstance(st, ast.AugAssign):
            v = self.E(st.value)
            t = st.target
            if isinstance(t, ast.Name):
                x = self.var(t.id)
                seqlike = isinstance(st.value, (ast.Tuple, ast.List)) or (
                    isinstance(st.value, ast.Call) and _dotted(st.value.func) in ("tuple", "list"))
                strlike = isinstance(st.value, ast.JoinedStr) or (isinstance(st.value, ast.Constant) and isinstance(st.value.value, str)) or (
                    isinstance(st.value, ast.Call) and isinstance(st.value.func, ast.Attribute) and st.value.func.attr == "format"
                    and isinstance(st.value.func.value, ast.Constant))
                if strlike:
                    self.emit(("Alias", self.newversion(t.id), [x]))             # str += str rebinds (strings are immutable)
                elif seqlike:
                    self.emit(("Alias", x, sorted({x, v} - {self.K})))      # sequence concatenation rebinds
                elif (self.fn.name, t.id) in SCALAR_AUG:
                    pass
                else:
                    self.emit(("Inplace", x))
            elif isinstance(t, ast.Subscript):
                self.E(t.slice)
                base = t.value
                if isinstance(base, ast.Name) and (self.fn.name, base.id) in SCALAR_AUG:
                    x = self.var(base.id)
                    self.emit(("Fresh", x))
                else:
                    x = self.root(base)
                    if x != self.K:
                        self.emit(("Inplace", x))
            else:
                x = self.root(t.value)
                if x != self.K:
                    self.emit(("Inplace", x))
        elif isinstance(st, ast.Return):
            if st.value is not None:
                v = self.E(st.value)
                if v != self.K:
                    self.emit(("Alias", self.RET, [v]))
        elif isinstance(st, ast.If):
            self.E(st.test)
            snap = dict(self.cur)
            self.block(st.body)
            after1 = dict(self.cur)
            self.cur = dict(snap)
            self.block(st.orelse)
            after2 = dict(self.cur)
            self.merge([after1, after2])
        elif isinstance(st, ast.For):
            it = self.E(st.iter)
            self.depth += 1
            self.bind(st.target, it)
            self.block(st.body)
            self.block(st.orelse)
            self.depth -= 1
        elif isinstance(st, ast.While):
            self.depth += 1
            self.E(st.test)
            self.block(st.body)
            self.block(st.orelse)
            self.depth -= 1
        elif isinstance(st, ast.Try):
            self.depth += 1
            self.block(st.body)
            for h in st.handlers:
                self.block(h.body)
            self.block(st.orelse)
            self.block(st.finalbody)
            self.depth -= 1
        elif isinstance(st, ast.With):
            for it in st.items:
                v = self.E(it.context_expr)
                if it.optional_vars is not None:
                    self.bind(it.optional_vars, v)
            self.block(st.body)
        elif isinstance(st, ast.Raise):
            if st.exc is not None:
                self.E(st.exc)
        elif isinstance(st, ast.FunctionDef):
            sv = self.scope_vars()
            self.depth += 1
            for a in st.args.args:
                self.emit(("Alias", self.var(a.arg), sv))
            self.var(st.name)
            self.block(st.body)
            self.depth -= 1
        elif isinstance(st, ast.Assert):
            self.E(st.test)
        elif isinstance(st, (ast.Pass, ast.Import, ast.ImportFrom, ast.Break, ast.Continue)):
            pass
        else:
            raise Abort("%s: unsupported statement %s (line %d)" % (self.qual, type(st).__name__, st.lineno))

    def run(self):
        self.block(self.fn.body)
        return self.np, self.instrs, self.RET


# ---------------------------------------------------------------------------
# the analysis, mirrored in python (Coq re-checks every summary)
def analyse(np_, instrs, ret):
    pts = {k: {k} for k in range(np_)}
    changed = True
    while changed:
        changed = False
        for i in instrs:
            if i[0] == "Alias":
                tgt = pts.setdefault(i[1], set())
                for y in i[2]:
                    new = pts.get(y, set()) - tgt
                    if new:
                        tgt |= new
                        changed = True
    mut = set()
    for i in instrs:
        if i[0] == "Inplace":
            mut |= pts.get(i[1], set())
    return sorted(mut), sorted(pts.get(ret, set()))


class Translator:
    def __init__(self, pkgdir):
        self.pkg = Package(pkgdir)
        self.done = {}
        self.stack = []
        self.aborts = {}

    def summary(self, key):
        if key in self.done:
            return self.done[key]
        if key in self.stack:
            return None
        self.stack.append(key)
        try:
            if isinstance(key, tuple):
                found = self.pkg.find_method(*key)
                if found is None:
                    return None
                owner, fn = found
                ft = FuncTranslator(self.pkg, self.summary, fn, cname=key[0], qual="%s.%s" % key)
            else:
                fn = self.pkg.funcs[key]
                ft = FuncTranslator(self.pkg, self.summary, fn, qual=key)
            try:
                np_, instrs, ret = ft.run()
            except Abort as e:
                self.aborts[key] = str(e)
                self.done[key] = None
                return None
            mut, ali = analyse(np_, instrs, ret)
            a = fn.args
            nstar = [i for i, n in enumerate(ft.params + ft.star) if n in ft.star]
            self.done[key] = {"params": ft.params + ft.star, "star": nstar, "np": np_, "instrs": instrs, "ret": ret,
                              "mutated": mut, "ret_alias": ali, "vars": dict(ft.vars)}
            return self.done[key]
        finally:
            self.stack.pop()

    def public_callables(self):
        out = []
        for name in sorted(self.pkg.public):
            if name in self.pkg.funcs and name not in self.pkg.dups:
                out.append(name)
            elif name in self.pkg.classes:
                seen = set()
                for c in self.pkg.mro(name):
                    for node in self.pkg.classes[c].body:
                        if isinstance(node, ast.FunctionDef) and node.name not in seen:
                            seen.add(node.name)
                            if node.name.startswith("_") and node.name != "__init__":
                                continue
                            out.append((name, node.name))
        return out


def coq_name(key):
    return ("%s__%s" % key if isinstance(key, tuple) else key).replace("__init__", "init")


def coq_prog(key, s):
    def ins(i):
        if i[0] == "Alias":
            return "Alias %d [%s]" % (i[1], "; ".join(str(v) for v in i[2]))
        return "%s %d" % (i[0], i[1])
    return "Definition prog_%s : prog := {| nparams := %d; body := [%s] |}.\n" % (
        coq_name(key), s["np"], "; ".join(ins(i) for i in s["instrs"]))


HEADER = """(* GENERATED by harness/translate_effects.py from the verde source - do not edit *)
From Coq Require Import List.
From Verde Require Import Model.Effects.
Import ListNotations.
"""


def translate_package(pkgdir):
    """returns (results, helper_text): results = [{name, key, coq, abort, public, mutated, finding}]"""
    tr = Translator(pkgdir)
    pubs = tr.public_callables()
    for k in pubs:
        tr.summary(k)
    res = []
    nat = lambda l: "[%s]" % "; ".join(str(x) for x in l)
    for key, s in list(tr.done.items()):
        public = key in pubs
        name = coq_name(key)
        if s is None:
            res.append({"name": name, "key": key, "coq": None, "abort": tr.aborts.get(key, "untranslatable"), "public": public,
                        "mutated": None, "finding": None})
            continue
        text = coq_prog(key, s)
        short = key if isinstance(key, str) else None
        finding = None
        if public and short in ALLOW and s["mutated"] == ALLOW[short][0]:
            expect = s["mutated"]
            finding = ALLOW[short][1]
        elif public and not (isinstance(key, tuple) and key[1] == "__init__" and False):
            expect = []
        else:
            expect = s["mutated"]
        text += "Example %s_effects : mutated_params prog_%s = %s.\nProof. vm_compute. reflexivity. Qed.\n" % (name, name, nat(expect))
        text += "Example %s_alias : aliases_of prog_%s %d = %s.\nProof. vm_compute. reflexivity. Qed.\n" % (name, name, s["ret"], nat(s["ret_alias"]))
        why = None
        if public and expect == [] and s["mutated"]:
            inv = {v: k for k, v in s["vars"].items()}
            why = "may write to parameter(s) %s" % ", ".join(s["params"][k] for k in s["mutated"])
        res.append({"name": name, "key": key, "coq": text, "abort": None, "public": public, "mutated": s["mutated"],
                    "finding": finding, "why": why, "params": s["params"]})
    for key in pubs:
        if key not in tr.done:
            res.append({"name": coq_name(key), "key": key, "coq": None, "abort": "not translated", "public": True, "mutated": None, "finding": None})
    return res


if __name__ == "__main__":
    import sys
    for r in translate_package(sys.argv[1]):
        flag = "PUBLIC" if r["public"] else "helper"
        print(flag, r["name"], "ABORT: " + r["abort"] if r["abort"] else "mutated=%s %s" % (r["mutated"], r.get("why") or ""))
