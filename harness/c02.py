"""C02 fitted models are the weighted, damped least-squares optimum (Trend, Spline, VectorSpline2D)."""
import random
import warnings
import numpy as np
from . import core, pylite_tie
from .core import Case, cD, cN, clist

obligations = pylite_tie.c02_obligations   # source-regenerated ties: least_squares + VectorSpline2D (harness/pylite_tie.py)

ID = "C02"
PROPS_FILE = "Props/C02.v"
IMPORTS = "From Verde Require Import Lib.LinAlgD Model.LeastSquares Model.LSCases."
SHARD = 40
RULE = ("random point clouds (3..30 points, 1-D and 2-D arrays, coordinate scales 1e-2..1e6, optional offsets up to 1e3 x extent), "
        "data of varied magnitude, weights none / uniform(0.1,3) / log-uniform over 6 decades (vector: east and north weights from "
        "disjoint ranges), every second case with the same estimator instance first fitted to ANOTHER data set of a different size "
        "(Jacobian of the certificate from the estimator's force coordinates after the measured fit; a Spline without "
        "force_coords must have its forces at the current data), Trend degree 0..4, Spline with damping None or log-uniform in [1e-8,1e2], forces at the data or at a "
        "separate smaller or same-size set or the data points themselves passed through force_coords in another order, mindist "
        "variants (None, 0, default 10e3), VectorSpline2D with poisson in [-1,1] and EXACTLY -1, 0, 1, 0.5 in half of the cases "
        "(each meeting damped / undamped and both force layouts), damping end points 1e-8 and 1e2 exactly. For each fit the "
        "implementation's own Jacobian, the data, weights, damping, fitted parameters and predictions go to Coq as exact dyadics; "
        "Coq evaluates the normal-equation residual of the property's objective exactly and requires it below 2^-30 of its "
        "floating-point evaluation bound (holds) and the predictions to equal Jacobian x parameters (agree). Metamorphic streams: "
        "parameters fitted with weights x constant must pass the certificate of the original problem; parameters fitted with one "
        "weight = 1e-12 (outlier datum) must pass the certificate of the problem without that datum; 4 fixed DAMPED cases of the same "
        "comparison (far-away datum, weight 1e-14) exhibit known finding F18. Undamped systems with "
        "condition number > 1e12 and damped systems with a nearly constant column are emitted as skips and counted. "
        "Non-trivial = certificate actually evaluated; distinct = distinct (estimator, configuration, cloud).")
ASSUMPTIONS = [
    "LAPACK/scikit-learn solvers are not modelled: their result is checked a posteriori (normal equations of the property's objective hold to 2^-30 relative backward error, exactly evaluated)",
    "the design matrix is the implementation's own jacobian() output (its entries are not re-derived); predict() is tied to it by the agree check predict(coords) = jacobian x parameters (2^-40 of max |A||p|)",
    "the squared column scale is the exact population variance of the Jacobian column (1 if exactly constant); cases where sklearn's floating-point variance is not accurate to 2^-30 (mean^2/var > 1e4) are skipped when damped",
    "undamped systems with condition number (numpy SVD of the scaled, weighted Jacobian) > 1e12 are skipped: LinearRegression truncates singular values below eps*max(shape)",
]
TRUSTED = ["harness/c02.py (generators, numpy SVD used only to bin/skip)"]

EPS = 2.0 ** -52


def dl(xs):
    return clist([cD(float(x)) for x in np.ravel(xs)])


def dmat(A):
    return clist([dl(r) for r in A])


def kappa_of(A, w, damping):
    """condition number of the problem the solver sees (scaled, weighted, augmented if damped)"""
    sc = A.std(0)
    sc = np.where(sc == 0, 1.0, sc)
    B = A / sc
    if w is not None:
        B = B * np.sqrt(w)[:, None]
    if damping is not None:
        B = np.vstack([B, np.sqrt(damping) * np.eye(A.shape[1])])
    s = np.linalg.svd(B, compute_uv=False)
    if A.shape[0] < A.shape[1] and damping is None:
        return np.inf
    return np.inf if s[-1] == 0 else float(s[0] / s[-1])


def colcond(A):
    """how badly determined the column variance is in floating point: max mean^2/var"""
    m = A.mean(0)
    v = A.var(0)
    with np.errstate(divide="ignore", invalid="ignore"):
        r = np.where(v > 0, m * m / v, 0.0)
    return float(r.max()) if r.size else 0.0


def make_cloud(rnd, n, scale=None, offset=None):
    if scale is None:
        scale = 10.0 ** rnd.uniform(-2, 6)
    if offset is None:
        offset = rnd.choice([0.0, 0.0, 1.0, 10.0, 1e3]) * rnd.uniform(-1, 1)
    layout = rnd.choice(["scatter", "scatter", "grid", "line"])
    if layout == "grid":
        k = max(2, int(round(n ** 0.5)))
        pts = [(i + 0.3 * rnd.random(), j + 0.3 * rnd.random()) for i in range(k) for j in range(k)]
        rnd.shuffle(pts)
        pts = pts[:n]
        while len(pts) < n:
            pts.append((rnd.uniform(0, k), rnd.uniform(0, k)))
        e = np.array([p[0] for p in pts]) / k
        nn = np.array([p[1] for p in pts]) / k
    elif layout == "line":
        t = np.array(sorted(rnd.random() for _ in range(n)))
        e = t
        nn = 0.5 * t + 0.2 * np.array([rnd.random() for _ in range(n)])
    else:
        e = np.array([rnd.random() for _ in range(n)])
        nn = np.array([rnd.random() for _ in range(n)])
    e = scale * (offset + e)
    nn = scale * (-0.5 * offset + nn)
    return e, nn, scale


def make_weights(rnd, n, lo=None):
    kind = rnd.choice(["none", "uniform", "wide"])
    if kind == "none":
        return None
    if kind == "uniform":
        return np.array([rnd.uniform(0.1, 3.0) for _ in range(n)])
    return np.array([10.0 ** rnd.uniform(-3, 3) for _ in range(n)])


def shape2d(rnd, arrs):
    """scattered points stored in 2-D arrays that are NOT meshgrids: (2, n/2), (n/3, 3), column (n, 1), row (1, n)"""
    n = arrs[0].size
    u = rnd.random()
    if n % 2 == 0 and u < 0.3:
        return [a.reshape(2, n // 2) for a in arrs]
    if n % 3 == 0 and u < 0.5:
        return [a.reshape(n // 3, 3) for a in arrs]
    if u < 0.6:
        return [a.reshape(n, 1) for a in arrs]
    if u < 0.7:
        return [a.reshape(1, n) for a in arrs]
    return list(arrs)


def build(kind, conf):
    import verde as vd
    if kind == "trend":
        return vd.Trend(degree=conf["degree"])
    if kind == "spline":
        fc = conf.get("force_coords")
        return vd.Spline(mindist=conf.get("mindist"), damping=conf.get("damping"),
                         force_coords=None if fc is None else (np.array(fc[0]), np.array(fc[1])))
    fc = conf.get("force_coords")
    return vd.VectorSpline2D(poisson=conf["poisson"], mindist=conf["mindist"], damping=conf.get("damping"),
                             force_coords=None if fc is None else (np.array(fc[0]), np.array(fc[1])))


def independent_jacobian(kind, conf, coords, force_coords):
    """the design matrix assembled WITHOUT verde (numpy only): monomials in the documented column order, the biharmonic
    Green's function r^2 (log r - 1) (0 at r = 0), the 2-D elastic Green's functions of Sandwell & Wessel (2016)"""
    e, n = np.ravel(coords[0]).astype(float), np.ravel(coords[1]).astype(float)
    if kind == "trend":
        deg = conf["degree"]
        combos = [(t - j, j) for t in range(deg + 1) for j in range(t + 1)]
        return np.column_stack([e ** i * n ** j for i, j in combos])
    fe, fn = np.ravel(force_coords[0]).astype(float), np.ravel(force_coords[1]).astype(float)
    de, dn = e[:, None] - fe[None, :], n[:, None] - fn[None, :]
    r = np.sqrt(de ** 2 + dn ** 2) + (0.0 if conf.get("mindist") is None else conf["mindist"])
    if kind == "spline":
        with np.errstate(divide="ignore", invalid="ignore"):
            return np.where(r > 0, r * r * (np.log(np.where(r > 0, r, 1.0)) - 1.0), 0.0)
    nu = conf["poisson"]
    ln_r = (3 - nu) * np.log(r)
    over_r2 = (1 + nu) / r ** 2
    ee, gnn, ne = ln_r + over_r2 * dn ** 2, ln_r + over_r2 * de ** 2, -over_r2 * de * dn
    return np.block([[ee, ne], [ne, gnn]])


_EXTRA = []
LAST_FORCES = [None]
FORCES_OK = [True]    # side channel of the last fit(): forces of a Spline without force_coords sit at the CURRENT data points


def fit(kind, conf, coords, data, weights, prefit=None):
    """returns (A, d, w, p, pred) as flat numpy arrays (w None if no weights).  prefit = (coords, data, weights) of a
    DIFFERENT data set the same estimator instance is fitted to first; the Jacobian of the certificate is built from the
    estimator's force coordinates AFTER the measured fit."""
    est = build(kind, conf)
    with warnings.catch_warnings():
        warnings.simplefilter("ignore")
        if prefit is not None:
            est.fit(*prefit)
        est.fit(coords, data, weights)
        FORCES_OK[0] = True
        LAST_FORCES[0] = None if kind == "trend" else (est.force_coords_ if kind == "spline" else est.force_coords)
        if kind == "spline" and conf.get("force_coords") is None:
            FORCES_OK[0] = all(np.array_equal(np.ravel(a), np.ravel(b)) for a, b in zip(est.force_coords_, coords[:2]))
        if kind == "trend":
            A = est.jacobian(coords)
            p = est.coef_
        elif kind == "spline":
            A = est.jacobian(coords, est.force_coords_)
            p = est.force_
        else:
            A = est.jacobian(coords, est.force_coords)
            p = est.force_
        pred = est.predict(coords)
    if kind == "vector":
        d = np.concatenate([np.ravel(c) for c in data])
        w = None if weights is None else np.concatenate([np.ravel(c) for c in weights])
        pred = np.concatenate([np.ravel(c) for c in pred])
    else:
        d = np.ravel(data)
        w = None if weights is None else np.ravel(weights)
        pred = np.ravel(pred)
    return np.array(A, dtype=float), np.array(d, dtype=float), w, np.array(p, dtype=float), np.array(pred, dtype=float)


def tolist(x):
    if x is None:
        return None
    if isinstance(x, (tuple, list)):
        return [tolist(v) for v in x]
    return np.asarray(x).tolist()


REPRO = ("import numpy as np, warnings, json; warnings.simplefilter('ignore'); from harness import c02; "
         "kind, conf, coords, data, weights = json.loads(%r); arr = lambda x: None if x is None else "
         "(tuple(np.array(v) for v in x) if isinstance(x[0], list) and kind == 'vector' else np.array(x)); "
         "A, d, w, p, pred = c02.fit(kind, conf, tuple(np.array(c) for c in coords), "
         "tuple(np.array(v) for v in data) if kind == 'vector' else np.array(data), "
         "None if weights is None else (tuple(np.array(v) for v in weights) if kind == 'vector' else np.array(weights))); "
         "print('params', p); print('max |A^T W (A p - d)|', np.abs(A.T @ ((1 if w is None else w) * (A @ p - d))).max())")


def describe(kind, conf, coords, data, weights):
    import json
    blob = json.dumps([kind, conf, tolist(coords), tolist(data), tolist(weights)])
    return REPRO % blob


def fit_case(kind, conf, coords, data, weights, stream, prefit=None):
    """one fitted estimator -> certificate case (or a counted skip)"""
    if prefit is not None:
        stream += "-prefit"
    A, d, w, p, pred = fit(kind, conf, coords, data, weights, prefit)
    if not FORCES_OK[0]:
        return Case({"estimator": kind, "config": conf, "coordinates": tolist(coords), "data": tolist(data), "weights": tolist(weights),
                     "fitted_before_to": tolist(prefit[0]) if prefit is not None else None},
                    {"n_forces": int(p.size), "n_data": int(d.size)}, "Vviol", describe(kind, conf, coords, data, weights),
                    stream + "/forces-not-at-current-data", nontrivial=True)
    damping = conf.get("damping")
    kap = kappa_of(A, w, damping)
    inp = {"estimator": kind, "config": conf, "coordinates": tolist(coords), "data": tolist(data), "weights": tolist(weights)}
    if prefit is not None:
        inp["fitted_before_to"] = {"coordinates": tolist(prefit[0]), "data": tolist(prefit[1]), "weights": tolist(prefit[2])}
    out = {"params": p.tolist(), "kappa": kap, "shape": list(A.shape)}
    repro = describe(kind, conf, coords, data, weights)
    if damping is None and not kap <= 1e12:
        return Case(inp, out, "Vskip", repro, stream + "/skip-illconditioned", nontrivial=False)
    if damping is not None and colcond(A) > 1e4:
        return Case(inp, out, "Vskip", repro, stream + "/skip-nearconstant-column", nontrivial=False)
    if not (np.all(np.isfinite(A)) and np.all(np.isfinite(p)) and np.all(np.isfinite(pred))):
        return Case(inp, out, "Vviol", repro, stream + "/non-finite", nontrivial=True)
    _EXTRA.append(jacobian_case(kind, conf, coords, A, LAST_FORCES[0], inp, repro, stream))
    wv = np.ones(A.shape[0]) if w is None else w
    term = "c02_fit %s %s %s %s %s %s (Some %s)" % (
        cN(A.shape[1]), dmat(A), dl(d), dl(wv), dl(p), cD(0.0 if damping is None else damping), dl(pred))
    return Case(inp, out, term, repro, stream, nontrivial=True)


def jacobian_case(kind, conf, coords, A, forces, inp, repro, stream):
    """the implementation's Jacobian against the independently assembled one: every entry within 2^-40 of the largest
    (for big matrices an evenly spaced subset of at most ~1500 entries' worth of rows)"""
    ref = independent_jacobian(kind, conf, coords, forces)
    if ref.shape != A.shape:
        return Case(inp, {"jacobian_shape": list(A.shape), "expected": list(ref.shape)}, "Vviol", repro, "jacobian-vs-independent/" + kind)
    rows = np.unique(np.linspace(0, A.shape[0] - 1, max(1, min(A.shape[0], 1500 // A.shape[1]))).astype(int))
    diff = (A[rows] - ref[rows]).ravel()
    scale = float(np.max(np.abs(ref))) if ref.size else 0.0
    out = {"max_abs_difference": float(np.max(np.abs(diff))), "max_abs_entry": scale, "rows_compared": int(rows.size)}
    if not (np.all(np.isfinite(diff)) and np.isfinite(scale)):
        return Case(inp, out, "Vviol", repro, "jacobian-vs-independent/" + kind)
    term = "c01_exact %s %s %s %s %s" % (cD(1.0), cD(4096.0), cD(scale), clist(["(0,0)%Z"] * diff.size), dl(diff))
    return Case(inp, out, term, repro, "jacobian-vs-independent/" + kind, nontrivial=True)


def meta_case(kind, conf, coords, data, weights_fit, A, d, w, stream, note):
    """parameters fitted with weights_fit must be a numerical minimiser of (A, d, w), undamped"""
    _, _, _, p, _ = fit(kind, conf, coords, data, weights_fit)
    kap = kappa_of(A, w, None)
    inp = {"estimator": kind, "config": conf, "coordinates": tolist(coords), "data": tolist(data),
           "weights_fitted_with": tolist(weights_fit), "metamorphic": note}
    out = {"params": p.tolist(), "kappa": kap}
    repro = describe(kind, conf, coords, data, weights_fit)
    if not kap <= 1e12:
        return Case(inp, out, "Vskip", repro, stream + "/skip-illconditioned", nontrivial=False)
    term = "c02_meta %s %s %s %s %s" % (cN(A.shape[1]), dmat(A), dl(d), dl(w), dl(p))
    return Case(inp, out, term, repro, stream, nontrivial=True)


# ---------------------------------------------------------------------------
def gen_trend(rnd, i):
    degree = i % 5
    ncoef = (degree + 1) * (degree + 2) // 2
    n = rnd.randint(max(3, ncoef + 1), 30)
    scale = 10.0 ** rnd.uniform(-2, 6)
    offset = rnd.choice([0.0, 0.0, 0.0, 1.0, 30.0, 1e3]) * rnd.uniform(-1, 1) if degree <= 2 else rnd.choice([0.0, 0.0, 0.5]) * rnd.uniform(-1, 1)
    e, nn, _ = make_cloud(rnd, n, scale, offset)
    data = np.array([rnd.gauss(0, 1) for _ in range(n)]) * 10.0 ** rnd.uniform(-2, 3) + rnd.choice([0.0, 100.0])
    w = make_weights(rnd, n)
    arrs = shape2d(rnd, [e, nn, data] + ([w] if w is not None else []))
    coords = (arrs[0], arrs[1])
    return "trend", {"degree": degree}, coords, arrs[2], (arrs[3] if w is not None else None)


def gen_trend_offset(rnd, i):
    """coordinates offset by 30..1000 x their extent: condition numbers 1e5..1e11 (where a solver
    cut-off like tol=1e-6 would silently truncate the fit)"""
    degree = 1 + i % 2
    n = rnd.randint(8, 30)
    scale = 10.0 ** rnd.uniform(-2, 6)
    offset = rnd.choice([-1, 1]) * (10.0 ** rnd.uniform(1.5, 3.0) if degree == 1 else 10.0 ** rnd.uniform(1.5, 2.3))
    e = scale * (offset + np.array([rnd.random() for _ in range(n)]))
    nn = scale * (rnd.choice([0.0, offset]) + np.array([rnd.random() for _ in range(n)]))
    data = np.array([rnd.gauss(0, 1) for _ in range(n)]) * 10.0 ** rnd.uniform(-2, 3)
    w = make_weights(rnd, n)
    return "trend", {"degree": degree}, (e, nn), data, w


def gen_spline(rnd, i):
    at_data = i % 2 == 0
    n = rnd.randint(4, 15) if at_data else rnd.randint(6, 30)
    e, nn, scale = make_cloud(rnd, n, offset=rnd.choice([0.0, 0.0, 1.0, 100.0]) * rnd.uniform(-1, 1))
    data = np.array([rnd.gauss(0, 1) for _ in range(n)]) * 10.0 ** rnd.uniform(-2, 3)
    damping = None if i % 3 == 0 else 10.0 ** rnd.uniform(-8, 2)
    if i % 12 in (1, 7):
        damping = [1e-8, 1e2][(i // 12) % 2]       # the end points of the documented damping range, exactly
    mind = [None, 0.0, None, 1e-5 * scale, 0.05 * scale][(i // 2) % 5]
    conf = {"damping": damping, "mindist": mind}
    if at_data and i % 8 in (2, 4):
        # forces AT the data points but handed over through force_coords in another order (shuffled / sorted)
        idx = list(range(n))
        if i % 8 == 4:
            idx = [int(j) for j in np.argsort(e, kind="stable")[::-1]]
        else:
            rnd.shuffle(idx)
        conf["force_coords"] = [e[idx].tolist(), nn[idx].tolist()]
        conf["force_mode"] = "data-points-reordered"
    if not at_data:
        k = n if (i // 2) % 3 == 1 and n <= 15 else rnd.randint(2, min(15, n - 1))      # same-size separate sets too
        fe = e.min() + (e.max() - e.min()) * np.array([rnd.uniform(-0.1, 1.1) for _ in range(k)])
        fn = nn.min() + (nn.max() - nn.min()) * np.array([rnd.uniform(-0.1, 1.1) for _ in range(k)])
        conf["force_coords"] = [fe.tolist(), fn.tolist()]
    w = make_weights(rnd, n)
    arrs = shape2d(rnd, [e, nn, data] + ([w] if w is not None else []))
    return "spline", conf, (arrs[0], arrs[1]), arrs[2], (arrs[3] if w is not None else None)


UNIT_POOL = [(0.0, 0.0), (1.0, 0.0), (0.0, 1.0), (1.0, 1.0), (0.6, 0.8), (0.8, 0.6), (0.28, 0.96), (-0.6, 0.8), (0.6, -0.8),
             (2.0, 0.0), (2.0, 1.0), (1.0, 2.0), (-1.0, 0.0), (0.0, -1.0), (1.6, 0.8), (0.5, 0.25), (1.3, 1.7), (-0.4, 1.4)]


def gen_spline_unit(rnd, i):
    """stations with pairs EXACTLY 1.0 apart (where the Green's function switches between its two formulas): a
    unit-spacing integer lattice, 3-4-5 triangles scaled by 1/5, lattices of spacing 0.5 / 0.75 with mindist 0.5 / 0.25
    (distance + mindist == 1); forces at the data, reordered, or on a coarser subset; every damping / weights variant"""
    layout = ["unit-lattice", "triangles-3-4-5", "half-lattice+mindist", "unit-lattice-offset", "three-quarter-lattice+mindist"][i % 5]
    mind = None
    if layout == "triangles-3-4-5":
        pts = list(UNIT_POOL)
        rnd.shuffle(pts)
        pts = sorted(set(pts[:rnd.randint(7, len(pts))] + [(0.0, 0.0), (0.6, 0.8), (1.0, 0.0)]))
        rnd.shuffle(pts)
    else:
        sp = {"unit-lattice": 1.0, "unit-lattice-offset": 1.0, "half-lattice+mindist": 0.5, "three-quarter-lattice+mindist": 0.75}[layout]
        mind = {0.5: 0.5, 0.75: 0.25}.get(sp)
        if sp == 1.0:
            mind = [None, 0.0, None][(i // 5) % 3]
        kx, ky = rnd.randint(2, 5), rnd.randint(2, 5)
        off = (float(rnd.randint(-1000, 1000)), float(rnd.randint(-1000, 1000))) if layout == "unit-lattice-offset" else (0.0, 0.0)
        pts = [(off[0] + sp * a, off[1] + sp * b) for a in range(kx) for b in range(ky)]
        rnd.shuffle(pts)
        pts = pts[:max(4, len(pts) - rnd.randint(0, 3))]
    e = np.array([q[0] for q in pts])
    nn = np.array([q[1] for q in pts])
    n = e.size
    damping = [None, 10.0 ** rnd.uniform(-8, 2), 10.0 ** rnd.uniform(-3, 0), 1e-8, None, 1e2][(i // 5) % 6]
    conf = {"damping": damping, "mindist": mind, "layout": layout}
    fmode = ["at-data", "coarser", "reordered"][(i // 2) % 3]
    if fmode == "coarser" and n >= 5:
        keep = list(range(0, n, 2))
        conf["force_coords"] = [e[keep].tolist(), nn[keep].tolist()]
    elif fmode == "reordered":
        idx = list(range(n))[::-1]
        conf["force_coords"] = [e[idx].tolist(), nn[idx].tolist()]
        conf["force_mode"] = "data-points-reordered"
    data = np.array([rnd.gauss(0, 1) for _ in range(n)]) * 10.0 ** rnd.uniform(-2, 3)
    w = [None, np.array([rnd.uniform(0.1, 3.0) for _ in range(n)]), np.array([10.0 ** rnd.uniform(-3, 3) for _ in range(n)])][(i // 3) % 3]
    arrs = shape2d(rnd, [e, nn, data] + ([w] if w is not None else []))
    return "spline", conf, (arrs[0], arrs[1]), arrs[2], (arrs[3] if w is not None else None)


MAGNITUDES = [1e-12, 1e-9, 1e-6, 1e6, 1e12]


def rescale_data(args, i):
    """every third case: the data are multiplied by 1e-12 .. 1e12 (SI-unit magnitudes; every comparison is relative)"""
    kind, conf, coords, data, w = args
    if i % 3 != 1:
        return args
    f = MAGNITUDES[(i // 3) % len(MAGNITUDES)]
    data = tuple(f * c for c in data) if isinstance(data, tuple) else f * data
    return kind, conf, coords, data, w


def gen_vector(rnd, i):
    at_data = i % 2 == 0
    n = rnd.randint(3, 10) if at_data else rnd.randint(4, 14)
    scale = 10.0 ** rnd.uniform(-1, 6)
    e, nn, scale = make_cloud(rnd, n, scale, rnd.choice([0.0, 0.0, 1.0, 50.0]) * rnd.uniform(-1, 1))
    de = np.array([rnd.gauss(0, 1) for _ in range(n)]) * 10.0 ** rnd.uniform(-2, 2)
    dn = np.array([rnd.gauss(0, 1) for _ in range(n)]) * 10.0 ** rnd.uniform(-2, 2) + rnd.choice([0.0, 5.0])
    damping = None if i % 3 == 0 else 10.0 ** rnd.uniform(-8, 2)
    if i % 12 in (1, 7):
        damping = [1e-8, 1e2][(i // 12) % 2]
    # documented special Poisson ratios hit EXACTLY in half of the cases, cycling so that each of -1 (uncoupled), 0, 1,
    # 0.5 (default) meets damped / undamped and forces at the data / separate (periods 2, 3, 8 are coprime enough: 24)
    poisson = [-1.0, 0.0, 1.0, 0.5][(i // 4) % 4] if (i // 2) % 2 == 1 else rnd.uniform(-1, 1)
    conf = {"poisson": poisson, "mindist": scale * 10.0 ** rnd.uniform(-2, 0), "damping": damping}
    if i % 7 == 0:
        conf["mindist"] = 10e3   # the default
    if i % 7 == 3 and not at_data:
        conf["mindist"] = 0.0    # allowed when no force coincides with a data point
    if at_data and i % 8 == 4:
        idx = list(range(n))
        rnd.shuffle(idx)
        conf["force_coords"] = [e[idx].tolist(), nn[idx].tolist()]
        conf["force_mode"] = "data-points-reordered"
    if not at_data:
        k = n if i % 6 == 5 else rnd.randint(2, min(10, n - 1))
        fe = e.min() + (e.max() - e.min()) * np.array([rnd.uniform(-0.1, 1.1) for _ in range(k)])
        fn = nn.min() + (nn.max() - nn.min()) * np.array([rnd.uniform(-0.1, 1.1) for _ in range(k)])
        conf["force_coords"] = [fe.tolist(), fn.tolist()]
    if rnd.random() < 0.7:
        # east and north weights from disjoint ranges: swapping them must show
        we = np.array([rnd.uniform(0.1, 1.0) for _ in range(n)])
        wn = np.array([rnd.uniform(5.0, 30.0) for _ in range(n)])
        if rnd.random() < 0.5:
            we, wn = wn, we
        arrs = shape2d(rnd, [e, nn, de, dn, we, wn])
        return "vector", conf, (arrs[0], arrs[1]), (arrs[2], arrs[3]), (arrs[4], arrs[5])
    arrs = shape2d(rnd, [e, nn, de, dn])
    return "vector", conf, (arrs[0], arrs[1]), (arrs[2], arrs[3]), None


def undamped_overdetermined(rnd, i):
    """configurations for the metamorphic streams: undamped, more data than parameters"""
    which = i % 3
    if which == 0:
        kind, conf, coords, data, w = gen_trend(rnd, i)
    elif which == 1:
        kind, conf, coords, data, w = gen_spline(rnd, 2 * i + 1)
        conf["damping"] = None
        nmax = max(2, np.size(data) - 2)      # stay over-determined even after one datum is dropped
        conf["force_coords"] = [conf["force_coords"][0][:nmax], conf["force_coords"][1][:nmax]]
    else:
        kind, conf, coords, data, w = gen_vector(rnd, 2 * i + 1)
        conf["damping"] = None
    return kind, conf, coords, data, w


def ones_like_weights(kind, data):
    if kind == "vector":
        return tuple(np.ones_like(np.asarray(c, dtype=float)) for c in data)
    return np.ones_like(np.asarray(data, dtype=float))


def gen_weights_times_constant(rnd, i):
    kind, conf, coords, data, w = undamped_overdetermined(rnd, i)
    if w is None:
        w = ones_like_weights(kind, data)
    k = rnd.choice([1e-3, 0.5, 3.0, 7.0, 1e4])
    A, d, wf, _, _ = fit(kind, conf, coords, data, w)
    wk = tuple(k * c for c in w) if kind == "vector" else k * w
    return meta_case(kind, conf, coords, data, wk, A, d, wf, "meta-weights-times-constant/" + kind, "weights multiplied by %r" % k)


def gen_weight_to_zero(rnd, i):
    kind, conf, coords, data, w = undamped_overdetermined(rnd, i)
    if kind == "vector":   # one scalar datum = one component at one point
        kind, conf, coords, data, w = undamped_overdetermined(rnd, 3 * i)
    if w is None:
        w = ones_like_weights(kind, data)
    w = np.array(w, dtype=float)
    data = np.array(data, dtype=float)
    shape = data.shape
    flat = data.ravel().copy()
    j = rnd.randrange(flat.size)
    flat[j] += rnd.choice([-1, 1]) * 30.0 * (np.abs(flat).max() + 1e-3)      # planted outlier
    wflat = w.ravel().copy()
    wflat[j] = 1e-12 * wflat.min()
    data_out = flat.reshape(shape)
    w_out = wflat.reshape(shape)
    # the problem WITHOUT datum j (1-D arrays), Jacobian from the implementation
    keep = np.arange(flat.size) != j
    ce = np.ravel(coords[0])[keep]
    cn = np.ravel(coords[1])[keep]
    A, d, wf, _, _ = fit(kind, conf, (ce, cn), flat[keep], w.ravel()[keep])
    return meta_case(kind, conf, coords, data_out, w_out, A, d, wf, "meta-weight-to-zero/" + kind,
                     "datum %d is an outlier with weight 1e-12 x smallest weight; certificate of the problem without it" % j)


def gen_damped_weight_to_zero(rnd, i):
    """known finding F18 (fixed inputs: called with its own fixed-seed generator): a DAMPED spline with separate forces, one
    datum far from the cloud with weight 1e-14.  The fit must be the fit of the problem without the datum - it is not,
    because StandardScaler computes the column scale from all Jacobian rows, unweighted."""
    n = rnd.randint(12, 24)
    e = np.array([rnd.random() for _ in range(n)])
    nn = np.array([rnd.random() for _ in range(n)])
    d = np.array([rnd.gauss(0, 1) for _ in range(n)])
    k = rnd.randint(4, 8)
    conf = {"damping": 10.0 ** rnd.uniform(-4, 0), "mindist": None,
            "force_coords": [[rnd.random() for _ in range(k)], [rnd.random() for _ in range(k)]]}
    j = rnd.randrange(n)
    e[j] = 5.0
    d[j] += 50.0
    w = np.ones(n)
    w[j] = 1e-14
    _, _, _, p, _ = fit("spline", conf, (e, nn), d, w)
    keep = np.arange(n) != j
    A, dr, wr, _, _ = fit("spline", conf, (e[keep], nn[keep]), d[keep], w[keep])
    term = "c02_fit %s %s %s %s %s %s None" % (cN(A.shape[1]), dmat(A), dl(dr), dl(wr), dl(p), cD(conf["damping"]))
    return Case({"estimator": "spline", "config": conf, "coordinates": tolist((e, nn)), "data": tolist(d), "weights": tolist(w),
                 "metamorphic": "datum %d far away with weight 1e-14; certificate of the damped problem without it" % j},
                {"params": p.tolist()}, term, describe("spline", conf, (e, nn), d, w), "FINDING-damped-weight-to-zero", nontrivial=True)


def finding_key(case):
    # only the damped "weight -> 0 vs problem without the datum" comparison; every other violation alarms
    if case.kind == "FINDING-damped-weight-to-zero" and isinstance(case.inp, dict) and "metamorphic" in case.inp \
            and case.inp.get("config", {}).get("damping") is not None:
        return "C02-damped-fit-zero-weight-datum-still-sets-column-scale"
    return None


def gen_duplicates(rnd, i, kind):
    """re-occupied stations: 1..5 exactly repeated locations with DIFFERENT data values, damped fit with the forces at
    the data (force_coords=None): one force per datum, duplicate Jacobian columns, still a well-conditioned damped problem"""
    base = rnd.randint(4, 10) if kind == "vector" else rnd.randint(5, 18)
    e, nn, scale = make_cloud(rnd, base, offset=rnd.choice([0.0, 0.0, 2.0]) * rnd.uniform(-1, 1))
    rep = [rnd.randrange(base) for _ in range(rnd.randint(1, 5))]      # may repeat the same station several times
    e = np.concatenate([e, e[rep]])
    nn = np.concatenate([nn, nn[rep]])
    perm = list(range(e.size))
    rnd.shuffle(perm)
    e, nn = e[perm], nn[perm]
    n = e.size
    damping = 10.0 ** rnd.uniform(-6, 1)
    if kind == "vector":
        conf = {"poisson": [0.5, -1.0, rnd.uniform(-1, 1)][i % 3], "mindist": scale * 10.0 ** rnd.uniform(-2, -0.5), "damping": damping}
        data = (np.array([rnd.gauss(0, 1) for _ in range(n)]), np.array([rnd.gauss(0, 3) for _ in range(n)]))
        w = None if i % 2 else (np.array([rnd.uniform(0.1, 1.0) for _ in range(n)]), np.array([rnd.uniform(5.0, 30.0) for _ in range(n)]))
    else:
        conf = {"damping": damping, "mindist": [None, 0.0, 1e-3 * scale][i % 3]}
        data = np.array([rnd.gauss(0, 1) for _ in range(n)]) * 10.0 ** rnd.uniform(-2, 2)
        w = None if i % 2 else np.array([rnd.uniform(0.1, 3.0) for _ in range(n)])
    return kind, conf, (e, nn), data, w


FORCE_COUNTS_QUICK = [1, 2, 31, 32, 33, 64, 65]
FORCE_COUNTS_THOROUGH = list(range(1, 71)) + [96, 97, 128, 129]


def gen_force_count(rnd, kind, k, at_data, i):
    """a prescribed NUMBER of forces k (not only 'typical' sizes: 1, 2, around 32 and 64, ...): forces at the data with
    exactly k data points, or a separate set of k forces (also a single force) fitted to a handful of points; damped, so
    that under-determined layouts are well posed"""
    scale = 10.0 ** rnd.uniform(-1, 5)
    n = k if at_data else (rnd.randint(3, 7) if kind == "vector" else rnd.randint(4, 10))
    e = scale * np.array([rnd.random() for _ in range(n)])
    nn = scale * np.array([rnd.random() for _ in range(n)])
    damping = 10.0 ** rnd.uniform(-4, 0)
    if kind == "vector":
        conf = {"poisson": [0.5, rnd.uniform(-1, 1), -1.0, 1.0][i % 4], "mindist": scale * 10.0 ** rnd.uniform(-1.5, -0.5), "damping": damping}
        data = (np.array([rnd.gauss(0, 1) for _ in range(n)]), np.array([rnd.gauss(0, 2) for _ in range(n)]))
        w = None if i % 3 else (np.array([rnd.uniform(0.1, 1.0) for _ in range(n)]), np.array([rnd.uniform(5.0, 30.0) for _ in range(n)]))
    else:
        conf = {"damping": damping, "mindist": None}
        data = np.array([rnd.gauss(0, 1) for _ in range(n)])
        w = None if i % 3 else np.array([rnd.uniform(0.1, 3.0) for _ in range(n)])
    if not at_data:
        conf["force_coords"] = [[scale * rnd.uniform(-0.1, 1.1) for _ in range(k)], [scale * rnd.uniform(-0.1, 1.1) for _ in range(k)]]
    return kind, conf, (e, nn), data, w


def generate(tier, seed):
    rnd = random.Random(seed)
    cases = []
    del _EXTRA[:]
    nfit = {"quick": (30, 36, 30), "thorough": (300, 360, 300)}[tier]
    nmeta = {"quick": (12, 12), "thorough": (120, 120)}[tier]
    def other(gen, i):
        """every second case: the same instance is first fitted to another data set of the same kind (different size)"""
        return gen(rnd, i + 1)[2:] if i % 2 else None

    for i in range(nfit[0]):
        cases.append(fit_case(*rescale_data(gen_trend(rnd, i), i), stream="trend", prefit=other(gen_trend, i)))
    for i in range(nfit[0] // 4):
        cases.append(fit_case(*rescale_data(gen_trend_offset(rnd, i), i), stream="trend-offset"))
    for i in range(20 if tier == "quick" else 180):
        k, conf, coords, data, w = rescale_data(gen_spline_unit(rnd, i), i)
        cases.append(fit_case(k, conf, coords, data, w,
                              stream="unit-distance/spline-%s-%s" % ("damped" if conf["damping"] is not None else "undamped",
                                                                     "forces-reordered-data" if conf.get("force_mode") else
                                                                     "forces-coarser" if "force_coords" in conf else "forces-at-data")))
    for i in range(nfit[1]):
        k, conf, coords, data, w = rescale_data(gen_spline(rnd, i), i)
        cases.append(fit_case(k, conf, coords, data, w,
                              stream="spline-%s-%s" % ("damped" if conf["damping"] is not None else "undamped",
                                                       "forces-reordered-data" if conf.get("force_mode") else
                                                       "forces-separate" if "force_coords" in conf else "forces-at-data"),
                              prefit=other(gen_spline, (i // 2) % 2 + 2 * (i // 4))))
    for i in range(nfit[2]):
        k, conf, coords, data, w = rescale_data(gen_vector(rnd, i), i)
        # VectorSpline2D documents that it keeps the force locations of its first fit: refit only with explicit forces
        cases.append(fit_case(k, conf, coords, data, w,
                              stream="vector-%s-%s%s" % ("damped" if conf["damping"] is not None else "undamped",
                                                         "forces-reordered-data" if conf.get("force_mode") else
                                                         "forces-separate" if "force_coords" in conf else "forces-at-data",
                                                         "-poisson%g" % conf["poisson"] if conf["poisson"] in (-1.0, 0.0, 1.0) else ""),
                              prefit=other(gen_vector, (i // 2) % 2 + 2 * (i // 4)) if "force_coords" in conf else None))
    for i in range(nmeta[0]):
        cases.append(gen_weights_times_constant(rnd, i))
    for i in range(nmeta[1]):
        cases.append(gen_weight_to_zero(rnd, i))
    for i in range(10 if tier == "quick" else 80):
        cases.append(fit_case(*rescale_data(gen_duplicates(rnd, i, "spline"), i), stream="duplicate-locations/spline-damped"))
    for i in range(6 if tier == "quick" else 48):
        cases.append(fit_case(*rescale_data(gen_duplicates(rnd, i, "vector"), i), stream="duplicate-locations/vector-damped"))
    for j, k in enumerate(FORCE_COUNTS_QUICK if tier == "quick" else FORCE_COUNTS_THOROUGH):
        for kind in ("spline", "vector"):
            for at_data in (True, False):
                cases.append(fit_case(*rescale_data(gen_force_count(rnd, kind, k, at_data, j), j + (kind == "vector") + 2 * at_data),
                                      stream="force-count/%s-%s" % (kind, "at-data" if at_data else "separate")))
    frnd = random.Random(180218)     # the finding cases do not depend on the run's seed
    for i in range(4):
        cases.append(gen_damped_weight_to_zero(frnd, i))
    cases.extend(_EXTRA)       # the Jacobian-versus-independent-assembly comparisons queued by fit_case
    del _EXTRA[:]
    return cases


def search(dis, tier, seed):
    return generate("thorough" if tier == "quick" else "quick", seed + 1)
