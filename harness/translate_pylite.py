"""Serialise selected functions of verde/coordinates.py (read from /repo on every run) into PyLite
terms (coq/theories/Lib/PyLite.v).  Fail closed: any construct outside the fragment raises
Unsupported, which the check reports as a broken tie."""
import ast
import os
from fractions import Fraction


class Unsupported(Exception):
    pass


def cstr(s):
    return '"' + s.replace('"', '""') + '"'


def cZ(n):
    return "(%d)%%Z" % n


def const(v):
    if v is None:
        return "(EConst VNone)"
    if isinstance(v, bool):
        return "(EConst (VB %s))" % ("true" if v else "false")
    if isinstance(v, int):
        return "(EConst (VZ %s))" % cZ(v)
    if isinstance(v, float):
        f = Fraction(v)
        return "(EConst (VQ (%d # %d)))" % (f.numerator, f.denominator)
    if isinstance(v, str):
        return "(EConst (VS %s))" % cstr(v)
    raise Unsupported("constant %r" % (v,))


BIN = {ast.Add: "Add", ast.Sub: "Sub", ast.Mult: "Mul", ast.Div: "Div"}
CMP = {ast.Lt: "CLt", ast.LtE: "CLe", ast.Gt: "CGt", ast.GtE: "CGe", ast.Eq: "CEq", ast.NotEq: "CNe"}


def lst(items):
    return "[" + "; ".join(items) + "]"


def fname(node):
    if isinstance(node, ast.Name):
        return node.id
    if isinstance(node, ast.Attribute):
        return fname(node.value) + "." + node.attr
    raise Unsupported("callee " + ast.dump(node))


def int_const(node):
    if isinstance(node, ast.Constant) and isinstance(node.value, int) and not isinstance(node.value, bool):
        return node.value
    if isinstance(node, ast.UnaryOp) and isinstance(node.op, ast.USub):
        return -int_const(node.operand)
    raise Unsupported("non-constant index " + ast.dump(node))


def expr(e):
    if isinstance(e, ast.Name):
        return "(EVar %s)" % cstr(e.id)
    if isinstance(e, ast.Constant):
        return const(e.value)
    if isinstance(e, ast.BinOp) and type(e.op) in BIN:
        return "(EBin %s %s %s)" % (BIN[type(e.op)], expr(e.left), expr(e.right))
    if isinstance(e, ast.UnaryOp) and isinstance(e.op, ast.USub):
        return "(ENeg %s)" % expr(e.operand)
    if isinstance(e, ast.UnaryOp) and isinstance(e.op, ast.Not):
        return "(ENot %s)" % expr(e.operand)
    if isinstance(e, ast.BoolOp):
        op = "EAnd" if isinstance(e.op, ast.And) else "EOr"
        out = expr(e.values[-1])
        for v in reversed(e.values[:-1]):
            out = "(%s %s %s)" % (op, expr(v), out)
        return out
    if isinstance(e, ast.Compare):
        parts = []
        left = e.left
        for op, right in zip(e.ops, e.comparators):
            if isinstance(op, (ast.Is, ast.IsNot)):
                if not (isinstance(right, ast.Constant) and right.value is None):
                    raise Unsupported("is <non-None>")
                parts.append("(EIsNone %s %s)" % (expr(left), "true" if isinstance(op, ast.IsNot) else "false"))
            elif isinstance(op, (ast.In, ast.NotIn)):
                if not isinstance(right, (ast.List, ast.Tuple)):
                    raise Unsupported("in <non-literal>")
                parts.append("(EIn %s %s %s)" % (expr(left), lst([expr(x) for x in right.elts]),
                                                 "true" if isinstance(op, ast.NotIn) else "false"))
            elif type(op) in CMP:
                parts.append("(ECmp %s %s %s)" % (CMP[type(op)], expr(left), expr(right)))
            else:
                raise Unsupported("comparison " + ast.dump(op))
            left = right
        out = parts[-1]
        for p in reversed(parts[:-1]):
            out = "(EAnd %s %s)" % (p, out)
        return out
    if isinstance(e, ast.Call):
        if e.keywords:
            raise Unsupported("keyword arguments in call to " + fname(e.func))
        return "(ECall %s %s)" % (cstr(fname(e.func)), lst([expr(a) for a in e.args]))
    if isinstance(e, (ast.Tuple, ast.List)):
        return "(ETuple %s)" % lst([expr(x) for x in e.elts])
    if isinstance(e, ast.Subscript):
        sl = e.slice
        if isinstance(sl, ast.Slice):
            if sl.lower is not None or sl.step is not None or sl.upper is None:
                raise Unsupported("slice form")
            return "(ESliceTo %s %s)" % (expr(e.value), cZ(int_const(sl.upper)))
        i = int_const(sl)
        if i < 0:
            raise Unsupported("negative index")
        return "(EIndex %s %s)" % (expr(e.value), cZ(i))
    raise Unsupported(ast.dump(e)[:200])


def target_names(t):
    if isinstance(t, ast.Name):
        return [t.id]
    if isinstance(t, (ast.Tuple, ast.List)) and all(isinstance(x, ast.Name) for x in t.elts):
        return [x.id for x in t.elts]
    raise Unsupported("assignment target " + ast.dump(t)[:100])


def stmts(body):
    out = []
    for i, s in enumerate(body):
        if isinstance(s, ast.Expr) and isinstance(s.value, ast.Constant) and isinstance(s.value.value, str):
            continue   # docstring / stray string
        if isinstance(s, ast.Assign):
            if len(s.targets) != 1:
                raise Unsupported("chained assignment")
            out.append("SAssign %s %s" % (lst([cstr(n) for n in target_names(s.targets[0])]), expr(s.value)))
        elif isinstance(s, ast.AugAssign):
            if not isinstance(s.target, ast.Name) or type(s.op) not in BIN:
                raise Unsupported("augmented assignment")
            out.append("SAug %s %s %s" % (cstr(s.target.id), BIN[type(s.op)], expr(s.value)))
        elif isinstance(s, ast.If):
            out.append("SIf %s %s %s" % (expr(s.test), stmts(s.body), stmts(s.orelse)))
        elif isinstance(s, ast.Raise):
            out.append("SRaise")
        elif isinstance(s, ast.Return):
            out.append("SReturn %s" % (expr(s.value) if s.value is not None else "(EConst VNone)"))
        elif isinstance(s, ast.Pass):
            out.append("SPass")
        else:
            raise Unsupported(type(s).__name__)
    return lst(out)


def translate(path, names):
    tree = ast.parse(open(path).read())
    found = {}
    for n in tree.body:
        if isinstance(n, ast.FunctionDef) and n.name in names:
            a = n.args
            if a.vararg or a.kwarg or a.kwonlyargs or a.posonlyargs:
                raise Unsupported("signature of " + n.name)
            params = [x.arg for x in a.args]
            found[n.name] = "Definition src_%s : func :=\n  {| f_params := %s;\n     f_body := %s |}.\n" % (
                n.name, lst([cstr(p) for p in params]), stmts(n.body))
    missing = [n for n in names if n not in found]
    if missing:
        raise Unsupported("functions not found: %s" % missing)
    return found


if __name__ == "__main__":
    import sys
    repo = sys.argv[1] if len(sys.argv) > 1 else "/repo"
    for k, v in translate(os.path.join(repo, "verde", "coordinates.py"),
                          ["check_region", "get_region", "pad_region", "spacing_to_size", "line_coordinates"]).items():
        print(v)
