"""Serialise selected functions of a verde module (read from the checkout under test on every run)
into PyLite terms (coq/theories/Lib/PyLite.v).  Fail closed: any construct outside the fragment
raises Unsupported, which the check reports as a broken tie.

No interpretation happens here except:
  * `obj.m(args)` / `obj.a` on something that is not an imported module become calls of the
    pseudo-functions "meth:m" / "attr:a" with the object as first argument;
  * keyword arguments are appended to the positional ones and recorded in the callee's name
    (`np.searchsorted(a, v, side="right")` -> call of "np.searchsorted,side=" with [a; v; "right"]);
  * `x.append(e)` as a statement, `x[i] = e`, `x[:k] = e` become the mutation statements of PyLite,
    which rebind x.  That is faithful only if no alias of the object is live, so they are admitted
    only when x provably (syntactically, see Fresh) holds a fresh list / array that has not escaped.
  * the message expression of a `raise` is dropped (PyLite has one exception);
  * `f(a, *rest)` (one starred argument, last, no keywords) becomes ECallStar; a comprehension with a
    tuple target becomes ECompT; `zip(..)` is admitted only where it is consumed by iteration;
  * `self.m(args)` as a statement becomes SMethod (the method may mutate self: PyLite rebinds self to what
    the specification "mut:m" returns), admitted only when no alias of self can exist (see
    Translator.self_method_call);
  * for a method, the class's constant attributes (`name = <literal>` in the class body) are emitted as
    `classattrs_<Class>_<method>` next to `bases_..`;
  * a nested loop target `for a, (b, c) in it: body` becomes `for a, %1 in it: b, c = %1; body` with a
    name %1 that is not a Python identifier (same bindings, same ValueError on a wrong length);
  * `x[:, i] = e` becomes SSetCol (x fresh, as for the other mutations);
  * numpy's dtype classes used as values (`np.float32`) become the opaque constant "<np.float32>";
    what consumes them (`np.result_type`, `.astype`, `dtype=`) is given by specification in the templates.
  * `a in e` / `a not in e` for a non-literal e become calls of the builtin "in";
  * stateful local objects: a name bound to `Cls(...)`, Cls an imported capitalised name (a constructor: a new
    object nobody else holds), that has not escaped (Fresh, kind "object") may receive method calls that mutate
    it.  PyLite has no store, so such a call, which must be a whole statement `x.m(args)` / `t = x.m(args)`,
    becomes `x, %r = meth!:m(x, args); t = %r`: the callee "meth!:m" (given by specification in the template)
    returns the receiver's new state and the result.  `if c in x.m(args):` with a constant c is first hoisted
    to `x, %t = meth!:m(x, args); if c in %t:` (the call is the first thing the test evaluates).  A method call
    on such an object anywhere else in an expression is outside the fragment.
  * `h.m(args)` where m changes the state of its receiver (STATEFUL_METHODS: `readline` of a file ...) and h
    is a parameter becomes the statement `SCallSt "$k" h "meth:m" args` (the specification of m returns the
    result and the new state of h; h is rebound) placed BEFORE the statement it occurs in, and the call is
    replaced by the temporary `$k`.  Hoisting is admitted only when the call is the first thing the statement
    evaluates (so that nothing is reordered), at most once per statement, never inside a part that may run
    zero or several times; and h may occur in the function ONLY as the receiver of such calls (no alias).
  * `yield e` as a statement becomes SYield (the function is then run with run_gen: the list of yielded values).
  * `E.shuffle(x)` as a statement (MUTATING_ARG_METHODS: the method changes its ARGUMENT in place) becomes
    `x = E.shuffle(x)` - the specification of the method returns the new contents - admitted, like the
    other mutations, only for a provably fresh un-escaped x.
  * `warnings.warn(...)` as a statement (EFFECT_CALLS) becomes SLog: the call is recorded in a log.
  * `try: A except C: B` becomes STry A B, whose handler runs in the environment the statement started in
    and catches every exception.  Admitted only when (i) A consists of plain assignments / return / raise
    (no mutation, no yield), (ii) B reads no name that A assigns, (iii) a name that A assigns and B does
    not assign (unconditionally) is read nowhere outside A.  The class C is recorded in `catches_<f>`; that
    A raises nothing but C must be argued in the template.
  * `x.ravel()[:] = e` (filling a fresh array through its flat view) becomes `x = fill_flat(x, e)`, the
    specification of "fill_flat" being the array of x's shape holding the items of e in C order; admitted
    only for a provably fresh, un-escaped array x (np.empty(...) is C-contiguous, so ravel() is a view).
  * `a[:, k]` becomes the builtin "index[:,]".
  * (phase 4) `def f(.., **kwargs)`: the dictionary of the extra keyword arguments is one more parameter, the LAST
    one, and it is OPAQUE: the name may occur in the function only as `**kwargs`, the last argument of a call
    without a starred argument.  Such a call `g(a, k=v, **kwargs)` becomes a call of "g,k=,**" with the arguments
    [a; v; kwargs] (Python evaluates them in this order); what g does with the dictionary is the callee's affair
    (the templates give it by specification).
  * (phase 5) a call whose callee is itself a call, `g(..)(args)` (`dispatch(fit_score, ..)(..)`), becomes a call of
    "call" with the VALUE of g(..) as first argument (evaluated first, as in Python); a function of the same module
    used as a value (`fit_score`) becomes the constant "<fn:fit_score>".
  * (phase 5) `x.fit(args)` / `x.fit(*seq)` as a statement, x a PARAMETER other than self (MUTATING_METHODS: the
    method changes its receiver and what it returns is dropped), becomes `x = mut:fit(x, args)`: the specification
    "mut:fit" returns the receiver's new state.  Admitted only when x is never assigned and occurs in the function
    only as the receiver of attribute accesses / method calls, as a direct positional argument of a call, or in
    `return x` (no alias of the object can be created inside the function).  Such a call anywhere else than as a
    statement is outside the fragment.
  * (phase 5) `a, b = (e for x in it)`: unpacking consumes the generator at once - a list comprehension.
  * (phase 4) `x.extend(e)` as a statement, x a provably fresh un-escaped list, becomes `x = x + list(e)` (list
    concatenation; `zip(..)` is admitted for e: it is consumed at once).
  * (phase 4) stores THROUGH a fresh local object: a name bound to the result of a call in FRESH_OBJECT_CALLS
    (functions that build and return a new container nobody else holds: `make_xarray_grid`) is a fresh "object";
    `x.a[k] = v` / `x[i].a[k] = v` (a path of attribute / index steps rooted at such an x, every index a name or
    a constant, so that the order of evaluation cannot matter) becomes `x = store:<path>(x, i.., k, v)` with the
    path written in the callee's name (".attrs[]", "[].attrs[]"): the specification of the store - given in the
    template - returns the new state of x.  `for t in x` over such an object becomes `for t in iter(x)` ("iter"
    by specification: the keys as of the start of the loop); the loop body may store through x - the
    specification of the store must leave the keys alone (stated in the template).
  * (phase 4b) a signature `def f(a, *args, k=v)`: the parameters are a, args, k in this order; a caller binds
    `args` to the TUPLE of the extra positional arguments (Python's own rule) and the keyword-only parameters
    by value; `vararg_<f>` names the starred parameter.  `**kwargs` stays outside.
  * (phase 4b) numpy functions used as VALUES (`npmin, npmax = np.nanmin, np.nanmax`; FUNC_VALUES) become the
    constant "<fn:np.nanmin>", and a call `x(args)` whose callee x is a local variable of the function becomes
    ECallV (PyLite looks the function up in x; no keywords / stars).
  * (phase 4b) a dict comprehension `{k: v for ..}` becomes `dict([(k, v) for ..])` (PyLite's dicts: string keys,
    insertion order); `d[k] = v` on a dict is SSetItem, admitted - like every mutation - only for a provably
    fresh un-escaped dict (Fresh kind "dict": bound to a dict comprehension), or for a fresh data frame (kind
    "frame": bound to the result of `.aggregate(..)`, which pandas always returns as a new object); what
    `x[k]` / `x[k] = v` do on a non-dict object is the specification getitem:<class> / setitem:<class> of the
    template."""
import ast
import os
from fractions import Fraction


class Unsupported(Exception):
    pass


def cstr(s):
    return '"' + s.replace('"', '""') + '"'


def cZ(n):
    return "(%d)%%Z" % n


def const(v):
    if v is None:
        return "(EConst VNone)"
    if isinstance(v, bool):
        return "(EConst (VB %s))" % ("true" if v else "false")
    if isinstance(v, int):
        return "(EConst (VZ %s))" % cZ(v)
    if isinstance(v, float):
        f = Fraction(v)
        return "(EConst (VQ (%d # %d)))" % (f.numerator, f.denominator)
    if isinstance(v, str):
        return "(EConst (VS %s))" % cstr(v)
    raise Unsupported("constant %r" % (v,))


BIN = {ast.Add: "Add", ast.Sub: "Sub", ast.Mult: "Mul", ast.Div: "Div", ast.FloorDiv: "FloorDiv", ast.Mod: "Mod",
       ast.Pow: "Pow"}
# module attributes used as opaque constants (passed on to library functions, never computed with)
MODULE_CONSTS = {"np.inf": "<np.inf>"}
CMP = {ast.Lt: "CLt", ast.LtE: "CLe", ast.Gt: "CGt", ast.GtE: "CGe", ast.Eq: "CEq", ast.NotEq: "CNe"}


def lst(items):
    return "[" + "; ".join(items) + "]"


def int_const(node):
    if isinstance(node, ast.Constant) and isinstance(node.value, int) and not isinstance(node.value, bool):
        return node.value
    if isinstance(node, ast.UnaryOp) and isinstance(node.op, ast.USub):
        return -int_const(node.operand)
    raise Unsupported("non-constant index " + ast.dump(node))


def is_int_const(node):
    try:
        int_const(node)
        return True
    except Unsupported:
        return False


# methods that change the state of their receiver (see the module docstring)
STATEFUL_METHODS = {"readline", "uniform"}     # uniform: a draw from a RandomState changes its state


def first_evaluated(node):
    """the sub-expression of `node` that Python evaluates first (None: a leaf / unknown form)"""
    if isinstance(node, ast.Call):
        if isinstance(node.func, ast.Attribute):
            return node.func.value              # the receiver of a method call / the module of np.f
        if node.args:
            return node.args[0]
        return None
    if isinstance(node, ast.Attribute):
        return node.value
    if isinstance(node, ast.BinOp):
        return node.left
    if isinstance(node, ast.Compare):
        return node.left
    if isinstance(node, ast.Subscript):
        return node.value
    if isinstance(node, ast.UnaryOp):
        return node.operand
    if isinstance(node, (ast.Tuple, ast.List)):
        return node.elts[0] if node.elts else None
    if isinstance(node, (ast.ListComp, ast.GeneratorExp)):
        return node.generators[0].iter
    if isinstance(node, ast.Starred):
        return node.value
    return None


# functions that change the state of their (single, plain name) argument: next(generator)
STATEFUL_FUNCS = {"next"}


def is_stateful_call(node):
    if (isinstance(node, ast.Call) and isinstance(node.func, ast.Name) and node.func.id in STATEFUL_FUNCS
            and len(node.args) == 1 and isinstance(node.args[0], ast.Name) and not node.keywords):
        return True
    return (isinstance(node, ast.Call) and isinstance(node.func, ast.Attribute)
            and node.func.attr in STATEFUL_METHODS)


# methods that change their (single) argument in place; calls made for their effect on the world
MUTATING_ARG_METHODS = {"shuffle"}
# methods that change the state of their RECEIVER and whose result is dropped when called as a statement
MUTATING_METHODS = {"fit"}
EFFECT_CALLS = {"warnings.warn"}
# builtin classes used as values (warnings.warn(msg, UserWarning))
CLASS_NAMES = ("UserWarning", "FutureWarning", "DeprecationWarning", "RuntimeWarning")

TYPE_NAMES = ("bool", "int", "float")
DTYPE_CONSTS = ("np.float32", "np.float64", "np.int32", "np.int64")    # module attributes admitted as opaque constants
FUNC_NAMES = ("sum", "len", "abs", "min", "max")
# module functions admitted as VALUES (bound to a local name and called through it: PyLite's ECallV)
FUNC_VALUES = ("np.nanmin", "np.nanmax", "np.min", "np.max")


class Translator:
    def __init__(self, modules):
        self.modules = set(modules)     # names bound by import statements of the file
        self.locals = set()             # names bound in the function being translated
        self.handles = set()            # parameters whose state is changed by hoisted method calls
        self.ntemp = 0
        self.catches = []               # the classes of the except clauses, in source order
        self.is_generator = False
        self.iterated = set()           # ids of the expressions that are only iterated (for / comprehension / tuple(..))
        self.fn_locals = set()          # local names that only ever hold function values (see function_value_locals)

    def dotted(self, node):
        """a.b.c rooted at an imported module -> 'a.b.c', else None"""
        if isinstance(node, ast.Name):
            return node.id if node.id in self.modules else None
        if isinstance(node, ast.Attribute):
            base = self.dotted(node.value)
            return None if base is None else base + "." + node.attr
        return None

    def fresh_object(self, node):
        return isinstance(node, ast.Name) and node.id not in self.modules and self.cur_state.get(node.id) == "object"

    def obj_call(self, s, state):
        """s is `x.m(args)` or `t = x.m(args)` with x a fresh local object -> (target or None, the call)"""
        if isinstance(s, ast.Expr):
            t, e = None, s.value
        elif isinstance(s, ast.Assign) and len(s.targets) == 1:
            t, e = s.targets[0], s.value
        else:
            return None
        if (isinstance(e, ast.Call) and isinstance(e.func, ast.Attribute) and isinstance(e.func.value, ast.Name)
                and e.func.value.id not in self.modules and state.get(e.func.value.id) == "object"):
            if t is not None and not isinstance(t, (ast.Name, ast.Tuple, ast.List)):
                return None
            return t, e
        return None

    def hoisted_test(self, test, state):
        """`c in x.m(args)` / `c not in x.m(args)`, c a constant, x a fresh local object -> (negated, c, call)"""
        if (isinstance(test, ast.Compare) and len(test.ops) == 1 and isinstance(test.ops[0], (ast.In, ast.NotIn))
                and isinstance(test.left, ast.Constant)):
            e = test.comparators[0]
            if (isinstance(e, ast.Call) and isinstance(e.func, ast.Attribute) and isinstance(e.func.value, ast.Name)
                    and e.func.value.id not in self.modules and state.get(e.func.value.id) == "object"):
                return isinstance(test.ops[0], ast.NotIn), test.left, e
        return None

    def call(self, e, mut=False):
        f = e.func
        pos = list(e.args)
        if is_stateful_call(e):
            raise Unsupported("state-changing call %s not in the first-evaluated position of its statement"
                              % ast.dump(e.func)[:60])
        star2 = [k for k in e.keywords if k.arg is None]
        if star2:
            # g(.., **kwargs): only the function's own ** parameter, passed on as the last argument
            if (len(star2) != 1 or e.keywords[-1] is not star2[0] or not isinstance(star2[0].value, ast.Name)
                    or star2[0].value.id != getattr(self, "kwarg", None)
                    or any(isinstance(a, ast.Starred) for a in pos)):
                raise Unsupported("** in call other than the function's own **kwargs passed on last")
        if any(isinstance(a, ast.Starred) for a in pos):
            # f(a, b, *rest): one starred argument, the last one, and no keywords (PyLite's ECallStar)
            if (e.keywords or not isinstance(pos[-1], ast.Starred)
                    or any(isinstance(a, ast.Starred) for a in pos[:-1])):
                raise Unsupported("* in call other than as the single last argument")
            star = self.expr(pos[-1].value)
            args = [self.expr(a) for a in pos[:-1]]
            if isinstance(f, ast.Name) and f.id not in ("isinstance", "all", "any", "tuple", "list"):
                return "(ECallStar %s %s %s)" % (cstr(f.id), lst(args), star)
            if isinstance(f, ast.Attribute) and not (isinstance(f.value, ast.Call)):
                name = self.dotted(f)
                if name is not None:
                    return "(ECallStar %s %s %s)" % (cstr(name), lst(args), star)
                if (f.attr in MUTATING_METHODS and isinstance(f.value, ast.Name) and f.value.id != "self"
                        and f.value.id in [a.arg for a in self.function.args.args]):
                    raise Unsupported("state-changing call %s.%s inside an expression" % (f.value.id, f.attr))
                return "(ECallStar %s %s %s)" % (cstr("meth:" + f.attr), lst([self.expr(f.value)] + args), star)
            raise Unsupported("callee of a call with * " + ast.dump(f)[:100])
        if (isinstance(f, ast.Name) and f.id in ("all", "any", "tuple", "list") and len(pos) == 1
                and not e.keywords and isinstance(pos[0], ast.GeneratorExp)):
            g = pos[0]
            if f.id in ("all", "any"):
                return self.comp("CAll" if f.id == "all" else "CAny", g.generators, g.elt)
            # tuple(...) / list(...) consume the whole generator: a list comprehension
            return "(ECall %s %s)" % (cstr(f.id), lst([self.comp("CList", g.generators, g.elt)]))
        if isinstance(f, ast.Name) and f.id in ("tuple", "list") and len(pos) == 1 and not e.keywords:
            self.iterated.add(id(pos[0]))
        # a builtin function passed by keyword (sorted(x, key=sum)) is part of the callee's name
        fkw = [k for k in e.keywords if isinstance(k.value, ast.Name) and k.value.id in FUNC_NAMES
               and k.value.id not in self.locals]
        vkw = [k for k in e.keywords if k not in fkw and k.arg is not None]
        suffix = "".join(",%s=%s" % (k.arg, k.value.id) for k in fkw) + "".join(",%s=" % k.arg for k in vkw)
        if star2 and fkw:
            raise Unsupported("** together with a function-valued keyword")
        if star2:
            suffix += ",**"
        if isinstance(f, ast.Name) and f.id == "isinstance":
            args = []
        else:
            args = [self.expr(a) for a in pos] + [self.expr(k.value) for k in vkw]
            if star2:
                args.append("(EVar %s)" % cstr(star2[0].value.id))
        if isinstance(f, ast.Name) and f.id == "zip" and f.id not in self.locals and id(e) not in self.iterated:
            # zip(..) is an iterator; PyLite renders it as a list, which is the same only when it is consumed
            # by iteration: as the iterable of a for / comprehension or the argument of tuple(..) / list(..)
            raise Unsupported("zip(..) used other than as the iterable of a for / comprehension / tuple() / list()")
        if isinstance(f, ast.Name) and f.id in self.locals and f.id in self.fn_locals:
            # x(args), x a local variable that holds a function value (see FUNC_VALUES)
            if e.keywords:
                raise Unsupported("keywords in a call through the local variable " + f.id)
            return "(ECallV %s %s)" % (cstr(f.id), lst(args))
        if isinstance(f, ast.Name):
            if f.id == "isinstance":
                # isinstance(x, str|tuple|list): the class is part of the callee's name
                if (len(pos) == 2 and not e.keywords and isinstance(pos[1], ast.Name)
                        and pos[1].id in ("str", "tuple", "list")):
                    return "(ECall %s %s)" % (cstr("isinstance:" + pos[1].id), lst([self.expr(pos[0])]))
                raise Unsupported("isinstance form")
            if f.id in getattr(self, "assigned", ()):
                # a call of a LOCAL name bound by an assignment in this function (`scorer = check_scoring(..)`;
                # `scorer(..)`): the callee is the VALUE of that name - a call of "call" with it as first argument
                # (a parameter that is called keeps its name as callee: it is fixed for the whole run)
                return "(ECall %s %s)" % (cstr("call" + suffix), lst(["(EVar %s)" % cstr(f.id)] + args))
            return "(ECall %s %s)" % (cstr(f.id + suffix), lst(args))
        if isinstance(f, ast.Call):
            # g(..)(args): the value of g(..) is called ("call" by specification)
            return "(ECall %s %s)" % (cstr("call" + suffix), lst([self.expr(f)] + args))
        if (isinstance(f, ast.Attribute) and isinstance(f.value, ast.Call) and isinstance(f.value.func, ast.Name)
                and f.value.func.id == "super" and not f.value.args and not f.value.keywords):
            # super().m(args): the base class method applied to self (the proofs check the class's bases)
            return "(ECall %s %s)" % (cstr("super." + f.attr + suffix), lst(['(EVar "self")'] + args))
        if isinstance(f, ast.Attribute):
            name = self.dotted(f)
            if name is not None:
                return "(ECall %s %s)" % (cstr(name + suffix), lst(args))
            if mut:
                return "(ECall %s %s)" % (cstr("meth!:" + f.attr + suffix), lst([self.expr(f.value)] + args))
            if self.fresh_object(f.value):
                raise Unsupported("method call on the local object %s inside an expression (it may change the object)"
                                  % f.value.id)
            if (f.attr in MUTATING_METHODS and isinstance(f.value, ast.Name) and f.value.id != "self"
                    and f.value.id in [a.arg for a in self.function.args.args] and not getattr(self, "in_stmt_call", False)):
                raise Unsupported("state-changing call %s.%s inside an expression" % (f.value.id, f.attr))
            return "(ECall %s %s)" % (cstr("meth:" + f.attr + suffix), lst([self.expr(f.value)] + args))
        raise Unsupported("callee " + ast.dump(f)[:100])

    def comp(self, kind, generators, elt):
        """[elt for x in it] / all(elt for x in it) / any(elt for x in it); several `for` clauses only for
        all / any, where any(e for i in A for j in B) is any(any(e for j in B) for i in A) (same order of
        evaluation, same laziness)"""
        g = generators[0]
        self.iterated.add(id(g.iter))
        if g.ifs or g.is_async:
            raise Unsupported("comprehension form")
        if not isinstance(g.target, ast.Name):
            # for a, b in it: a tuple target (PyLite's ECompT), single for clause only
            if len(generators) > 1:
                raise Unsupported("comprehension form")
            return "(ECompT %s %s %s %s)" % (kind, lst([cstr(n) for n in target_names(g.target)]), self.expr(g.iter),
                                             self.expr(elt))
        if len(generators) > 1:
            # [e for i in A for j in B] is the concatenation of [[e for j in B] for i in A]
            body = self.comp(kind, generators[1:], elt)
            outer = "CConcat" if kind == "CList" else kind
            return "(EComp %s %s %s %s)" % (outer, cstr(g.target.id), self.expr(g.iter), body)
        return "(EComp %s %s %s %s)" % (kind, cstr(g.target.id), self.expr(g.iter), self.expr(elt))

    def expr(self, e):
        expr = self.expr
        if isinstance(e, ast.ListComp):
            return self.comp("CList", e.generators, e.elt)
        if isinstance(e, ast.DictComp):
            # {k: v for ..} = dict([(k, v) for ..]): key before value, as Python evaluates them
            pair = ast.Tuple(elts=[e.key, e.value], ctx=ast.Load())
            return "(ECall %s %s)" % (cstr("dict"), lst([self.comp("CList", e.generators, pair)]))
        if isinstance(e, ast.Name):
            if e.id in self.modules:
                raise Unsupported("module %s used as a value" % e.id)
            if e.id == getattr(self, "kwarg", None):
                raise Unsupported("**%s used other than passed on as **%s" % (e.id, e.id))
            if e.id in TYPE_NAMES and e.id not in self.locals:
                return "(EConst (VS %s))" % cstr("<type:%s>" % e.id)    # a type object used as a value (dtype=bool)
            if e.id in CLASS_NAMES and e.id not in self.locals:
                return "(EConst (VS %s))" % cstr("<class:%s>" % e.id)
            if e.id in getattr(self, "module_functions", ()) and e.id not in self.locals:
                return "(EConst (VS %s))" % cstr("<fn:%s>" % e.id)       # a function of the same module used as a value
            if e.id in getattr(self, "module_classes", ()) and e.id not in self.locals:
                return "(EConst (VS %s))" % cstr("<class:%s>" % e.id)    # a class of the same module used as a value
            return "(EVar %s)" % cstr(e.id)
        if isinstance(e, ast.Constant):
            return const(e.value)
        if isinstance(e, ast.BinOp) and type(e.op) in BIN:
            return "(EBin %s %s %s)" % (BIN[type(e.op)], expr(e.left), expr(e.right))
        if isinstance(e, ast.UnaryOp) and isinstance(e.op, ast.USub):
            return "(ENeg %s)" % expr(e.operand)
        if isinstance(e, ast.UnaryOp) and isinstance(e.op, ast.Not):
            return "(ENot %s)" % expr(e.operand)
        if isinstance(e, ast.BoolOp):
            op = "EAnd" if isinstance(e.op, ast.And) else "EOr"
            out = expr(e.values[-1])
            for v in reversed(e.values[:-1]):
                out = "(%s %s %s)" % (op, expr(v), out)
            return out
        if isinstance(e, ast.Compare):
            parts = []
            left = e.left
            if len(e.ops) > 1 and not all(isinstance(c, (ast.Name, ast.Constant)) for c in e.comparators[:-1]):
                raise Unsupported("chained comparison with a compound middle operand")   # it would be evaluated twice
            for op, right in zip(e.ops, e.comparators):
                if isinstance(op, (ast.Is, ast.IsNot)):
                    if not (isinstance(right, ast.Constant) and right.value is None):
                        raise Unsupported("is <non-None>")
                    parts.append("(EIsNone %s %s)" % (expr(left), "true" if isinstance(op, ast.IsNot) else "false"))
                elif isinstance(op, (ast.In, ast.NotIn)) and not isinstance(right, (ast.List, ast.Tuple)):
                    if len(e.ops) > 1:
                        raise Unsupported("chained in")
                    t_ = "(ECall %s %s)" % (cstr("in"), lst([expr(left), expr(right)]))
                    parts.append("(ENot %s)" % t_ if isinstance(op, ast.NotIn) else t_)
                elif isinstance(op, (ast.In, ast.NotIn)):
                    parts.append("(EIn %s %s %s)" % (expr(left), lst([expr(x) for x in right.elts]),
                                                     "true" if isinstance(op, ast.NotIn) else "false"))
                elif type(op) in CMP:
                    parts.append("(ECmp %s %s %s)" % (CMP[type(op)], expr(left), expr(right)))
                else:
                    raise Unsupported("comparison " + ast.dump(op))
                left = right
            out = parts[-1]
            for p in reversed(parts[:-1]):
                out = "(EAnd %s %s)" % (p, out)
            return out
        if isinstance(e, ast.Call):
            return self.call(e)
        if isinstance(e, ast.Attribute):
            if self.dotted(e) in MODULE_CONSTS:
                return "(EConst (VS %s))" % cstr(MODULE_CONSTS[self.dotted(e)])
            if self.dotted(e) in FUNC_VALUES:
                return "(EConst (VS %s))" % cstr("<fn:%s>" % self.dotted(e))
            if self.dotted(e) in DTYPE_CONSTS:
                return "(EConst (VS %s))" % cstr("<%s>" % self.dotted(e))
            if self.dotted(e) is not None:
                raise Unsupported("module attribute " + self.dotted(e))
            return "(ECall %s %s)" % (cstr("attr:" + e.attr), lst([expr(e.value)]))
        if isinstance(e, (ast.Tuple, ast.List)):
            if any(isinstance(x, ast.Starred) for x in e.elts):
                raise Unsupported("starred element")
            return "(%s %s)" % ("ETuple" if isinstance(e, ast.Tuple) else "EList", lst([expr(x) for x in e.elts]))
        if isinstance(e, ast.Subscript):
            sl = e.slice
            if isinstance(sl, ast.Slice):
                if sl.step is not None:
                    raise Unsupported("slice step")
                if sl.lower is None and sl.upper is not None and not is_int_const(sl.upper):
                    return "(ESliceToE %s %s)" % (expr(e.value), expr(sl.upper))
                if sl.lower is None and sl.upper is not None:
                    return "(ESliceTo %s %s)" % (expr(e.value), cZ(int_const(sl.upper)))
                if sl.lower is not None and sl.upper is None and int_const(sl.lower) >= 0:
                    return "(ESliceFrom %s %s)" % (expr(e.value), cZ(int_const(sl.lower)))
                raise Unsupported("slice form")
            if isinstance(sl, ast.Tuple):
                if (len(sl.elts) == 2 and isinstance(sl.elts[0], ast.Slice) and sl.elts[0].lower is None
                        and sl.elts[0].upper is None and sl.elts[0].step is None
                        and not isinstance(sl.elts[1], ast.Slice)):
                    return "(ECall %s %s)" % (cstr("index[:,]"), lst([expr(e.value), expr(sl.elts[1])]))
                raise Unsupported("multi-dimensional index")
            if is_int_const(sl) and int_const(sl) >= 0:
                return "(EIndex %s %s)" % (expr(e.value), cZ(int_const(sl)))
            return "(EIdx %s %s)" % (expr(e.value), expr(sl))
        raise Unsupported(ast.dump(e)[:200])

    def hoist(self, owner, field):
        """If the expression owner.field starts (in evaluation order) with a state-changing method call on a
        plain name, replace that call by a temporary and return the SCallSt statement to run before; else []."""
        root = getattr(owner, field)
        if root is None:
            return []
        parent, pfield, pidx, node = owner, field, None, root
        while node is not None and not is_stateful_call(node):
            nxt = first_evaluated(node)
            if nxt is None:
                return []
            # locate nxt among node's fields so that it can be replaced
            found = None
            for fname, value in ast.iter_fields(node):
                if value is nxt:
                    found = (fname, None)
                elif isinstance(value, list):
                    for i, v in enumerate(value):
                        if v is nxt:
                            found = (fname, i)
                        elif isinstance(v, ast.comprehension) and v.iter is nxt:
                            parent, pfield, pidx = v, "iter", None
                            found = "done"
                elif isinstance(value, ast.Attribute) and value.value is nxt:      # receiver of a method call
                    parent, pfield, pidx = value, "value", None
                    found = "done"
            if found is None:
                return []
            if found != "done":
                parent, pfield, pidx = node, found[0], found[1]
            node = nxt
        if node is None:
            return []
        call = node
        if isinstance(call.func, ast.Name):          # next(h)
            recv, fname, cargs = call.args[0], call.func.id, []
            if call.func.id in self.locals:
                raise Unsupported("%s is rebound in the function" % call.func.id)
        else:
            recv, fname, cargs = call.func.value, "meth:" + call.func.attr, call.args
        if not isinstance(recv, ast.Name) or recv.id in self.modules:
            raise Unsupported("state-changing call %s on something that is not a plain name" % fname)
        if call.keywords or any(isinstance(a, ast.Starred) for a in call.args):
            raise Unsupported("keywords / * in a state-changing call")
        self.ntemp += 1
        tmp = "$%d" % self.ntemp
        self.handles.add(recv.id)
        pre = "SCallSt %s %s %s %s" % (cstr(tmp), cstr(recv.id), cstr(fname), lst([self.expr(a) for a in cargs]))
        new = ast.copy_location(ast.Name(id=tmp, ctx=ast.Load()), call)
        if pidx is None:
            setattr(parent, pfield, new)
        else:
            getattr(parent, pfield)[pidx] = new
        return [pre]

    def effect_call(self, s):
        """warnings.warn(...) as a statement -> (name with keyword suffix, argument terms)"""
        c = s.value
        if not (isinstance(c, ast.Call) and self.dotted(c.func) in EFFECT_CALLS):
            return None
        if any(isinstance(a, ast.Starred) for a in c.args) or any(k.arg is None for k in c.keywords):
            raise Unsupported("* / ** in call")
        name = self.dotted(c.func) + "".join(",%s=" % k.arg for k in c.keywords)
        return name, [self.expr(a) for a in c.args] + [self.expr(k.value) for k in c.keywords]

    def mutating_arg_call(self, s):
        """E.shuffle(x) as a statement, x a local name -> (E, "shuffle", x)"""
        c = s.value
        if (isinstance(c, ast.Call) and isinstance(c.func, ast.Attribute) and c.func.attr in MUTATING_ARG_METHODS
                and self.dotted(c.func) is None):
            if (len(c.args) == 1 and not c.keywords and isinstance(c.args[0], ast.Name)
                    and c.args[0].id not in self.modules):
                return c.func.value, c.func.attr, c.args[0].id
            raise Unsupported("form of the in-place call " + c.func.attr)
        return None

    def try_stmt(self, s):
        if len(s.handlers) != 1 or s.orelse or s.finalbody:
            raise Unsupported("try form")
        h = s.handlers[0]
        if h.name is not None or not isinstance(h.type, ast.Name):
            raise Unsupported("except form")
        stored = set()
        for b in s.body:
            if isinstance(b, ast.Assign) and len(b.targets) == 1:
                stored |= set(target_names(b.targets[0]))
            elif not isinstance(b, (ast.Return, ast.Raise)):
                raise Unsupported("%s inside try" % type(b).__name__)
        if any(isinstance(x, (ast.Yield, ast.YieldFrom)) for b in s.body for x in ast.walk(b)):
            raise Unsupported("yield inside try")
        loads = lambda nodes: {x.id for b in nodes for x in ast.walk(b)
                               if isinstance(x, ast.Name) and isinstance(x.ctx, ast.Load)}
        if loads(h.body) & stored:
            raise Unsupported("the handler reads %s, assigned in the try body" % sorted(loads(h.body) & stored))
        rebound = set()
        for b in h.body:
            if isinstance(b, ast.Assign) and len(b.targets) == 1 and isinstance(b.targets[0], ast.Name):
                rebound.add(b.targets[0].id)
        inside = {id(x) for b in s.body for x in ast.walk(b)}
        outside = {x.id for x in ast.walk(self.function)
                   if isinstance(x, ast.Name) and isinstance(x.ctx, ast.Load) and id(x) not in inside}
        if (stored - rebound) & outside:
            raise Unsupported("%s: assigned in a try body, not in its handler, and read outside"
                              % sorted((stored - rebound) & outside))
        self.catches.append(h.type.id)
        body = self.stmts(s.body)
        if "SCallSt " in body:
            # a state change made before the exception would be rolled back by STry (its handler runs in
            # the environment the statement started in)
            raise Unsupported("state-changing call inside try")
        return "STry %s %s" % (body, self.stmts(h.body))

    def append_call(self, s):
        """x.append(e) as a statement, x a local name"""
        if (isinstance(s, ast.Expr) and isinstance(s.value, ast.Call) and isinstance(s.value.func, ast.Attribute)
                and s.value.func.attr == "append" and isinstance(s.value.func.value, ast.Name)
                and s.value.func.value.id not in self.modules
                and len(s.value.args) == 1 and not s.value.keywords
                and not isinstance(s.value.args[0], ast.Starred)):
            return s.value.func.value.id, s.value.args[0]
        return None

    def extend_call(self, s):
        """x.extend(e) as a statement, x a local name -> (x, e)"""
        if (isinstance(s, ast.Expr) and isinstance(s.value, ast.Call) and isinstance(s.value.func, ast.Attribute)
                and s.value.func.attr == "extend" and isinstance(s.value.func.value, ast.Name)
                and s.value.func.value.id not in self.modules
                and len(s.value.args) == 1 and not s.value.keywords
                and not isinstance(s.value.args[0], ast.Starred)):
            return s.value.func.value.id, s.value.args[0]
        return None

    def param_mut_call(self, s):
        """x.fit(args) / x.fit(*seq) as a statement, x a parameter other than self -> (x, method, args, star or None)"""
        if not (isinstance(s, ast.Expr) and isinstance(s.value, ast.Call) and isinstance(s.value.func, ast.Attribute)
                and s.value.func.attr in MUTATING_METHODS and isinstance(s.value.func.value, ast.Name)):
            return None
        c = s.value
        x = c.func.value.id
        fn = self.function
        pnames = [a.arg for a in fn.args.args]
        if x not in pnames or x == "self":
            return None
        if c.keywords:
            raise Unsupported("keywords in the state-changing call %s.%s" % (x, c.func.attr))
        stars = [a for a in c.args if isinstance(a, ast.Starred)]
        if stars and (len(stars) > 1 or c.args[-1] is not stars[0]):
            raise Unsupported("* other than last in the state-changing call %s.%s" % (x, c.func.attr))
        ok = set()
        for n in ast.walk(fn):
            if isinstance(n, ast.Attribute) and isinstance(n.value, ast.Name) and n.value.id == x:
                ok.add(id(n.value))
            elif isinstance(n, ast.Return) and isinstance(n.value, ast.Name) and n.value.id == x:
                ok.add(id(n.value))
            elif isinstance(n, ast.Call):
                for a in n.args:
                    if isinstance(a, ast.Name) and a.id == x:
                        ok.add(id(a))
        for n in ast.walk(fn):
            if isinstance(n, ast.Name) and n.id == x and (id(n) not in ok or not isinstance(n.ctx, ast.Load)):
                raise Unsupported("state-changing call %s.%s where %s may be aliased" % (x, c.func.attr, x))
        return x, c.func.attr, [a for a in c.args if not isinstance(a, ast.Starred)], (stars[0].value if stars else None)

    def self_method_call(self, s):
        """self.m(args) as a statement (the method may mutate self: PyLite's SMethod, which rebinds self).
        Admitted only when `self` is the function's first parameter and no alias of it can exist: every
        occurrence of the name `self` in the function is the object of an attribute access / method call
        (`self.a`, `self.m(..)`) or the value of a `return self`."""
        if not (isinstance(s, ast.Expr) and isinstance(s.value, ast.Call) and isinstance(s.value.func, ast.Attribute)
                and isinstance(s.value.func.value, ast.Name) and s.value.func.value.id == "self"):
            return None
        c = s.value
        fn = self.function
        if not (fn.args.args and fn.args.args[0].arg == "self"):
            raise Unsupported("self.m(..) statement in a function whose first parameter is not self")
        if c.keywords or any(isinstance(a, ast.Starred) for a in c.args):
            raise Unsupported("self.m(..) statement with keyword / starred arguments")
        ok = set()
        for n in ast.walk(fn):
            if isinstance(n, ast.Attribute) and isinstance(n.value, ast.Name) and n.value.id == "self":
                ok.add(id(n.value))
            elif isinstance(n, ast.Return) and isinstance(n.value, ast.Name) and n.value.id == "self":
                ok.add(id(n.value))
        for n in ast.walk(fn):
            if isinstance(n, ast.Name) and n.id == "self" and id(n) not in ok:
                raise Unsupported("self.m(..) statement in a function where self may be aliased")
        return c.func.attr, list(c.args)

    def stmts(self, body):
        out = []
        for pos_, s in enumerate(body):
            self.cur_state = getattr(s, "_fresh", {})
            # state-changing method calls are hoisted in front of the statement that starts with them
            if isinstance(s, (ast.Assign, ast.Expr, ast.Return, ast.AugAssign)):
                out.extend(self.hoist(s, "value"))
            elif isinstance(s, ast.If):
                out.extend(self.hoist(s, "test"))
            elif isinstance(s, ast.For):
                out.extend(self.hoist(s, "iter"))
            oc = self.obj_call(s, self.cur_state)
            if oc is not None:
                # x.m(args) on a fresh local object: x, %r = meth!:m(x, args); target = %r
                t, e = oc
                out.append("SAssign %s %s" % (lst([cstr(e.func.value.id), cstr("%r")]), self.call(e, mut=True)))
                if t is not None:
                    out.append("SAssign %s (EVar %s)" % (lst([cstr(n) for n in target_names(t)]), cstr("%r")))
                continue
            if isinstance(s, ast.If):
                ht = self.hoisted_test(s.test, self.cur_state)
                if ht is not None:
                    neg, c, e = ht
                    out.append("SAssign %s %s" % (lst([cstr(e.func.value.id), cstr("%t")]), self.call(e, mut=True)))
                    test = "(ECall %s %s)" % (cstr("in"), lst([self.expr(c), "(EVar %s)" % cstr("%t")]))
                    if neg:
                        test = "(ENot %s)" % test
                    out.append("SIf %s %s %s" % (test, self.stmts(s.body), self.stmts(s.orelse)))
                    continue
            if (isinstance(s, ast.Assign) and len(s.targets) == 1 and isinstance(s.targets[0], ast.Name)
                    and isinstance(s.value, ast.GeneratorExp)):
                # x = (generator): materialised as a list.  Equivalent only if the generator is consumed
                # once, at once: x must occur exactly once in the function, in the next statement.
                x = s.targets[0].id
                uses = [n for n in ast.walk(self.function) if isinstance(n, ast.Name) and n.id == x
                        and isinstance(n.ctx, ast.Load)]
                nxt = body[pos_ + 1] if pos_ + 1 < len(body) else None
                if len(uses) != 1 or nxt is None or uses[0] not in list(ast.walk(nxt)):
                    raise Unsupported("generator %s not consumed exactly once by the next statement" % x)
                out.append("SAssign %s %s" % (lst([cstr(x)]), self.comp("CList", s.value.generators, s.value.elt)))
                continue
            if (isinstance(s, ast.Assign) and len(s.targets) == 1 and isinstance(s.targets[0], (ast.Tuple, ast.List))
                    and isinstance(s.value, ast.GeneratorExp)):
                # a, b = (e for x in it): the unpacking consumes the generator at once - a list comprehension
                out.append("SAssign %s %s" % (lst([cstr(n) for n in target_names(s.targets[0])]),
                                              self.comp("CList", s.value.generators, s.value.elt)))
                continue
            if isinstance(s, ast.Expr) and isinstance(s.value, ast.Constant) and isinstance(s.value.value, str):
                continue   # docstring / stray string
            if isinstance(s, ast.Assign):
                if len(s.targets) != 1:
                    raise Unsupported("chained assignment")
                t = s.targets[0]
                if isinstance(t, ast.Attribute):
                    if not (isinstance(t.value, ast.Name) and t.value.id == "self"):
                        raise Unsupported("attribute assignment on something other than self")
                    out.append("SSetAttr %s %s %s" % (cstr("self"), cstr(t.attr), self.expr(s.value)))
                    continue
                if flat_fill_target(t) is not None:
                    x = flat_fill_target(t)
                    out.append("SAssign %s (ECall %s %s)" % (lst([cstr(x)]), cstr("fill_flat"),
                                                             lst(["(EVar %s)" % cstr(x), self.expr(s.value)])))
                    continue
                if isinstance(t, ast.Subscript) and not isinstance(t.value, ast.Name) and store_path(t) is not None:
                    x, path, idx = store_path(t)
                    if x in self.modules or self.cur_state.get(x) != "object":
                        raise Unsupported("store through %s, which is not a fresh local object" % x)
                    out.append("SAssign %s (ECall %s %s)" % (
                        lst([cstr(x)]), cstr("store:" + path),
                        lst(["(EVar %s)" % cstr(x)] + [self.expr(i) for i in idx] + [self.expr(s.value)])))
                    continue
                if isinstance(t, ast.Subscript):
                    if not isinstance(t.value, ast.Name):
                        raise Unsupported("assignment into a compound object")
                    if is_full_slice(t.slice):
                        # x[:] = e: every element of the (fresh) array x is overwritten (builtin "fill[:]")
                        out.append("SAssign %s (ECall %s %s)" % (lst([cstr(t.value.id)]), cstr("fill[:]"),
                                                                 lst(["(EVar %s)" % cstr(t.value.id), self.expr(s.value)])))
                    elif isinstance(t.slice, ast.Slice):
                        sl = t.slice
                        if sl.lower is not None or sl.step is not None or sl.upper is None or int_const(sl.upper) < 0:
                            raise Unsupported("slice assignment form")
                        out.append("SSetSlice %s %s %s" % (cstr(t.value.id), cZ(int_const(sl.upper)), self.expr(s.value)))
                    elif block_slices(t.slice) is not None:
                        # x[r0:r1, c0:c1] = e (each bound optional, no step): builtin "store[,]"
                        bounds = [self.expr(b) if b is not None else "(EConst VNone)" for b in block_slices(t.slice)]
                        out.append("SAssign %s (ECall %s %s)" % (
                            lst([cstr(t.value.id)]), cstr("store[,]"),
                            lst(["(EVar %s)" % cstr(t.value.id)] + bounds + [self.expr(s.value)])))
                    elif isinstance(t.slice, ast.Tuple):
                        # x[:, i] = e
                        el = t.slice.elts
                        if not (len(el) == 2 and isinstance(el[0], ast.Slice) and el[0].lower is None
                                and el[0].upper is None and el[0].step is None
                                and not isinstance(el[1], (ast.Slice, ast.Tuple, ast.Starred))):
                            raise Unsupported("multi-dimensional assignment")
                        out.append("SSetCol %s %s %s" % (cstr(t.value.id), self.expr(el[1]), self.expr(s.value)))
                    else:
                        out.append("SSetItem %s %s %s" % (cstr(t.value.id), self.expr(t.slice), self.expr(s.value)))
                else:
                    out.append("SAssign %s %s" % (lst([cstr(n) for n in target_names(t)]), self.expr(s.value)))
            elif isinstance(s, ast.AugAssign):
                if type(s.op) not in BIN:
                    raise Unsupported("augmented assignment operator")
                t = s.target
                if (isinstance(t, ast.Subscript) and isinstance(t.value, ast.Name)
                        and not isinstance(t.slice, (ast.Slice, ast.Tuple))):
                    out.append("SAugItem %s %s %s %s" % (cstr(t.value.id), self.expr(t.slice), BIN[type(s.op)],
                                                         self.expr(s.value)))
                elif isinstance(t, ast.Name):
                    out.append("SAug %s %s %s" % (cstr(t.id), BIN[type(s.op)], self.expr(s.value)))
                else:
                    raise Unsupported("augmented assignment target")
            elif isinstance(s, ast.If):
                out.append("SIf %s %s %s" % (self.expr(s.test), self.stmts(s.body), self.stmts(s.orelse)))
            elif isinstance(s, ast.For):
                if s.orelse:
                    raise Unsupported("for ... else")
                self.iterated.add(id(s.iter))
                names, unpack = loop_targets(s.target)
                it_ = self.expr(s.iter)
                if self.fresh_object(s.iter):
                    it_ = "(ECall %s %s)" % (cstr("iter"), lst([it_]))     # the keys as of the start of the loop
                body_ = self.stmts(s.body)
                if unpack:
                    body_ = "(" + " :: ".join(unpack) + " :: " + body_ + ")"
                out.append("SFor %s %s %s" % (lst([cstr(n) for n in names]), it_, body_))
            elif isinstance(s, ast.Raise):
                out.append("SRaise")
            elif isinstance(s, ast.Return):
                out.append("SReturn %s" % (self.expr(s.value) if s.value is not None else "(EConst VNone)"))
            elif isinstance(s, ast.Pass):
                out.append("SPass")
            elif isinstance(s, ast.Expr) and isinstance(s.value, ast.Yield):
                if s.value.value is None:
                    raise Unsupported("bare yield")
                self.is_generator = True
                out.append("SYield %s" % self.expr(s.value.value))
            elif isinstance(s, ast.Expr) and self.effect_call(s) is not None:
                name, args = self.effect_call(s)
                out.append("SLog %s %s" % (cstr(name), lst(args)))
            elif isinstance(s, ast.Expr) and self.mutating_arg_call(s) is not None:
                recv, meth, x = self.mutating_arg_call(s)
                out.append("SAssign %s (ECall %s %s)" % (lst([cstr(x)]), cstr("meth:" + meth),
                                                         lst([self.expr(recv), "(EVar %s)" % cstr(x)])))
            elif isinstance(s, ast.Try):
                out.append(self.try_stmt(s))
            elif isinstance(s, ast.Expr):
                ap = self.append_call(s)
                ex = self.extend_call(s)
                pm = self.param_mut_call(s)
                sm = self.self_method_call(s) if ex is None and pm is None else None
                if pm is not None:
                    x, m, margs, star = pm
                    margs_ = ["(EVar %s)" % cstr(x)] + [self.expr(a) for a in margs]
                    if star is None:
                        out.append("SAssign %s (ECall %s %s)" % (lst([cstr(x)]), cstr("mut:" + m), lst(margs_)))
                    else:
                        out.append("SAssign %s (ECallStar %s %s %s)" % (lst([cstr(x)]), cstr("mut:" + m), lst(margs_),
                                                                        self.expr(star)))
                elif ap is not None:
                    out.append("SAppend %s %s" % (cstr(ap[0]), self.expr(ap[1])))
                elif ex is not None:
                    self.iterated.add(id(ex[1]))
                    out.append("SAssign %s (EBin Add (EVar %s) (ECall %s %s))" % (
                        lst([cstr(ex[0])]), cstr(ex[0]), cstr("list"), lst([self.expr(ex[1])])))
                elif sm is not None:
                    out.append("SMethod %s %s %s" % (cstr("self"), cstr(sm[0]), lst([self.expr(a) for a in sm[1]])))
                else:
                    out.append("SExpr %s" % self.expr(s.value))
            else:
                raise Unsupported(type(s).__name__)
        return lst(out)


def block_slices(sl):
    """x[a:b, c:d] with at least one bound given -> [a, b, c, d] (None for a missing bound), else None"""
    if (isinstance(sl, ast.Tuple) and len(sl.elts) == 2 and all(isinstance(e, ast.Slice) and e.step is None for e in sl.elts)
            and not all(e.lower is None and e.upper is None for e in sl.elts)):
        return [sl.elts[0].lower, sl.elts[0].upper, sl.elts[1].lower, sl.elts[1].upper]
    return None


def is_full_slice(sl):
    return isinstance(sl, ast.Slice) and sl.lower is None and sl.upper is None and sl.step is None


def store_path(t):
    """x.a[k] / x[i].a[k] / x[i][k] ... as an assignment target: a path of attribute and index steps, at least
    two of them, rooted at a plain name and ending in an index step; every index a name or a constant
    -> (x, path string, [index nodes in path order]) or None"""
    steps, idx = [], []
    node = t
    while True:
        if isinstance(node, ast.Subscript) and not isinstance(node.slice, (ast.Slice, ast.Tuple)):
            if not isinstance(node.slice, (ast.Name, ast.Constant)):
                return None
            steps.append("[]")
            idx.append(node.slice)
            node = node.value
        elif isinstance(node, ast.Attribute):
            steps.append("." + node.attr)
            node = node.value
        else:
            break
    if not isinstance(node, ast.Name) or len(steps) < 2 or steps[0] != "[]":
        return None
    return node.id, "".join(reversed(steps)), list(reversed(idx))


def flat_fill_target(t):
    """x.ravel()[:] = ...  ->  x"""
    if (isinstance(t, ast.Subscript) and isinstance(t.slice, ast.Slice) and t.slice.lower is None
            and t.slice.upper is None and t.slice.step is None and isinstance(t.value, ast.Call)
            and isinstance(t.value.func, ast.Attribute) and t.value.func.attr == "ravel"
            and not t.value.args and not t.value.keywords and isinstance(t.value.func.value, ast.Name)):
        return t.value.func.value.id
    return None


def target_names(t):
    if isinstance(t, ast.Name):
        return [t.id]
    if isinstance(t, (ast.Tuple, ast.List)) and all(isinstance(x, ast.Name) for x in t.elts):
        return [x.id for x in t.elts]
    raise Unsupported("assignment target " + ast.dump(t)[:100])


def loop_targets(t):
    """for-loop target -> (names bound by the loop, unpacking statements put in front of the body).
    One level of nesting: `for a, (b, c) in it` binds a and a temporary %k, and the body starts with
    `b, c = %k` (% cannot occur in a Python identifier, so the temporary is fresh)."""
    if isinstance(t, ast.Name) or all(isinstance(x, ast.Name) for x in t.elts):
        return target_names(t), []
    names, unpack = [], []
    if not isinstance(t, (ast.Tuple, ast.List)):
        raise Unsupported("loop target " + ast.dump(t)[:100])
    for k, x in enumerate(t.elts):
        if isinstance(x, ast.Name):
            names.append(x.id)
        else:
            tmp = "%%%d" % (k + 1)
            names.append(tmp)
            unpack.append("SAssign %s (EVar %s)" % (lst([cstr(n) for n in target_names(x)]), cstr(tmp)))
    return names, unpack


def all_target_names(t):
    if isinstance(t, ast.Name):
        return [t.id]
    if isinstance(t, (ast.Tuple, ast.List)):
        return [n for x in t.elts for n in all_target_names(x)]
    raise Unsupported("loop target " + ast.dump(t)[:100])


# ---------------------------------------------------------------------------------------------------
# Freshness: PyLite models mutation by rebinding the mutated variable.  We admit a mutation of x only
# where x certainly holds an object created in this function that no other name / container / callee
# can reach: x was last assigned a list display (`[...]`), `list(...)` or `np.array(...)` (a copy),
# and since then has only been used as `x[...]` (a load), `len(x)`, as the mutated object itself, or
# in a `return`.  Any other occurrence (y = x, f(x), (x, y), x.m() ...) makes x non-fresh.  Branches
# are joined by intersection, loop bodies are iterated to a fixed point, and a loop body may not mutate
# a name that occurs in the loop's iterable.
FRESH_METHOD_RESULTS = {"aggregate"}     # methods that always return a new object (pandas' aggregate)
FRESH_LIST_CALLS = {"list"}
FRESH_ARRAY_CALLS = {"np.array", "np.unique"}      # always return a new array
FRESH_ARRAY_CALLS_KW = {"np.zeros", "np.empty", "np.ones_like"}     # fresh also when called with keywords (dtype=)
# imported functions that build and return a NEW container that nobody else holds (kind "object"):
# verde.utils.make_xarray_grid returns `xr.Dataset(data_vars, coords, attrs=...)`, created in the call
FRESH_OBJECT_CALLS = {"make_xarray_grid"}


class Fresh:
    def __init__(self, tr):
        self.tr = tr

    def kind(self, e):
        if isinstance(e, (ast.List, ast.ListComp)):
            return "list"
        if isinstance(e, ast.DictComp):
            return "dict"
        if (isinstance(e, ast.Call) and isinstance(e.func, ast.Attribute) and e.func.attr in FRESH_METHOD_RESULTS
                and self.tr.dotted(e.func) is None):
            return "frame"       # x.groupby(..).aggregate(..): pandas returns a new DataFrame
        if (isinstance(e, ast.Call) and isinstance(e.func, ast.Name) and e.func.id in self.tr.modules
                and e.func.id[:1].isupper() and not any(isinstance(a, ast.Starred) for a in e.args)):
            return "object"      # Cls(...), Cls an imported class: a new object that nobody else holds
        if (isinstance(e, ast.Call) and isinstance(e.func, ast.Name) and e.func.id in self.tr.modules
                and e.func.id in FRESH_OBJECT_CALLS and not any(isinstance(a, ast.Starred) for a in e.args)
                and not any(k.arg is None for k in e.keywords)):
            return "object"
        if isinstance(e, ast.Tuple) and e.elts and all(self.kind(x) == "array" for x in e.elts):
            return "arrtuple"    # (np.empty(..), np.empty(..)): distinct new arrays that only this tuple holds
        if isinstance(e, ast.Constant) and e.value is None:
            return "none"        # not an object that can be mutated; joins with a fresh list / array
        if isinstance(e, ast.Call) and self.tr.dotted(e.func) in FRESH_ARRAY_CALLS_KW:
            return "array"
        if isinstance(e, ast.Call) and not e.keywords:
            if isinstance(e.func, ast.Name) and e.func.id in FRESH_LIST_CALLS:
                return "list"
            if self.tr.dotted(e.func) in FRESH_ARRAY_CALLS:
                return "array"
        if isinstance(e, ast.Call) and self.tr.dotted(e.func) == "np.empty":
            return "array"       # also with dtype= / order= keywords
        return None

    def escaping(self, e, out):
        """names that occur in e other than as the object of a subscript load or the argument of len"""
        if e is None:
            return
        if isinstance(e, ast.Name):
            out.add(e.id)
        elif (isinstance(e, ast.Compare) and len(e.ops) == 1 and isinstance(e.ops[0], (ast.Is, ast.IsNot))
              and isinstance(e.left, ast.Name) and isinstance(e.comparators[0], ast.Constant)
              and e.comparators[0].value is None):
            pass                 # x is None: no alias
        elif isinstance(e, ast.Subscript) and isinstance(e.value, ast.Name):
            self.escaping(e.slice, out)
        elif isinstance(e, ast.BinOp):
            # x.a as an operand of arithmetic: the result is a new object, no alias of x survives
            for c in (e.left, e.right):
                if not (isinstance(c, ast.Attribute) and isinstance(c.value, ast.Name)):
                    self.escaping(c, out)
        elif (isinstance(e, ast.Call) and isinstance(e.func, ast.Name) and e.func.id == "len" and len(e.args) == 1
              and isinstance(e.args[0], ast.Name) and not e.keywords):
            pass
        elif isinstance(e, ast.Attribute) and isinstance(e.value, ast.Name) and e.attr in ("size", "shape", "ndim"):
            pass                 # reading a number / a tuple of numbers: no alias
        else:
            for c in ast.iter_child_nodes(e):
                self.escaping(c, out)

    @staticmethod
    def join(a, b):
        out = {}
        for k, v in a.items():
            w = b.get(k)
            if w == v:
                out[k] = v
            elif v == "none" and w in ("list", "array"):
                out[k] = w
            elif w == "none" and v in ("list", "array"):
                out[k] = v
        return out

    def drop(self, state, names):
        for n in names:
            state.pop(n, None)

    def need(self, state, x, kinds, frozen, what):
        if x in frozen:
            raise Unsupported("%s of %s inside a loop over it" % (what, x))
        if state.get(x) not in kinds:
            raise Unsupported("%s of %s, which may be aliased (not a fresh %s)" % (what, x, "/".join(kinds)))

    def call_args_escaping(self, e, out):
        for a in e.args:
            self.escaping(a, out)
        for k in e.keywords:
            self.escaping(k.value, out)

    def block(self, body, state, frozen):
        for s in body:
            esc = set()
            s._fresh = dict(state)       # what the translator may rely on at this statement
            oc = self.tr.obj_call(s, state)
            if oc is not None:
                # x.m(args), x a fresh local object: it stays fresh unless it is passed to its own method
                t, e = oc
                x = e.func.value.id
                self.call_args_escaping(e, esc)
                if x in esc or x in frozen:
                    raise Unsupported("method call on %s, which may be aliased" % x)
                self.drop(state, esc)
                if t is not None:
                    self.drop(state, target_names(t))
                continue
            if isinstance(s, ast.If) and self.tr.hoisted_test(s.test, state) is not None:
                _, _, e = self.tr.hoisted_test(s.test, state)
                x = e.func.value.id
                self.call_args_escaping(e, esc)
                if x in esc or x in frozen:
                    raise Unsupported("method call on %s, which may be aliased" % x)
                self.drop(state, esc)
                a = dict(state)
                b = dict(state)
                self.block(s.body, a, frozen)
                self.block(s.orelse, b, frozen)
                state.clear()
                state.update(self.join(a, b))
                continue
            if isinstance(s, ast.Assign):
                t = s.targets[0]
                self.escaping(s.value, esc)
                if isinstance(t, ast.Attribute):
                    self.drop(state, esc)      # self.a = v: v escapes into the object
                elif flat_fill_target(t) is not None:
                    self.drop(state, esc)
                    self.need(state, flat_fill_target(t), ("array",), frozen, "filling through ravel()")
                elif isinstance(t, ast.Subscript) and not isinstance(t.value, ast.Name) and store_path(t) is not None:
                    x, _, idx = store_path(t)
                    for i_ in idx:
                        self.escaping(i_, esc)
                    self.drop(state, esc)
                    self.need(state, x, ("object",), frozen, "store through")
                elif isinstance(t, ast.Subscript):
                    self.escaping(t.slice, esc)
                    if not isinstance(t.value, ast.Name):
                        raise Unsupported("assignment into a compound object")
                    x = t.value.id
                    self.drop(state, esc)
                    if is_full_slice(t.slice) or block_slices(t.slice) is not None:
                        self.need(state, x, ("array",), frozen, "x[:] = ..")    # on a list it would replace the contents
                    else:
                        self.need(state, x, ("list", "array", "dict", "frame"), frozen, "item assignment")
                else:
                    self.drop(state, esc)
                    names = target_names(t)
                    self.drop(state, names)
                    k = self.kind(s.value)
                    if k is not None and len(names) == 1:
                        state[names[0]] = k
                    elif (isinstance(s.value, (ast.Tuple, ast.List)) and len(s.value.elts) == len(names) > 1
                          and len(set(names)) == len(names)):
                        for nm, el in zip(names, s.value.elts):       # a, b = [], []: each a fresh object
                            if self.kind(el) in ("list", "array"):
                                state[nm] = self.kind(el)
            elif isinstance(s, ast.AugAssign):
                self.escaping(s.value, esc)
                if isinstance(s.target, ast.Subscript):
                    self.escaping(s.target.slice, esc)
                    self.drop(state, esc)
                    self.need(state, s.target.value.id, ("list", "array"), frozen, "item update")
                else:
                    # x op= e: a new object for numbers; in place for a list / array, which stays fresh if it was
                    keep = state.get(s.target.id) if s.target.id not in esc else None
                    self.drop(state, esc | {s.target.id})
                    if keep in ("list", "array") and s.target.id not in frozen:
                        state[s.target.id] = keep
            elif isinstance(s, ast.If):
                self.escaping(s.test, esc)
                self.drop(state, esc)
                a = dict(state)
                b = dict(state)
                self.block(s.body, a, frozen)
                self.block(s.orelse, b, frozen)
                state.clear()
                state.update(self.join(a, b))
            elif isinstance(s, ast.For):
                over_obj = (isinstance(s.iter, ast.Name) and s.iter.id not in self.tr.modules
                            and state.get(s.iter.id) == "object" and s.iter.id not in frozen)
                if not over_obj:
                    self.escaping(s.iter, esc)
                self.drop(state, esc | set(all_target_names(s.target)))
                inner_frozen = frozen | {n.id for n in ast.walk(s.iter) if isinstance(n, ast.Name)}
                if over_obj:
                    # `for t in x`, x a fresh local object: rendered as a loop over iter(x), the keys as of the
                    # start of the loop; the body may store through x (the stores' specification keeps the keys)
                    inner_frozen = frozen
                while True:
                    a = dict(state)
                    self.drop(a, all_target_names(s.target))
                    self.block(s.body, a, inner_frozen)
                    joined = self.join(state, a)
                    if joined == state:
                        break
                    state.clear()
                    state.update(joined)
            elif isinstance(s, ast.Try):
                a = dict(state)
                self.block(s.body, a, frozen)
                b = dict(state)
                for h in s.handlers:
                    self.block(h.body, b, frozen)
                state.clear()
                state.update(self.join(a, b))
            elif isinstance(s, ast.Expr) and self.tr.mutating_arg_call(s) is not None:
                recv, meth, x = self.tr.mutating_arg_call(s)
                self.escaping(recv, esc)
                self.drop(state, esc)
                self.need(state, x, ("list", "array"), frozen, "in-place " + meth)
            elif isinstance(s, ast.Expr):
                ap = self.tr.append_call(s)
                ex = self.tr.extend_call(s)
                if ap is not None:
                    x, arg = ap
                    self.escaping(arg, esc)
                    self.drop(state, esc)
                    self.need(state, x, ("list",), frozen, "append")
                elif ex is not None:
                    x, arg = ex
                    self.escaping(arg, esc)
                    self.drop(state, esc)
                    self.need(state, x, ("list",), frozen, "extend")
                else:
                    self.escaping(s.value, esc)
                    self.drop(state, esc)
            elif isinstance(s, ast.Return):
                pass      # the function ends: nothing can observe an alias from inside
            elif isinstance(s, (ast.Raise, ast.Pass)):
                pass
            else:
                raise Unsupported(type(s).__name__)


# ---------------------------------------------------------------------------------------------------
# Out-parameters: `def f(.., p): p[:] = ..; ..; return p` mutates the array its caller passes.  PyLite
# observes a function through its result only and models the mutation by rebinding p, which is faithful
# when (i) inside f nothing else reaches the object (no other parameter, no global) and (ii) the caller
# cannot see the old object afterwards.  Both hold when EVERY use of f in the package is a statement
# `x = f(.., x, ..)` in f's own module, where x is passed in p's position, occurs in no other argument, and
# is, at that statement, a provably fresh un-escaped array of the calling function (Fresh, kind "array").
# Then p starts as a fresh array in f's own freshness analysis.  Any other use of the name f anywhere in
# the package (another module importing it, f passed as a value, keywords, *args) refuses the function.
def package_root(path):
    d = os.path.dirname(os.path.abspath(path))
    while os.path.exists(os.path.join(os.path.dirname(d), "__init__.py")):
        d = os.path.dirname(d)
    return d


def outparam_ok(tr, tree, path, fdef, pnames):
    """pnames: the parameters of fdef that it mutates as arrays.  See the comment above; with several of them every
    call must pass, in their positions, `t[i]` with distinct constant i, where t is - at that statement - a tuple
    display of freshly created arrays of the calling function, `(np.empty(..), np.empty(..))` (Fresh, kind
    "arrtuple": distinct objects that nothing else holds), and the call's result must be assigned to t."""
    fname = fdef.name
    allparams = [a.arg for a in fdef.args.args]
    pidx = [allparams.index(p_) for p_ in pnames]
    nparams = len(allparams)
    # no use of the name in any other module of the package (tests excluded)
    root = package_root(path)
    for dirpath, dirnames, filenames in os.walk(root):
        dirnames[:] = [d for d in dirnames if d != "tests"]
        for fn in filenames:
            full = os.path.join(dirpath, fn)
            if not fn.endswith(".py") or os.path.abspath(full) == os.path.abspath(path):
                continue
            try:
                other = ast.parse(open(full).read())
            except (OSError, SyntaxError):
                return False
            for n in ast.walk(other):
                if ((isinstance(n, ast.Name) and n.id == fname) or (isinstance(n, ast.Attribute) and n.attr == fname)
                        or (isinstance(n, ast.alias) and (n.name == fname or n.asname == fname))):
                    return False
    # every use in its own module is `x = f(.., x, ..)` / `t = f(.., t[0], t[1], ..)` with x / t fresh in the caller
    admitted = set()
    ncalls = 0
    for encl in ast.walk(tree):
        if not isinstance(encl, ast.FunctionDef) or encl is fdef:
            continue
        annotated = False
        for st in ast.walk(encl):
            if not (isinstance(st, ast.Assign) and isinstance(st.value, ast.Call) and isinstance(st.value.func, ast.Name)
                    and st.value.func.id == fname):
                continue
            c = st.value
            if (len(st.targets) != 1 or not isinstance(st.targets[0], ast.Name) or c.keywords or len(c.args) != nparams
                    or any(isinstance(a, ast.Starred) for a in c.args)):
                return False
            x = st.targets[0].id
            if not annotated:
                try:
                    Fresh(tr).block(list(encl.body), {}, frozenset())
                except Unsupported:
                    return False
                annotated = True
            state = getattr(st, "_fresh", {})
            if len(pidx) == 1 and isinstance(c.args[pidx[0]], ast.Name):
                if c.args[pidx[0]].id != x or state.get(x) != "array":
                    return False
            else:
                ks = []
                for k in pidx:
                    a = c.args[k]
                    if not (isinstance(a, ast.Subscript) and isinstance(a.value, ast.Name) and a.value.id == x
                            and is_int_const(a.slice) and int_const(a.slice) >= 0):
                        return False
                    ks.append(int_const(a.slice))
                if len(set(ks)) != len(ks) or state.get(x) != "arrtuple":
                    return False
            if any(isinstance(m, ast.Name) and m.id == x for k, a in enumerate(c.args) if k not in pidx for m in ast.walk(a)):
                return False
            admitted.add(id(c.func))
            ncalls += 1
    for n in ast.walk(tree):
        if isinstance(n, ast.Name) and n.id == fname and id(n) not in admitted:
            return False
        if isinstance(n, ast.Attribute) and n.attr == fname:
            return False
    return ncalls > 0


def literal_val(node):
    """a PyLite value for a literal expression, or None"""
    if isinstance(node, ast.Constant):
        v = node.value
        if v is None:
            return "VNone"
        if isinstance(v, bool):
            return "(VB %s)" % ("true" if v else "false")
        if isinstance(v, int):
            return "(VZ %s)" % cZ(v)
        if isinstance(v, float):
            f = Fraction(v)
            return "(VQ (%d # %d))" % (f.numerator, f.denominator)
        if isinstance(v, str):
            return "(VS %s)" % cstr(v)
        return None
    if isinstance(node, (ast.Tuple, ast.List)):
        items = [literal_val(x) for x in node.elts]
        if any(i is None for i in items):
            return None
        return "(%s %s)" % ("VT" if isinstance(node, ast.Tuple) else "VL", lst(items))
    return None


def class_constants(cls):
    """[(name, PyLite value)] for the class-level assignments `name = <literal>`, later ones first (as a lookup
    table: the last assignment wins)"""
    out = []
    for n in cls.body:
        if isinstance(n, ast.Assign) and len(n.targets) == 1 and isinstance(n.targets[0], ast.Name):
            v = literal_val(n.value)
            if v is not None:
                out.insert(0, (n.targets[0].id, v))
    return out


def function_value_locals(tr, fn):
    """the local names of fn whose every binding is a function value of FUNC_VALUES (x = np.min or
    x, y = np.min, np.max); parameters and names bound in any other way are excluded"""
    good, bad = set(), set()
    params = {x.arg for x in fn.args.args + fn.args.kwonlyargs} | ({fn.args.vararg.arg} if fn.args.vararg else set())
    for n in ast.walk(fn):
        if isinstance(n, ast.Assign) and len(n.targets) == 1:
            t, v = n.targets[0], n.value
            if isinstance(t, ast.Name):
                pairs = [(t, v)]
            elif (isinstance(t, (ast.Tuple, ast.List)) and isinstance(v, (ast.Tuple, ast.List))
                  and len(t.elts) == len(v.elts) and all(isinstance(x, ast.Name) for x in t.elts)):
                pairs = list(zip(t.elts, v.elts))
            else:
                pairs = []
            for tt, vv in pairs:
                (good if tr.dotted(vv) in FUNC_VALUES else bad).add(tt.id)
    stored = {x.id for x in ast.walk(fn) if isinstance(x, ast.Name) and isinstance(x.ctx, ast.Store)}
    # every Store of a good name must be one of the assignments above
    count_assign = {}
    for n in ast.walk(fn):
        if isinstance(n, ast.Assign) and len(n.targets) == 1:
            for x in ast.walk(n.targets[0]):
                if isinstance(x, ast.Name):
                    count_assign[x.id] = count_assign.get(x.id, 0) + 1
    count_store = {}
    for x in ast.walk(fn):
        if isinstance(x, ast.Name) and isinstance(x.ctx, ast.Store):
            count_store[x.id] = count_store.get(x.id, 0) + 1
    return {g for g in good - bad - params if count_store.get(g) == count_assign.get(g) and g in stored}


def imported_names(tree):
    names = set()
    for n in tree.body:
        if isinstance(n, ast.Import):
            for a in n.names:
                names.add((a.asname or a.name).split(".")[0])
        elif isinstance(n, ast.ImportFrom):
            for a in n.names:
                names.add(a.asname or a.name)
    return names


def translate(path, names):
    tree = ast.parse(open(path).read())
    tr = Translator(imported_names(tree))
    tr.module_classes = {n.name for n in tree.body if isinstance(n, ast.ClassDef)}
    tr.module_functions = {n.name for n in tree.body if isinstance(n, ast.FunctionDef)}
    found = {}
    defs_ = []
    for n in tree.body:
        if isinstance(n, ast.FunctionDef):
            defs_.append((n.name, n, None))
        elif isinstance(n, ast.ClassDef):
            for m in n.body:
                if isinstance(m, ast.FunctionDef):
                    defs_.append((n.name + "." + m.name, m, n))
    for qual, n, cls in defs_:
        if qual in names:
            a = n.args
            if a.posonlyargs:
                raise Unsupported("signature of " + n.name)
            if n.decorator_list:
                raise Unsupported("decorated function " + n.name)
            params = [x.arg for x in a.args]
            if a.vararg or a.kwonlyargs:
                # def f(a, *args, k=v): parameters a, args (the tuple of the extra positional arguments), k
                params = params + ([a.vararg.arg] if a.vararg else []) + [x.arg for x in a.kwonlyargs]
            # local names that are only ever bound to function values (FUNC_VALUES), by plain or tuple assignment
            tr.fn_locals = function_value_locals(tr, n)
            tr.kwarg = None
            if a.kwarg:
                # **kwargs: one more, opaque, parameter - the last one (see the module docstring)
                tr.kwarg = a.kwarg.arg
                if tr.kwarg in params or any(isinstance(x, ast.Name) and x.id == tr.kwarg and isinstance(x.ctx, ast.Store)
                                             for x in ast.walk(n)):
                    raise Unsupported("**%s is rebound" % tr.kwarg)
                params.append(tr.kwarg)
            tr.function = n
            tr.locals = set(params) | {x.id for x in ast.walk(n) if isinstance(x, ast.Name) and isinstance(x.ctx, ast.Store)}
            tr.assigned = tr.locals - set(params)
            tr.cur_state = {}
            tr.handles = set()
            tr.ntemp = 0
            tr.catches = []
            tr.is_generator = False
            if any(isinstance(x, ast.YieldFrom) for x in ast.walk(n)):
                raise Unsupported("yield from")
            nyield = sum(isinstance(x, ast.Yield) for x in ast.walk(n))
            # parameters that the function mutates as arrays (p[..] = e) and that are admitted as out-parameters
            mutated = {x.targets[0].value.id for x in ast.walk(n)
                       if isinstance(x, ast.Assign) and len(x.targets) == 1 and isinstance(x.targets[0], ast.Subscript)
                       and isinstance(x.targets[0].value, ast.Name)}
            outparams = [p_ for p_ in params if p_ in mutated and cls is None]
            if outparams and not outparam_ok(tr, tree, path, n, outparams):
                outparams = []
            tr.function = n
            Fresh(tr).block([s for s in n.body], {p_: "array" for p_ in outparams}, frozenset())     # also records the state at each statement
            body = tr.stmts(n.body)
            if nyield != body.count("SYield "):
                raise Unsupported("yield used as an expression")
            if nyield and any(isinstance(x, ast.Return) for x in ast.walk(n)):
                raise Unsupported("return inside a generator")
            for h in tr.handles:
                # a handle is a parameter, or a local assigned exactly once, at the top level of the function
                # and before any loop, the result of a call (a new object: a generator); once its
                # state-changing calls are hoisted it occurs nowhere else (no alias)
                occ = [x for x in ast.walk(n) if isinstance(x, ast.Name) and x.id == h]
                if h in params:
                    if occ:
                        raise Unsupported("%s has state-changing calls and is also used otherwise (possible alias)" % h)
                else:
                    tops = [b for b in n.body if isinstance(b, ast.Assign) and len(b.targets) == 1
                            and isinstance(b.targets[0], ast.Name) and b.targets[0].id == h
                            and isinstance(b.value, ast.Call)]
                    if len(occ) == 1 and len(tops) == 1 and occ[0] is tops[0].targets[0]:
                        continue
                    # or: bound in BOTH branches of one top-level `if` (the last statement of each branch), each
                    # time to the result of a call, and nowhere else
                    def last_bind(block):
                        b = block[-1] if block else None
                        if (isinstance(b, ast.Assign) and len(b.targets) == 1 and isinstance(b.targets[0], ast.Name)
                                and b.targets[0].id == h and isinstance(b.value, ast.Call)):
                            return b.targets[0]
                        return None
                    ifs = [b for b in n.body if isinstance(b, ast.If) and last_bind(b.body) is not None
                           and last_bind(b.orelse) is not None]
                    if not (len(occ) == 2 and len(ifs) == 1
                            and {id(o) for o in occ} == {id(last_bind(ifs[0].body)), id(last_bind(ifs[0].orelse))}):
                        raise Unsupported("state-changing calls on %s, which is neither a parameter nor a local "
                                          "bound once to the result of a call and used for nothing else" % h)
            if len(tr.handles) > 1:
                raise Unsupported("several stateful parameters (they could be the same object)")
            ident = qual.replace(".", "_")
            found[qual] = "Definition src_%s : func :=\n  {| f_params := %s;\n     f_body := %s |}.\n" % (
                ident, lst([cstr(p) for p in params]), body)
            # the exception classes of the function's `raise` statements, in source order (PyLite has one
            # exception; templates that care compare this list)
            classes = []
            for x in ast.walk(n):
                if isinstance(x, ast.Raise):
                    exc = x.exc.func if isinstance(x.exc, ast.Call) else x.exc
                    classes.append(exc.id if isinstance(exc, ast.Name) else "?")
            found[qual] += "Definition raises_%s : list string := %s.\n" % (ident, lst([cstr(c) for c in classes]))
            if outparams:
                found[qual] += "Definition outparams_%s : list string := %s.\n" % (ident, lst([cstr(c) for c in outparams]))
            if tr.catches:
                found[qual] += "Definition catches_%s : list string := %s.\n" % (ident, lst([cstr(c) for c in tr.catches]))
            # default values of the trailing parameters (constants only; a function with any other
            # default gets no defaults_ definition, so a proof that needs it fails closed)
            if a.vararg:
                found[qual] += "Definition vararg_%s : string := %s.\n" % (ident, cstr(a.vararg.arg))
            try:
                npos = len(a.args)
                dnames = [x.arg for x in a.args][npos - len(a.defaults):] if a.defaults else []
                kwd = [(x.arg, d) for x, d in zip(a.kwonlyargs, a.kw_defaults) if d is not None]
                dnames = dnames + [k for k, _ in kwd]
                dvals = []
                for d in list(a.defaults) + [d for _, d in kwd]:
                    if not isinstance(d, ast.Constant):
                        raise Unsupported("non-constant default")
                    dvals.append(tr.expr(d))
                found[qual] += "Definition defaults_%s : list (string * expr) := %s.\n" % (
                    ident, lst(["(%s, %s)" % (cstr(n_), v_) for n_, v_ in zip(dnames, dvals)]))
            except Unsupported:
                pass
            if cls is not None:
                if cls.keywords and any(k.arg != "metaclass" for k in cls.keywords):
                    raise Unsupported("class keywords of " + cls.name)
                bases = []
                for b in cls.bases:
                    if not isinstance(b, ast.Name):
                        raise Unsupported("base class expression of " + cls.name)
                    bases.append(b.id)
                found[qual] += "Definition bases_%s : list string := %s.\n" % (ident, lst([cstr(b) for b in bases]))
                # the class's own constant attributes (`dims = ("northing", "easting")`): name = literal of
                # strings / numbers / None / tuples / lists; anything else in the class body is not listed
                found[qual] += "Definition classattrs_%s : list (string * val) := %s.\n" % (
                    ident, lst(["(%s, %s)" % (cstr(k), v) for k, v in class_constants(cls)]))
    missing = [n for n in names if n not in found]
    if missing:
        raise Unsupported("functions not found: %s" % missing)
    return found


if __name__ == "__main__":
    import sys
    repo = sys.argv[1] if len(sys.argv) > 1 else "/repo"
    mod = sys.argv[2] if len(sys.argv) > 2 else "verde/coordinates.py"
    fns = sys.argv[3].split(",") if len(sys.argv) > 3 else [
        "check_region", "get_region", "pad_region", "spacing_to_size", "line_coordinates", "shape_to_spacing"]
    for k, v in translate(os.path.join(repo, mod), fns).items():
        print(v)
