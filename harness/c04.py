"""C04 gridding results do not depend on array layout, point order or dtype; linear gridders are linear in the data.

Metamorphic pairs of executions of the implementation: a BASE execution (1-D float64 arrays, no extra coordinates)
and a VARIANT (permuted points / other shapes, memory orders, containers / extra coordinates / integer dtypes /
other query shapes), or the three executions of a linearity test.  All predictions go to Coq as exact dyadics and
are compared there (Model/InvarianceCases.v)."""
import json
import os
import random
import warnings
import numpy as np
from . import core
from .core import Case, cD, cN, clist

ID = "C04"
PROPS_FILE = "Props/C04.v"
IMPORTS = "From Verde Require Import Lib.LinAlgD Model.LeastSquares Model.LSCases Model.Neighbors Model.NeighborCases Model.Invariance Model.InvarianceCases."
SHARD = 40
CFACTOR = 1e3
CFACTOR_F32 = 64.0
KAPPA_MAX = 1e10
RULE = ("clouds of 6..24 pairwise distinct points (jittered lattice or uniform doubles, coordinate scale 1..1e4; integer lattices "
        "for the dtype streams), data of varied magnitude (two components for vector gridders), weights log-uniform over two "
        "decades, 1..12 query points strictly inside the convex hull. Gridders: Spline (undamped / damped / separate forces), "
        "Trend degree 0..3, VectorSpline2D (undamped / damped / as many explicit forces as data points), KNeighbors (k = 1..n; mean, median, min, max), Linear, Cubic, "
        "Chain(Trend, Spline), Chain(Trend, KNeighbors), Vector(Trend, Spline), Vector(KNeighbors, Linear), "
        "Chain(Vector(Trend, Trend), VectorSpline2D), and chains that start with a blocked reduction: BlockMean / BlockReduce (mean, average, "
        "median, min, max) with center_coordinates True and False, drop_coords both ways, with and without weights, followed by Trend, "
        "damped Spline or KNeighbors - fitted to a jittered grid in C order (base), randomly permuted and reversed (perm-block); two of "
        "them also run in every generic stream. For each base execution (1-D float64 arrays) a variant: (perm) a random "
        "permutation of the data points with their data and weights; (layout) every fit / predict array independently as C "
        "reshape, Fortran-ordered copy, strided view of a doubled buffer (1-D and 2-D), reversed view, pandas Series with a "
        "scrambled index, nested lists (weights and query), weights in the data's shape or raveled; (extra) a third, large, "
        "varying coordinate array appended for fit and/or predict; (dtype) integer-valued coordinates / data / query as "
        "int64 / int32, including int32 coordinates whose integer powers would overflow (|x|^degree >= 2^31, Trend 2 and 3); "
        "(dtype-data) for EVERY gridder the data stored as int64 / int32 (integer-valued; both components of vector gridders), "
        "integer-valued weights stored as int32 / int64, and data stored as float32 (values exactly representable) against the "
        "float64 base on the same values: usual tolerance (Spline, VectorSpline2D, Linear, Cubic, KNeighbors min/max are "
        "bit-identical on the unchanged code), 2^-20 x scale where KNeighbors reduces float32 values with numpy's float32 "
        "mean / median (measured <= 2^-23.7); (dtype-coords-float32, an extra beyond the property's integer dtypes) float32 "
        "coordinates / coordinates and data / everything / query only, against float64 storage of the SAME float32-representable "
        "values: verde evaluates coordinate differences and powers in float32 then, so least-squares gridders are held to "
        "64 * 2^-24 * kappa * scale (measured <= 2e-7 * kappa), Linear / Cubic / KNeighbors to the usual 2^-40 (bit-identical); "
        "(layout-series) pandas Series for coordinates, data and weights of VectorSpline2D and Chain(Vector, VectorSpline2D); "
        "(qshape) query as 2-D, (1,n) against (n,), scalars, 0-d arrays, one-element arrays, and queries "
        "with as many points as the data but another shape; (qbroadcast) for every gridder query easting / northing of "
        "DIFFERENT sizes that broadcast - (a,) with (b,1), (1,a) with (b,1), (a,1) with (b,), scalar with (b,), (a,1,1) with "
        "(1,b,1) - against the base execution on the raveled broadcast arrays; (layout-nd) for every gridder the same points as 3-D and "
        "4-D arrays - (2,2,2), (2,3,2), (3,3,2), (2,3,4), (2,2,2,2), (2,1,3,2) ... - for the fit arguments (coordinates, data, weights in "
        "the data's shape or raveled, optionally an extra coordinate), the query, or both; C order, Fortran order, strided, reversed and "
        "transposed views; must agree with the 1-D call (pure re-layout: tolerance with min(kappa, 1e10)); "
        "(layout-lines) for every gridder the same scattered "
        "points as 1-D arrays and as 2-D (n_lines, n_samples), (n,1), (1,n) arrays that are NOT meshgrids (each point jittered by up "
        "to 0.15 of the line / sample spacing), fit and query alike, at coordinate offsets 0, 1, 30, 1e3, UTM-like (extent 4..25 m "
        "at easting 5e5, northing 7.4e6) and 1e7 x the extent; a pure re-layout, so no conditioning skip: tolerance with "
        "min(kappa, 1e10); (linear) fit(a d1 + b d2) against a fit(d1) + b fit(d2) with scalars in fixed shares spanning "
        "1e-12 .. 1e12 (both tiny, both huge, mixed, ordinary) and data magnitudes 1e-12 .. 1e12, compared relative to "
        "|a| max|fit(d1)| + |b| max|fit(d2)|, never absolutely, plus negative controls (median of neighbours) on which Coq must see the linearity test FAIL. "
        "Coq checks: output shape = model broadcast shape of the query shapes and size; |variant - base| <= 1e3 * 2^-52 * "
        "kappa * max(|data|, |prediction|) for least-squares gridders (kappa from numpy SVD of the scaled, weighted, "
        "damped system; > 1e10 -> counted skip), <= 2^-40 x scale for KNeighbors / Linear (Cubic: its iterative "
        "gradient solver stops at 1e-6, tolerance 2^-10 x scale under permutation); base KNeighbors predictions against the "
        "Coq brute-force model (near ties excluded), base Trend coefficients against the C02 certificate on exact model "
        "monomials and base predictions against the model polynomial. Non-trivial = a variant that differs from the base "
        "in at least one argument; distinct = distinct (gridder, variant recipe, cloud).")
ASSUMPTIONS = [
    "tolerances stand for solver round-off: condition numbers come from numpy's SVD and only set the tolerance / the skip threshold 1e10",
    "scipy's Delaunay / LinearNDInterpolator / CloughTocher2DInterpolator and the k-d tree are external: Linear and Cubic have no model "
    "(pair comparison only); CloughTocher's gradient estimation is iterative (tol 1e-6) and order dependent at that level",
    "point sets are in general position (no equidistant neighbours, no cocircular quadruples): KNeighbors queries with near-tied k-th/(k+1)-th "
    "distances are excluded inside Coq; integer lattices are used only where no permutation is involved",
    "the harness verifies with numpy that every variant array has the same logical element sequence (np.asarray(x).ravel()) as the base array",
    "fit requires array-likes with a .shape (numpy arrays, pandas Series): nested lists are passed only where verde accepts them (weights, predict coordinates)",
]
TRUSTED = ["harness/c04.py (generators, variant construction, numpy SVD for kappa)"]



# ---------------------------------------------------------------------------
# helpers
# ---------------------------------------------------------------------------
def dl(xs):
    return clist([cD(float(x)) for x in np.ravel(xs)])


def nl(shape):
    return clist([cN(int(s)) for s in shape])


def arr(x):
    return np.array(x, dtype=float)


def vd_eval(expr):
    import verde as vd
    return eval(expr, {"vd": vd, "np": np})


def kappa_ls(A, w=None, damping=None):
    A = np.array(A, dtype=float)
    sc = A.std(0)
    sc = np.where(sc == 0, 1.0, sc)
    B = A / sc
    if w is not None:
        B = B * np.sqrt(np.asarray(w, dtype=float))[:, None]
    if damping is not None:
        B = np.vstack([B, np.sqrt(damping) * np.eye(A.shape[1])])
    if A.shape[0] < A.shape[1] and damping is None:
        return np.inf
    s = np.linalg.svd(B, compute_uv=False)
    return np.inf if s[-1] == 0 else float(s[0] / s[-1])


# ---------------------------------------------------------------------------
# gridders
# ---------------------------------------------------------------------------
class Gridder:
    def __init__(self, name, expr, kind, ncomp=1, weights=False, linear=True, kappa=None, minpts=4, model=None, cubic=False):
        self.name, self.expr, self.kind, self.ncomp = name, expr, kind, ncomp
        self.weights, self.linear, self.kappa, self.minpts, self.model, self.cubic = weights, linear, kappa, minpts, model, cubic


def k_spline(damping=None):
    def f(e, n, w, conf):
        import verde as vd
        A = vd.Spline().jacobian((e, n), (e, n))
        return kappa_ls(A, None if w is None else w[0], damping)
    return f


def k_spline_forces(e, n, w, conf):
    import verde as vd
    A = vd.Spline().jacobian((e, n), (arr(conf["fe"]), arr(conf["fn"])))
    return kappa_ls(A, None if w is None else w[0], None)


def k_trend(deg):
    def f(e, n, w, conf):
        import verde as vd
        return kappa_ls(vd.Trend(deg).jacobian((e, n)), None if w is None else w[0], None)
    return f


def k_vspline(damping=None):
    def f(e, n, w, conf):
        import verde as vd
        A = vd.VectorSpline2D(poisson=0.5, mindist=conf["mindist"]).jacobian((e, n), (e, n))
        return kappa_ls(A, None if w is None else np.concatenate(w), damping)
    return f


def k_spline_forces_d(damping):
    def f(e, n, w, conf):
        import verde as vd
        A = vd.Spline().jacobian((e, n), (arr(conf["fe"]), arr(conf["fn"])))
        return kappa_ls(A, None if w is None else w[0], damping)
    return f


def k_vspline_forces(damping=None):
    def f(e, n, w, conf):
        import verde as vd
        A = vd.VectorSpline2D(poisson=0.5, mindist=conf["mindist"]).jacobian((e, n), (arr(conf["fe"]), arr(conf["fn"])))
        return kappa_ls(A, None if w is None else np.concatenate(w), damping)
    return f


def k_block(final):
    """conditioning of the step that follows a blocked reduction: evaluated on the reducer's own output"""
    def f(e, n, w, conf):
        import verde as vd
        spec = conf["spec"]
        red = vd_eval(conf["reducer"])
        with warnings.catch_warnings():
            warnings.simplefilter("ignore")
            out = red.filter((e, n), arr(spec["d"][0]), None if w is None else w[0])
        bc = tuple(np.asarray(c, dtype=float) for c in out[0][:2])
        bw = np.asarray(out[2], dtype=float) if len(out) > 2 and out[2] is not None else None
        if final == "trend":
            return kappa_ls(vd.Trend(1).jacobian(bc), bw, None)
        return kappa_ls(vd.Spline().jacobian(bc, bc), bw, 1e-3)
    return f


def k_max(*fs):
    return lambda e, n, w, conf: max(f(e, n, None, conf) for f in fs)


def gridders():
    g = [
        Gridder("spline", "vd.Spline()", "ls", kappa=k_spline()),
        Gridder("spline-damped", "vd.Spline(damping=1e-3)", "ls", weights=True, kappa=k_spline(1e-3)),
        Gridder("spline-forces", "vd.Spline(force_coords=(np.array(FE), np.array(FN)))", "ls", weights=True, kappa=k_spline_forces, minpts=8),
        # explicit force_coords with EXACTLY as many forces as data points (a square, non-symmetric Jacobian):
        # at separate locations (GRIDX, GRIDY) and at the data points themselves in another order (PERMX, PERMY)
        Gridder("spline-nforces", "vd.Spline(force_coords=(np.array(GRIDX), np.array(GRIDY)))", "ls", weights=True, kappa=k_spline_forces_d(None)),
        Gridder("spline-nforces-damped", "vd.Spline(damping=1e-3, force_coords=(np.array(GRIDX), np.array(GRIDY)))", "ls", weights=True,
                kappa=k_spline_forces_d(1e-3)),
        Gridder("spline-shuffled-forces", "vd.Spline(force_coords=(np.array(PERMX), np.array(PERMY)))", "ls", kappa=k_spline_forces_d(None)),
        Gridder("vspline-nforces-damped", "vd.VectorSpline2D(poisson=0.5, mindist=MIND, damping=1e-2, force_coords=(np.array(GRIDX), np.array(GRIDY)))",
                "ls", ncomp=2, weights=True, kappa=k_vspline_forces(1e-2)),
        Gridder("vspline-shuffled-forces", "vd.VectorSpline2D(poisson=0.5, mindist=MIND, force_coords=(np.array(PERMX), np.array(PERMY)))",
                "ls", ncomp=2, kappa=k_vspline_forces()),
        Gridder("vspline", "vd.VectorSpline2D(poisson=0.5, mindist=MIND)", "ls", ncomp=2, kappa=k_vspline(), minpts=4),
        Gridder("vspline-damped", "vd.VectorSpline2D(poisson=0.5, mindist=MIND, damping=1e-2)", "ls", ncomp=2, weights=True, kappa=k_vspline(1e-2)),
        Gridder("linear", "vd.Linear()", "exact"),
        Gridder("linear-rescale", "vd.Linear(rescale=True)", "exact"),
        Gridder("cubic", "vd.Cubic()", "exact", linear=False, cubic=True),
        Gridder("chain-trend-spline", "vd.Chain([('t', vd.Trend(1)), ('s', vd.Spline())])", "ls", kappa=k_max(k_trend(1), k_spline())),
        Gridder("chain-trend-knn", "vd.Chain([('t', vd.Trend(1)), ('k', vd.KNeighbors(k=3))])", "ls", kappa=k_trend(1)),
        Gridder("vector-trend-spline", "vd.Vector([vd.Trend(1), vd.Spline(damping=1e-3)])", "ls", ncomp=2, weights=True,
                kappa=lambda e, n, w, conf: max(k_trend(1)(e, n, None if w is None else [w[0]], conf), k_spline(1e-3)(e, n, None if w is None else [w[1]], conf))),
        Gridder("vector-knn-linear", "vd.Vector([vd.KNeighbors(k=2), vd.Linear()])", "exact", ncomp=2),
        Gridder("chain-vtrend-vspline", "vd.Chain([('t', vd.Vector([vd.Trend(1), vd.Trend(1)])), ('s', vd.VectorSpline2D(poisson=0.3, mindist=MIND))])",
                "ls", ncomp=2, kappa=k_max(k_trend(1), k_vspline())),
    ]
    # chains that start with a blocked reduction (BlockReduce / BlockMean; block centres or reduced coordinates;
    # drop_coords both ways; several reductions) followed by Trend / Spline / KNeighbors
    blocks = [
        ("chain-bm-center-trend", "vd.BlockMean(spacing=BSP, region=BREG, center_coordinates=True)", "vd.Trend(1)", "trend", True, False),
        ("chain-br-median-center-spline", "vd.BlockReduce(np.median, spacing=BSP, region=BREG, center_coordinates=True)", "vd.Spline(damping=1e-3)", "spline", False, False),
        ("chain-br-mean-trend", "vd.BlockReduce(np.mean, spacing=BSP, region=BREG, drop_coords=False)", "vd.Trend(1)", "trend", False, True),
        ("chain-bm-spline", "vd.BlockMean(spacing=BSP, center_coordinates=False, drop_coords=False)", "vd.Spline(damping=1e-3)", "spline", True, False),
        ("chain-br-max-center-knn", "vd.BlockReduce(np.max, spacing=BSP, region=BREG, center_coordinates=True, drop_coords=False)", "vd.KNeighbors(k=2)", None, False, False),
        ("chain-bm-center-knn", "vd.BlockMean(spacing=BSP, region=BREG, center_coordinates=True)", "vd.KNeighbors(k=1)", None, True, False),
        ("chain-br-min-knn", "vd.BlockReduce(np.min, spacing=BSP, center_coordinates=False)", "vd.KNeighbors(k=1)", None, False, False),
        ("chain-br-mean-center-spline", "vd.BlockReduce(np.average, spacing=BSP, region=BREG, center_coordinates=True)", "vd.Spline(damping=1e-3)", "spline", True, True),
    ]
    for name, red, fin, kk, wts, lin in blocks:
        g.append(Gridder(name, "vd.Chain([('reduce', %s), ('fit', %s)])" % (red, fin), "ls" if kk else "exact", weights=wts, linear=lin,
                         kappa=k_block(kk) if kk else None, minpts=12))
        g[-1].reducer = red
    for deg in range(4):
        g.append(Gridder("trend-%d" % deg, "vd.Trend(%d)" % deg, "ls", weights=True, kappa=k_trend(deg),
                         minpts=(deg + 1) * (deg + 2) // 2 + 2, model=("trend", deg)))
    for red, rn in (("RMean", None), ("RMedian", "np.median"), ("RMin", "np.min"), ("RMax", "np.max")):
        g.append(Gridder("knn-" + red[1:].lower(), "vd.KNeighbors(k=KNN%s)" % ("" if rn is None else ", reduction=" + rn),
                         "exact", linear=(red == "RMean"), model=("knn", red), minpts=3))
    return g


GRIDDERS = {g.name: g for g in gridders()}


# ---------------------------------------------------------------------------
# problems
# ---------------------------------------------------------------------------
def cloud(rnd, n, integer=False, wide=False, half=12):
    """pairwise distinct points in general position (or distinct integer lattice points); wide: extent >= 30"""
    if integer:
        pts = set()
        while len(pts) < n:
            pts.add((rnd.randint(-half, half), rnd.randint(-half, half)))
        pts = list(pts)
        rnd.shuffle(pts)
        return arr([p[0] for p in pts]), arr([p[1] for p in pts]), 1.0
    scale = rnd.choice([30.0, 1e3, 1e4]) if wide else rnd.choice([1.0, 1.0, 30.0, 1e3, 1e4])
    off = rnd.choice([0.0, 0.0, 0.5, 3.0]) * rnd.uniform(-1, 1)
    if rnd.random() < 0.5:
        k = int(np.ceil(n ** 0.5)) + 1
        cells = [(i, j) for i in range(k) for j in range(k)]
        rnd.shuffle(cells)
        e = arr([(c[0] + 0.15 + 0.7 * rnd.random()) / k for c in cells[:n]])
        nn = arr([(c[1] + 0.15 + 0.7 * rnd.random()) / k for c in cells[:n]])
    else:
        e = arr([rnd.random() for _ in range(n)])
        nn = arr([rnd.random() for _ in range(n)])
    return scale * (off + e), scale * (-0.4 * off + nn), scale


def inside_queries(rnd, e, n, m, integer=False):
    """points strictly inside the convex hull (Linear / Cubic give NaN outside)"""
    qe, qn = [], []
    tries = 0
    while len(qe) < m:
        tries += 1
        i, j, k = rnd.sample(range(len(e)), 3)
        a, b = rnd.uniform(0.15, 0.6), rnd.uniform(0.15, 0.35)
        x = (1 - a - b) * e[i] + a * e[j] + b * e[k]
        y = (1 - a - b) * n[i] + a * n[j] + b * n[k]
        if integer:
            x, y = float(round(x)), float(round(y))
            # keep integer queries inside the hull: test with a barycentric check against the three points
            det = (e[j] - e[i]) * (n[k] - n[i]) - (e[k] - e[i]) * (n[j] - n[i])
            if abs(det) < 1e-9:
                continue
            l1 = ((x - e[i]) * (n[k] - n[i]) - (e[k] - e[i]) * (y - n[i])) / det
            l2 = ((e[j] - e[i]) * (y - n[i]) - (x - e[i]) * (n[j] - n[i])) / det
            if not (l1 > 0.02 and l2 > 0.02 and l1 + l2 < 0.98):
                if tries > 20000:
                    raise RuntimeError('no integer query inside the hull')
                continue
        qe.append(x)
        qn.append(y)
    return arr(qe), arr(qn)


def make_data(rnd, n, ncomp, integer=False):
    out = []
    for c in range(ncomp):
        if integer:
            out.append(arr([rnd.randint(-50, 50) for _ in range(n)]))
        else:
            out.append(arr([rnd.gauss(0, 1) for _ in range(n)]) * 10.0 ** rnd.uniform(-1, 3) + rnd.choice([0.0, 0.0, 20.0]))
    return out


def make_weights(rnd, n, ncomp):
    return [arr([10.0 ** rnd.uniform(-1, 1) for _ in range(n)]) for _ in range(ncomp)]


def problem(rnd, g, n=None, m=None, int_coords=False, int_data=False, int_query=False, weighted=None, half=12, points=None):
    n = n or rnd.choice([6, 8, 9, 10, 12, 12, 15, 16, 18, 20, 24])
    n = max(n, g.minpts)
    m = m or rnd.choice([1, 2, 3, 4, 6, 6, 8, 9, 10, 12])
    if points is not None:
        e, nn, scale, qe, qn = points
        n = e.size
    else:
        e, nn, scale = cloud(rnd, n, int_coords, wide=int_query, half=half)
        if int_coords:
            scale = float(half) / 12.0
        qe, qn = inside_queries(rnd, e, nn, m, int_query)
    d = make_data(rnd, n, g.ncomp, int_data)
    if weighted is None:
        weighted = g.weights and rnd.random() < 0.7
    w = make_weights(rnd, n, g.ncomp) if (weighted and g.weights) else None
    conf = {"mindist": 0.1 * scale}
    expr = g.expr.replace("MIND", repr(0.1 * scale))
    if "FE" in expr:
        k = rnd.randint(3, max(3, n // 2))
        idx = rnd.sample(range(n), k)
        conf["fe"] = [float(e[i] + 0.01 * scale * rnd.uniform(-1, 1)) for i in idx]
        conf["fn"] = [float(nn[i] + 0.01 * scale * rnd.uniform(-1, 1)) for i in idx]
        expr = expr.replace("FE", repr(conf["fe"])).replace("FN", repr(conf["fn"]))
    if "GRIDX" in expr:
        # n forces on a jittered lattice over the data's bounding box: as many as data points, elsewhere
        k = int(np.ceil(n ** 0.5))
        cells = [(i, j) for i in range(k) for j in range(k)]
        rnd.shuffle(cells)
        cells = sorted(cells[:n])
        conf["fe"] = [float(e.min() + np.ptp(e) * (c[0] + 0.3 + 0.4 * rnd.random()) / k) for c in cells]
        conf["fn"] = [float(nn.min() + np.ptp(nn) * (c[1] + 0.3 + 0.4 * rnd.random()) / k) for c in cells]
        expr = expr.replace("GRIDX", repr(conf["fe"])).replace("GRIDY", repr(conf["fn"]))
    if "PERMX" in expr:
        p = list(range(n))
        while p == list(range(n)):
            rnd.shuffle(p)
        conf["fe"] = [float(e[i]) for i in p]
        conf["fn"] = [float(nn[i]) for i in p]
        expr = expr.replace("PERMX", repr(conf["fe"])).replace("PERMY", repr(conf["fn"]))
    if "BSP" in expr:
        pad = 0.02 * max(float(np.ptp(e)), float(np.ptp(nn)))
        reg = (float(e.min() - pad), float(e.max() + pad), float(nn.min() - pad), float(nn.max() + pad))
        sp = max(reg[1] - reg[0], reg[3] - reg[2]) / rnd.choice([2.5, 3.0, 3.0, 4.0])
        expr = expr.replace("BSP", repr(sp)).replace("BREG", repr(reg))
        conf["reducer"] = g.reducer.replace("BSP", repr(sp)).replace("BREG", repr(reg))
    if "KNN" in expr:
        conf["k"] = rnd.randint(1, min(n, 6)) if rnd.random() < 0.8 else n
        expr = expr.replace("KNN", str(conf["k"]))
    return {"gridder": g.name, "expr": expr, "ncomp": g.ncomp, "conf": conf,
            "e": e.tolist(), "n": nn.tolist(), "d": [c.tolist() for c in d], "w": None if w is None else [c.tolist() for c in w],
            "qe": qe.tolist(), "qn": qn.tolist()}


# ---------------------------------------------------------------------------
# layouts
# ---------------------------------------------------------------------------
def relayout(a, shape, style, dtype=None):
    """the 1-D sequence [a] as an array-like of logical shape [shape] in the given storage style"""
    a = np.asarray(a, dtype=float)
    if dtype is not None:
        a = a.astype(dtype)
    shape = tuple(shape)
    if style == "pyscalar":
        return a.item() if dtype is None else int(a.item())
    if style == "0d":
        return a.reshape(())
    b = a.reshape(shape).copy()
    if style == "c":
        out = b
    elif style == "f":
        out = np.asfortranarray(b)
        if b.ndim == 2 and min(b.shape) > 1:
            assert out.flags.f_contiguous and not out.flags.c_contiguous
    elif style == "strided":        # every second element of a doubled buffer along the last axis
        big = np.full(shape[:-1] + (2 * shape[-1],), -987654321, dtype=b.dtype)
        big[..., ::2] = b
        out = big[..., ::2]
    elif style == "strided-rows":   # every second row of a buffer with doubled rows
        big = np.full((2 * shape[0],) + shape[1:], -987654321, dtype=b.dtype)
        big[::2] = b
        out = big[::2]
    elif style == "reversed":       # negative strides
        out = b[::-1].copy()[::-1]
    elif style == "transposed-view":  # the transpose of a C array holding the transposed values (Fortran-ordered, not owning)
        out = np.ascontiguousarray(b.T).T if b.ndim >= 2 else b
    elif style == "series":
        import pandas as pd
        assert b.ndim == 1
        out = pd.Series(b, index=np.arange(b.size)[::-1] * 3 + 7)
    elif style == "list":
        out = b.tolist()
    else:
        raise ValueError(style)
    assert np.array_equal(np.asarray(out).ravel(), a.ravel()), style
    assert np.shape(out) == shape
    return out


STYLES_1D = ["c", "strided", "reversed", "series"]
STYLES_2D = ["c", "f", "f", "strided", "strided-rows", "reversed", "transposed-view"]


def shapes_2d(n):
    s = [(r, n // r) for r in range(2, n) if n % r == 0]
    ns = [x for x in s if x[0] != x[1]]
    return ns or s


# ---------------------------------------------------------------------------
# running a specification
# ---------------------------------------------------------------------------
def build_inputs(spec, variant):
    """(coords, data, weights, query) for the base (variant None) or a variant recipe"""
    v = variant or {}
    e, n = arr(spec["e"]), arr(spec["n"])
    d = [arr(c) for c in spec["d"]]
    w = None if spec["w"] is None else [arr(c) for c in spec["w"]]
    qe, qn = arr(spec["qe"]), arr(spec["qn"])
    perm = v.get("perm")
    if perm is not None:
        p = np.array(perm, dtype=int)
        e, n, d = e[p], n[p], [c[p] for c in d]
        w = None if w is None else [c[p] for c in w]
    fshape = tuple(v.get("fit_shape") or (e.size,))
    st = v.get("styles", {})
    dt = v.get("dtype", {})
    coords = [relayout(e, fshape, st.get("e", "c"), dt.get("e")), relayout(n, fshape, st.get("n", "c"), dt.get("n"))]
    if v.get("extra_fit") is not None:
        coords += [relayout(arr(x), fshape, st.get("x", "c")) for x in v["extra_fit"]]
    data = [relayout(c, fshape, st.get("d%d" % i, st.get("d", "c")), dt.get("d")) for i, c in enumerate(d)]
    if w is None:
        weights = None
    else:
        wshape = (e.size,) if v.get("w_ravel") else fshape
        weights = [relayout(c, wshape, st.get("w", "c"), dt.get("w")) for c in w]
    qse = tuple(v.get("q_shape_e", (qe.size,)))
    qsn = tuple(v.get("q_shape_n", (qn.size,)))
    if v.get("q_axis_e") is not None:
        # query arrays of DIFFERENT sizes that broadcast to the base's query points
        ae, an = arr(v["q_axis_e"]), arr(v["q_axis_n"])
        be, bn = np.broadcast_arrays(ae.reshape(qse), an.reshape(qsn))
        assert np.array_equal(be.ravel(), qe) and np.array_equal(bn.ravel(), qn)
        qe, qn = ae, an
    query = [relayout(qe, qse, st.get("qe", "c"), dt.get("qe")), relayout(qn, qsn, st.get("qn", "c"), dt.get("qn"))]
    if v.get("extra_query") is not None:
        query += [relayout(arr(x), qse, "c") for x in v["extra_query"]]
    if spec["ncomp"] == 1:
        data, weights = data[0], (None if weights is None else weights[0])
    else:
        data, weights = tuple(data), (None if weights is None else tuple(weights))
    return tuple(coords), data, weights, tuple(query)


def execute(spec, variant=None, data_override=None):
    """fit + predict: returns dict(flat, shape, ncomp, shapes_equal) ; exceptions propagate"""
    coords, data, weights, query = build_inputs(spec, variant)
    if data_override is not None:
        data = data_override
    est = vd_eval(spec["expr"])
    with warnings.catch_warnings():
        warnings.simplefilter("ignore")
        est.fit(coords, data, weights)
        pred = est.predict(query)
    comps = list(pred) if isinstance(pred, tuple) else [pred]
    comps = [np.asarray(c) for c in comps]
    shapes = [c.shape for c in comps]
    flat = np.concatenate([np.asarray(c, dtype=float).ravel() for c in comps])
    qshapes = (np.shape(query[0]), np.shape(query[1]))
    return {"flat": flat, "shape": shapes[0], "ncomp": len(comps), "shapes_equal": all(s == shapes[0] for s in shapes),
            "qshapes": qshapes, "est": est, "kind": [c.dtype.kind for c in comps]}


def replay(blob):
    """python -c 'from harness import c04; c04.replay(<json>)'"""
    spec = json.loads(blob)
    if "linear" in spec:
        for r in run_linear(spec):
            print(r)
        return
    b = execute(spec)
    print("base   ", b["shape"], b["flat"])
    try:
        v = execute(spec, spec["variant"])
        print("variant", v["shape"], v["flat"])
        print("max |variant - base|", np.max(np.abs(v["flat"] - b["flat"])) if v["flat"].shape == b["flat"].shape else "size differs")
    except Exception as ex:  # noqa
        print("variant raised", type(ex).__name__, ex)


def mk_repro(spec):
    return "from harness import c04; c04.replay(%r)" % json.dumps(spec)


def flat_w(spec):
    return None if spec["w"] is None else [arr(c) for c in spec["w"]]


def tolk(g, spec, variant):
    """(coq tolerance term, kappa or None, skip?)"""
    if g.kind == "exact":
        return "TolExact", None, False
    kap = g.kappa(arr(spec["e"]), arr(spec["n"]), flat_w(spec), dict(spec["conf"], spec=spec))
    if variant and variant.get("same_arithmetic"):
        # a pure re-layout of the same values: no skip, the tolerance uses min(kappa, 1e10) (the unchanged code is bit-identical)
        kap = float(min(kap, KAPPA_MAX))
    if not kap <= KAPPA_MAX:
        return None, kap, True
    if variant and variant.get("float32_arithmetic"):
        # 64 * 2^-24 * kappa * scale (measured on the unchanged code: <= 2e-7 * kappa), written as C * 2^-52 * kappa * scale
        return "(TolLS %s %s)" % (cD(CFACTOR_F32 * 2.0 ** 28), cD(kap)), kap, False
    return "(TolLS %s %s)" % (cD(CFACTOR), cD(kap)), kap, False


def data_scale(spec):
    return float(max(np.max(np.abs(c)) for c in spec["d"]))


def pair_case(g, spec, variant, stream):
    """base vs variant -> Case"""
    spec = dict(spec)
    spec["variant"] = variant
    inp = {"gridder": g.name, "estimator": spec["expr"], "variant": variant,
           "easting": spec["e"], "northing": spec["n"], "data": spec["d"], "weights": spec["w"],
           "query_easting": spec["qe"], "query_northing": spec["qn"]}
    repro = mk_repro(spec)
    tol, kap, skip = tolk(g, spec, variant)
    try:
        base = execute(spec)
    except Exception as ex:  # noqa: the plain 1-D float64 execution must work
        return Case(inp, {"base_raised": "%s: %s" % (type(ex).__name__, str(ex)[:200])}, "c04_raised", repro, stream)
    if not np.all(np.isfinite(base["flat"])):
        return Case(inp, {"base_nonfinite": [repr(x) for x in base["flat"]]}, "c04_raised", repro, stream)
    if skip:
        return Case(inp, {"kappa": kap}, "Vskip", repro, stream + "/skip-illconditioned", nontrivial=False)
    try:
        var = execute(spec, variant)
    except Exception as ex:  # noqa
        return Case(inp, {"variant_raised": "%s: %s" % (type(ex).__name__, str(ex)[:200])}, "c04_raised", repro, stream)
    if not (var["shapes_equal"] and np.all(np.isfinite(var["flat"]))):
        return Case(inp, {"variant_component_shapes_differ_or_nonfinite": True, "variant": [repr(x) for x in var["flat"]]},
                    "c04_raised", repro, stream)
    out = {"base": base["flat"].tolist(), "variant": var["flat"].tolist(), "variant_shape": list(var["shape"]),
           "query_shapes": [list(s) for s in var["qshapes"]], "kappa": kap,
           "max_abs_diff": float(np.max(np.abs(var["flat"] - base["flat"]))) if var["flat"].shape == base["flat"].shape else None}
    she, shn = var["qshapes"]
    shapes = "%s %s %s" % (nl(she), nl(shn), nl(var["shape"]))
    scale = data_scale(spec)
    if g.cubic and variant.get("perm") is not None:
        # CloughTocher's iterative gradient estimation (tol 1e-6) depends on the vertex order: compare at 2^-10
        scale = scale * 2.0 ** 30
    if variant.get("reduction_in_float32"):
        # KNeighbors reduces float32 data with numpy's float32 mean / median: the prediction carries a float32
        # rounding of the result (measured on the unchanged code: <= 7.1e-8 = 2^-23.7 relative); compared at 2^-20
        scale = scale * 2.0 ** 20
    est = base["est"]
    if variant.get("reduction_in_float32"):
        term = "c04_pair %s %s %s %s %s %s" % (tol, cD(scale), cN(spec["ncomp"]), dl(base["flat"]), dl(var["flat"]), shapes)
    elif g.model and g.model[0] == "trend" and spec["ncomp"] == 1:
        w = spec["w"][0] if spec["w"] is not None else [1.0] * len(spec["e"])
        term = "c04_trend %s %s %s %s %s %s %s %s %s %s %s %s %s" % (
            cN(g.model[1]), dl(spec["e"]), dl(spec["n"]), dl(spec["d"][0]), dl(w), dl(est.coef_), dl(spec["qe"]), dl(spec["qn"]),
            tol, cD(scale), dl(base["flat"]), dl(var["flat"]), shapes)
    elif g.model and g.model[0] == "knn":
        term = "c04_knn %s %s %s %s %s %s %s %s %s %s" % (
            g.model[1], cN(spec["conf"]["k"]), dl(spec["e"]), dl(spec["n"]), dl(spec["d"][0]), dl(spec["qe"]), dl(spec["qn"]),
            dl(base["flat"]), dl(var["flat"]), shapes)
    else:
        term = "c04_pair %s %s %s %s %s %s" % (tol, cD(scale), cN(spec["ncomp"]), dl(base["flat"]), dl(var["flat"]), shapes)
    return Case(inp, out, term, repro, stream, nontrivial=True)


# ---------------------------------------------------------------------------
# variant recipes
# ---------------------------------------------------------------------------
def v_perm(rnd, spec):
    n = len(spec["e"])
    p = list(range(n))
    while p == list(range(n)):
        rnd.shuffle(p)
    return {"perm": p}


def v_layout(rnd, spec, g):
    n, m = len(spec["e"]), len(spec["qe"])
    v = {"styles": {}}
    two_d = rnd.random() < 0.65 and shapes_2d(n)
    if two_d:
        v["fit_shape"] = list(rnd.choice(shapes_2d(n)))
        pool = STYLES_2D
    else:
        pool = STYLES_1D
    for key in ["e", "n"] + ["d%d" % i for i in range(spec["ncomp"])]:
        v["styles"][key] = rnd.choice(pool)
    if spec["w"] is not None:
        if two_d and rnd.random() < 0.3:
            v["w_ravel"] = True
            v["styles"]["w"] = rnd.choice(STYLES_1D + ["list"])
        else:
            v["styles"]["w"] = rnd.choice(pool + (["list"] if not two_d else ["f", "list"]))
    qs = shapes_2d(m)
    if qs and rnd.random() < 0.6:
        sh = list(rnd.choice(qs))
        v["q_shape_e"], v["q_shape_n"] = sh, sh
        qpool = STYLES_2D + ["list"]
    else:
        qpool = STYLES_1D + ["list"]
    v["styles"]["qe"], v["styles"]["qn"] = rnd.choice(qpool), rnd.choice(qpool)
    return v


def v_extra(rnd, spec, i):
    n, m = len(spec["e"]), len(spec["qe"])
    v = {}
    big = 10.0 * max(1.0, max(abs(x) for x in spec["e"] + spec["n"]))
    if i % 3 != 1:
        v["extra_fit"] = [[rnd.uniform(-big, big) for _ in range(n)] for _ in range(1 + (i % 2))]
    if i % 3 != 0:
        v["extra_query"] = [[rnd.uniform(-big, big) for _ in range(m)] for _ in range(1 + (i % 2))]
    return v


def v_qshape(rnd, spec, i):
    m = len(spec["qe"])
    k = i % 6
    if m == 1:
        return [{"q_shape_e": [], "q_shape_n": [], "styles": {"qe": "pyscalar", "qn": "pyscalar"}},
                {"q_shape_e": [], "q_shape_n": [], "styles": {"qe": "0d", "qn": "0d"}},
                {"q_shape_e": [1, 1], "q_shape_n": [1, 1]},
                {"q_shape_e": [1], "q_shape_n": [1, 1]},
                {"q_shape_e": [], "q_shape_n": [1], "styles": {"qe": "0d"}},
                {"q_shape_e": [1, 1, 1], "q_shape_n": [1, 1, 1]}][k]
    if k == 0:
        return {"q_shape_e": [m], "q_shape_n": [1, m]}           # broadcast of equal sizes
    if k == 1:
        return {"q_shape_e": [m, 1], "q_shape_n": [m, 1]}
    if k == 2:
        return {"q_shape_e": [1, m], "q_shape_n": [m]}
    if k == 3 and shapes_2d(m):
        sh = list(rnd.choice(shapes_2d(m)))
        return {"q_shape_e": sh, "q_shape_n": sh, "styles": {"qe": "f", "qn": "c"}}
    if k == 4 and m % 4 == 0 and m >= 8:
        return {"q_shape_e": [2, 2, m // 4], "q_shape_n": [2, 2, m // 4]}
    return {"q_shape_e": [1, m], "q_shape_n": [1, m]}


def broadcast_problem(rnd, g, k, n=None):
    """a problem whose query points are the broadcast of two arrays of different sizes, and the recipe that passes
    the two arrays themselves: (b,1) northing with (a,) easting, (1,a) easting, scalar against array, 3-D ..."""
    a, b = rnd.choice([(4, 3), (3, 2), (2, 5), (5, 2), (3, 4), (2, 3), (3, 3)])
    spec = problem(rnd, g, n=n, m=max(a, b))
    pool_e, pool_n = spec["qe"], spec["qn"]
    # axes: eastings / northings of interior points; every combination must stay inside the hull for Linear / Cubic
    e, nn = arr(spec["e"]), arr(spec["n"])
    ce, cn = float(np.mean(e)), float(np.mean(nn))
    he, hn = 0.12 * float(np.ptp(e)), 0.12 * float(np.ptp(nn))
    ax_e = sorted(ce + he * rnd.uniform(-1, 1) for _ in range(a))
    ax_n = sorted(cn + hn * rnd.uniform(-1, 1) for _ in range(b))
    if k == 0:
        she, shn = [a], [b, 1]
    elif k == 1:
        she, shn = [1, a], [b, 1]
    elif k == 2:
        she, shn = [a, 1], [b]
    elif k == 3:
        ax_e, she, shn = ax_e[:1], [], [b]            # a scalar easting against an array of northings
    else:
        she, shn = [a, 1, 1], [1, b, 1]
    be, bn = np.broadcast_arrays(arr(ax_e).reshape(she), arr(ax_n).reshape(shn))
    spec["qe"], spec["qn"] = be.ravel().tolist(), bn.ravel().tolist()
    v = {"q_axis_e": list(ax_e), "q_axis_n": list(ax_n), "q_shape_e": she, "q_shape_n": shn}
    if k == 3:
        v["styles"] = {"qe": rnd.choice(["pyscalar", "0d"])}
    elif rnd.random() < 0.4:
        v["styles"] = {"qn": rnd.choice(["strided", "reversed", "list"])}
    return spec, v


def inside_hull(spec):
    from scipy.spatial import Delaunay
    tri = Delaunay(np.column_stack([spec["e"], spec["n"]]))
    return bool(np.all(tri.find_simplex(np.column_stack([spec["qe"], spec["qn"]])) >= 0))


ND_SHAPES = {8: [(2, 2, 2), (2, 2, 2, 1), (1, 2, 2, 2)], 12: [(2, 3, 2), (3, 2, 2), (2, 2, 3), (2, 1, 3, 2)], 16: [(2, 2, 2, 2), (4, 2, 2), (2, 4, 2)],
             18: [(3, 3, 2), (2, 3, 3)], 24: [(2, 3, 4), (4, 3, 2), (2, 2, 3, 2)], 6: [(1, 3, 2), (3, 1, 2)]}
STYLES_ND = ["c", "f", "f", "strided", "strided-rows", "reversed", "transposed-view"]


def v_layout_nd(rnd, spec, mode):
    """the same points as 3-D (and 4-D) arrays: fit arguments, query, or both; C / Fortran order and views"""
    n, m = len(spec["e"]), len(spec["qe"])
    v = {"styles": {}, "same_arithmetic": True}
    if mode in ("fit", "both"):
        v["fit_shape"] = list(rnd.choice(ND_SHAPES[n]))
        for key in ["e", "n", "x"] + ["d%d" % i for i in range(spec["ncomp"])]:
            v["styles"][key] = rnd.choice(STYLES_ND)
        if spec["w"] is not None:
            if rnd.random() < 0.3:
                v["w_ravel"] = True
                v["styles"]["w"] = rnd.choice(STYLES_1D + ["list"])
            else:
                v["styles"]["w"] = rnd.choice(STYLES_ND + ["list"])
        if rnd.random() < 0.4:
            big = 10.0 * max(1.0, max(abs(x) for x in spec["e"] + spec["n"]))
            v["extra_fit"] = [[rnd.uniform(-big, big) for _ in range(n)]]
    if mode in ("query", "both"):
        sh = list(rnd.choice(ND_SHAPES[m]))
        v["q_shape_e"], v["q_shape_n"] = sh, sh
        v["styles"]["qe"], v["styles"]["qn"] = rnd.choice(STYLES_ND + ["list"]), rnd.choice(STYLES_ND)
    return v


LINE_SHAPES = [(3, 4), (4, 3), (2, 5), (5, 2), (4, 4), (3, 5), (4, 6), (5, 4), (2, 6), (6, 3)]
LINE_OFFSETS = ["zero", "1x", "30x", "1e3x", "utm", "utm", "1e7x"]


def lines_problem(rnd, g, k, small=False):
    """scattered points stored as (n_lines, n_samples) arrays that are NOT a meshgrid: every point is jittered by up to
    0.15 of the line / sample spacing; the coordinate offset runs from 0 to 1e7 x the extent (UTM-like: a survey a few
    metres across at easting 5e5, northing 7.4e6).  Returns (spec, (r, c), (rq, cq))"""
    off = LINE_OFFSETS[k % len(LINE_OFFSETS)]
    shapes = [sh for sh in LINE_SHAPES if sh[0] * sh[1] <= 12] if small else LINE_SHAPES
    r, c = shapes[(k // len(LINE_OFFSETS) + rnd.randrange(len(shapes))) % len(shapes)]
    r, c = max(r, g.minpts // c + 1 if r * c < g.minpts else r), c
    ext = {"zero": rnd.choice([1.0, 50.0]), "1x": 10.0, "30x": 2.0, "1e3x": 5.0, "utm": rnd.choice([4.0, 25.0]), "1e7x": 1.0}[off]
    e0, n0 = {"zero": (0.0, 0.0), "1x": (ext, -0.5 * ext), "30x": (30 * ext, 12 * ext), "1e3x": (1e3 * ext, -2e3 * ext),
              "utm": (5.0e5 + rnd.uniform(0, 1e4), 7.4e6 + rnd.uniform(0, 1e4)), "1e7x": (1e7, -3e7)}[off]
    for _ in range(100):
        e = arr([[e0 + ext * (j + 0.5 + 0.3 * rnd.uniform(-1, 1)) / c for j in range(c)] for i in range(r)])
        nn = arr([[n0 + ext * (i + 0.5 + 0.3 * rnd.uniform(-1, 1)) / r for j in range(c)] for i in range(r)])
        rq, cq = rnd.choice([(2, 3), (3, 2), (2, 2), (3, 3), (2, 4)])
        hw = 0.13
        qe = arr([[e0 + ext * (0.5 + hw * (2 * (j + 0.5 + 0.3 * rnd.uniform(-1, 1)) / cq - 1)) for j in range(cq)] for i in range(rq)])
        qn = arr([[n0 + ext * (0.5 + hw * (2 * (i + 0.5 + 0.3 * rnd.uniform(-1, 1)) / rq - 1)) for j in range(cq)] for i in range(rq)])
        spec = problem(rnd, g, points=(e.ravel(), nn.ravel(), ext, qe.ravel(), qn.ravel()))
        if inside_hull(spec):
            break
    spec["conf"]["offset"] = off
    return spec, (r, c), (rq, cq)


def v_dtype(rnd, what, i):
    it = ["int64", "int32"][i % 2]
    v = {"dtype": {}}
    if "coords" in what:
        v["dtype"]["e"] = it
        v["dtype"]["n"] = it if i % 3 else None      # mixed int / float coordinates too
    if "data" in what:
        v["dtype"]["d"] = it
    if "query" in what:
        v["dtype"]["qe"] = it
        v["dtype"]["qn"] = it if i % 3 != 1 else None
    v["dtype"] = {k: x for k, x in v["dtype"].items() if x}
    return v


# ---------------------------------------------------------------------------
# linearity
# ---------------------------------------------------------------------------
def run_linear(spec):
    a, b = spec["linear"]["a"], spec["linear"]["b"]
    d1 = [arr(c) for c in spec["d"]]
    d2 = [arr(c) for c in spec["linear"]["d2"]]
    d12 = [a * x + b * y for x, y in zip(d1, d2)]

    def pack(d):
        return d[0] if spec["ncomp"] == 1 else tuple(d)
    return [execute(spec, None, pack(d))["flat"] for d in (d1, d2, d12)]


LIN_SCALARS = [(2.0, 3.0), (2e-9, -3.5e-9), (-1.5, 0.75), (1e-12, 3e-12), (1e12, -2e11), (1.0, 1.0), (1e-6, 1e6), (3e9, 1e-9),
               (0.3, -2.0), (1e-10, 1.0), (1.0, -1.0), (-4e-8, 1e-2)]
LIN_MAGNITUDES = [(1.0, 1.0), (1e-12, 1e-12), (1e-9, 1.0), (1e12, 1e12), (1.0, 1e-10), (1e-6, 1e6), (3e-11, 2e-9)]


def linear_case(rnd, g, control=False, share=0):
    spec = problem(rnd, g)
    if control:
        # median of 3 neighbours, data arranged so that medians do not add up
        spec["d"] = [[float((-1) ** i * (i % 5) * 7 + rnd.random()) for i in range(len(spec["e"]))]]
    d2 = make_data(rnd, len(spec["e"]), g.ncomp)
    # scalars and data magnitudes spanning 1e-12 .. 1e12 in fixed shares (both scalars tiny, both huge, mixed, ordinary);
    # every comparison is relative to |a| max|fit(d1)| + |b| max|fit(d2)|, never absolute
    a, b = LIN_SCALARS[share % len(LIN_SCALARS)]
    a, b = a * rnd.uniform(1.0, 1.5), b * rnd.uniform(1.0, 1.5)
    if not control:
        m1, m2 = LIN_MAGNITUDES[(share // len(LIN_SCALARS) + share) % len(LIN_MAGNITUDES)]
        spec["d"] = [(arr(c) * m1).tolist() for c in spec["d"]]
        d2 = [c * m2 for c in d2]
    if control:
        d2 = [arr([float((i * 7919) % 11) * 5 - 20 for i in range(len(spec["e"]))])]
        a, b = 1.0, 1.0
    spec["linear"] = {"a": a, "b": b, "d2": [c.tolist() for c in d2]}
    stream = ("control-nonlinear/" if control else "linear/") + g.name
    inp = {"gridder": g.name, "estimator": spec["expr"], "a": a, "b": b, "easting": spec["e"], "northing": spec["n"],
           "data1": spec["d"], "data2": spec["linear"]["d2"], "weights": spec["w"], "query_easting": spec["qe"], "query_northing": spec["qn"]}
    repro = mk_repro(spec)
    tol, kap, skip = tolk(g, spec, None)
    if skip:
        return Case(inp, {"kappa": kap}, "Vskip", repro, stream + "/skip-illconditioned", nontrivial=False)
    p1, p2, p12 = run_linear(spec)
    scale = abs(a) * data_scale(spec) + abs(b) * float(max(np.max(np.abs(c)) for c in d2))
    out = {"fit_d1": p1.tolist(), "fit_d2": p2.tolist(), "fit_combination": p12.tolist(), "kappa": kap,
           "max_abs_defect": float(np.max(np.abs(a * p1 + b * p2 - p12)))}
    if control:
        if out["max_abs_defect"] < 1e-3 * scale:
            return None     # this input happens to be additive: not a control
        term = "c04_nonlinear_control %s %s %s %s %s %s" % (cD(scale), cD(a), cD(b), dl(p1), dl(p2), dl(p12))
    else:
        term = "c04_linear %s %s %s %s %s %s %s" % (tol, cD(scale), cD(a), cD(b), dl(p1), dl(p2), dl(p12))
    return Case(inp, out, term, repro, stream, nontrivial=True)


# ---------------------------------------------------------------------------
# generator
# ---------------------------------------------------------------------------
ALL = ["spline", "spline-damped", "spline-forces", "spline-nforces", "spline-nforces-damped", "spline-shuffled-forces",
       "vspline", "vspline-damped", "vspline-nforces-damped", "vspline-shuffled-forces", "linear", "linear-rescale", "cubic",
       "chain-trend-spline", "chain-trend-knn", "vector-trend-spline", "vector-knn-linear", "chain-vtrend-vspline",
       "trend-0", "trend-1", "trend-2", "trend-3", "knn-mean", "knn-median", "knn-min", "knn-max"]
BLOCK_ALL = ["chain-bm-center-trend", "chain-br-median-center-spline"]      # these two also run in every generic stream
BLOCK_CHAINS = ["chain-bm-center-trend", "chain-br-median-center-spline", "chain-br-mean-trend", "chain-bm-spline",
                "chain-br-max-center-knn", "chain-bm-center-knn", "chain-br-min-knn", "chain-br-mean-center-spline"]
ALL = ALL + BLOCK_ALL
SMALL_VEC = {"vspline", "vspline-damped", "chain-vtrend-vspline", "vspline-nforces-damped", "vspline-shuffled-forces"}


def npts(rnd, name):
    return rnd.choice([6, 8, 9, 10, 12]) if name in SMALL_VEC else None


def generate(tier, seed):
    rnd = random.Random(seed)
    reps = 1 if tier == "quick" else 12
    cases = []
    for rep in range(reps):
        for gi, name in enumerate(ALL):
            g = GRIDDERS[name]
            i = rep * len(ALL) + gi
            # (1) permutation of the data points
            spec = problem(rnd, g, n=npts(rnd, name))
            cases.append(pair_case(g, spec, v_perm(rnd, spec), "perm/" + name))
            # (2) layouts (two recipes per problem)
            spec = problem(rnd, g, n=npts(rnd, name), weighted=True if g.weights else None)
            for _ in range(2):
                cases.append(pair_case(g, spec, v_layout(rnd, spec, g), "layout/" + name))
            # (3) extra coordinates
            spec = problem(rnd, g, n=npts(rnd, name))
            cases.append(pair_case(g, spec, v_extra(rnd, spec, i), "extra/" + name))
            # (5) query shapes
            spec = problem(rnd, g, n=npts(rnd, name), m=(1 if i % 4 == 0 else None))
            cases.append(pair_case(g, spec, v_qshape(rnd, spec, i + rep), "qshape/" + name))
            # (4) integer dtypes: query coordinates for every gridder
            spec = problem(rnd, g, n=npts(rnd, name), int_query=True)
            cases.append(pair_case(g, spec, v_dtype(rnd, ["query"], i), "dtype-query/" + name))
            # (6) linearity
            if g.linear:
                cases.append(linear_case(rnd, g, share=gi + rep * 5))
                cases.append(linear_case(rnd, g, share=1 + 2 * (gi + rep)))   # an odd share: tiny scalars / tiny data
        # (4) integer dtypes of fit arguments
        for deg in range(4):
            g = GRIDDERS["trend-%d" % deg]
            for j, what in enumerate((["data"], ["coords"], ["coords", "data"], ["coords", "data", "query"])):
                spec = problem(rnd, g, int_coords="coords" in what, int_data="data" in what, int_query="query" in what)
                cases.append(pair_case(g, spec, v_dtype(rnd, what, deg + j + rep), "dtype-fit/" + g.name))
        for j, name in enumerate(["spline", "spline-damped", "vspline", "knn-mean", "knn-median", "linear", "cubic", "chain-trend-spline",
                                  "vector-knn-linear"]):
            g = GRIDDERS[name]
            what = [["data"], ["coords", "data"], ["coords"]][(j + rep) % 3]
            # integer lattice clouds tie for k-d tree queries only at lattice queries: the query stays non-integer here
            spec = problem(rnd, g, n=npts(rnd, name), int_coords="coords" in what, int_data="data" in what)
            cases.append(pair_case(g, spec, v_dtype(rnd, what, j + rep), "dtype-fit/" + name))
        # chains starting with a blocked reduction: the same points in C-grid order (base), permuted and reversed
        for gi, name in enumerate(BLOCK_CHAINS):
            g = GRIDDERS[name]
            for t in range(2):
                for _ in range(20):
                    spec, (r, c), _q = lines_problem(rnd, g, [0, 1, 2, 0][(gi + rep + t) % 4] + 7 * rnd.randrange(4) + 7 * 10 * 0)
                    if r * c >= 12:
                        break
                if g.weights and (gi + rep + t) % 2 == 0:
                    spec["w"] = [c2.tolist() for c2 in make_weights(rnd, r * c, 1)]
                n = r * c
                cases.append(pair_case(g, spec, v_perm(rnd, spec), "perm-block/" + name))
                cases.append(pair_case(g, spec, {"perm": list(range(n))[::-1]}, "perm-block-reversed/" + name))
            if g.linear:
                cases.append(linear_case(rnd, g, share=gi + rep))
        # the same points as 3-D / 4-D arrays (every gridder): fit arguments, query, both
        for gi, name in enumerate(ALL):
            g = GRIDDERS[name]
            small = name in SMALL_VEC
            for t, mode in enumerate(["fit", "both", "query"]):
                if t == 2 and (gi + rep) % 2:
                    continue
                n = rnd.choice([8, 12]) if small else rnd.choice([12, 16, 18, 24] if g.minpts > 8 else [8, 12, 16, 18, 24])
                spec = problem(rnd, g, n=n, m=rnd.choice([6, 8, 12]), weighted=True if (g.weights and t < 2) else None)
                cases.append(pair_case(g, spec, v_layout_nd(rnd, spec, mode), "layout-nd-%s/%s" % (mode, name)))
        # the same scattered points as 1-D arrays and as 2-D (n_lines, n_samples), (n,1), (1,n) arrays that are not meshgrids,
        # at coordinate offsets from 0 to 1e7 x the extent (every gridder)
        for gi, name in enumerate(ALL):
            g = GRIDDERS[name]
            for t in range(2):
                k = 2 * (gi + rep * len(ALL)) + t + rep
                spec, (r, c), (rq, cq) = lines_problem(rnd, g, k, small=name in SMALL_VEC)
                n, m = r * c, rq * cq
                fsh = [[r, c], [r, c], [n, 1], [1, n]][(k // 2) % 4]
                qsh = [[rq, cq], [m, 1], [1, m], [rq, cq]][(k // 3) % 4]
                v = {"fit_shape": fsh, "q_shape_e": qsh, "q_shape_n": qsh, "same_arithmetic": True,
                     "styles": {"e": rnd.choice(["c", "c", "f"]), "qe": rnd.choice(["c", "c", "f"])}}
                cases.append(pair_case(g, spec, v, "layout-lines-%s/%s" % (spec["conf"]["offset"], name)))
        # dtype of the DATA (and of integer-valued weights) for every gridder: int64 / int32 and float32 storage of
        # values that are exactly representable there, against the float64 base on the same values
        for gi, name in enumerate(ALL):
            g = GRIDDERS[name]
            it = ["int64", "int32"][(gi + rep) % 2]
            spec = problem(rnd, g, n=npts(rnd, name), int_data=True, weighted=False)
            cases.append(pair_case(g, spec, {"dtype": {"d": it}}, "dtype-data-int/" + name))
            if g.weights:
                spec = problem(rnd, g, n=npts(rnd, name), int_data=(gi + rep) % 3 == 0, weighted=True)
                spec["w"] = [[float(rnd.randint(1, 9)) for _ in c] for c in spec["w"]]
                v = {"dtype": {"w": ["int32", "int64"][(gi + rep) % 2]}}
                if (gi + rep) % 3 == 0:
                    v["dtype"]["d"] = it
                cases.append(pair_case(g, spec, v, "dtype-weights-int/" + name))
            spec = problem(rnd, g, n=npts(rnd, name), weighted=((gi + rep) % 2 == 0) if g.weights else None)
            spec["d"] = [np.asarray(c, dtype=np.float32).astype(float).tolist() for c in spec["d"]]
            v = {"dtype": {"d": "float32"}}
            if name.startswith("knn-") or name == "vector-knn-linear":   # (in Chain(Trend, KNeighbors) the neighbours see float64 residuals)
                v["reduction_in_float32"] = True
            if name in BLOCK_CHAINS:
                # pandas reduces a float32 column in float32: the blocked values carry a float32 rounding (measured <= 1.5e-7 x kappa)
                v["float32_arithmetic"] = True
            cases.append(pair_case(g, spec, v, "dtype-data-float32/" + name))
            # float32 COORDINATES (an extra: the property speaks of integer dtypes).  The values are float32-representable
            # and the base stores the SAME values as float64; verde then evaluates coordinate differences / powers in
            # float32, so least-squares gridders are compared at the float32 analogue of the usual bound
            spec = problem(rnd, g, n=npts(rnd, name), weighted=((gi + rep) % 2 == 1) if g.weights else None)
            for key in ("e", "n", "qe", "qn"):
                spec[key] = np.asarray(spec[key], dtype=np.float32).astype(float).tolist()
            spec["d"] = [np.asarray(c, dtype=np.float32).astype(float).tolist() for c in spec["d"]]
            keys = [["e", "n"], ["e", "n", "d"], ["e", "n", "d", "qe", "qn"], ["qe", "qn"]][(gi + rep) % 4]
            v = {"dtype": {key: "float32" for key in keys}, "float32_arithmetic": True}
            if (name.startswith("knn-") or name == "vector-knn-linear") and "d" in keys:
                v["reduction_in_float32"] = True
            if len(set(zip(spec["e"], spec["n"]))) == len(spec["e"]):
                cases.append(pair_case(g, spec, v, "dtype-coords-float32/" + name))
        # query easting / northing of different sizes that broadcast (every gridder)
        for gi, name in enumerate(ALL):
            g = GRIDDERS[name]
            for k in [[0, 1, 2, 4][(gi + rep) % 4]] + ([3] if (gi + rep) % 3 == 0 else []):
                for _ in range(50):
                    spec, v = broadcast_problem(rnd, g, k, n=npts(rnd, name))
                    if inside_hull(spec):
                        break
                cases.append(pair_case(g, spec, v, "qbroadcast/" + name))
        # pandas Series for the data and weights of the vector spline gridders
        for name in sorted(SMALL_VEC):
            g = GRIDDERS[name]
            spec = problem(rnd, g, n=npts(rnd, name), weighted=True if g.weights else None)
            st = {"d0": "series", "d1": "series", "e": rnd.choice(["c", "series"]), "n": "series"}
            if spec["w"] is not None:
                st["w"] = "series"
            cases.append(pair_case(g, spec, {"styles": st}, "layout-series/" + name))
        # int32 coordinates whose integer powers overflow int32 (|x|^degree >= 2^31): Trend 2, 3 and the chains using Trend
        for j, (name, half) in enumerate([("trend-2", 90000), ("trend-3", 3000), ("trend-3", 2000), ("trend-2", 60000)]):
            g = GRIDDERS[name]
            what = [["query"], ["coords"], ["coords", "query"], ["coords", "data", "query"]][(j + rep) % 4]
            spec = problem(rnd, g, n=rnd.choice([12, 15, 16, 20]), int_coords=True, int_query=True, int_data="data" in what, half=half)
            v = {"dtype": {}}
            for key in (["e", "n"] if "coords" in what else []) + (["qe", "qn"] if "query" in what else []) + (["d"] if "data" in what else []):
                v["dtype"][key] = "int32"
            cases.append(pair_case(g, spec, v, "dtype-int32-powers/" + name))
        # same number of query points as data points, other shape (a reshape to the DATA's shape would go unnoticed elsewhere)
        for name in ["spline", "trend-1", "knn-mean", "vspline"]:
            g = GRIDDERS[name]
            n = rnd.choice([6, 8, 10, 12])
            spec = problem(rnd, g, n=n, m=n)
            sh = list(rnd.choice(shapes_2d(n)))
            cases.append(pair_case(g, spec, {"fit_shape": sh[::-1], "q_shape_e": sh, "q_shape_n": sh}, "qshape-same-size/" + name))
        # negative controls
        nctl = 0
        while nctl < 3:
            c = linear_case(rnd, GRIDDERS["knn-median"], control=True)
            if c is not None:
                cases.append(c)
                nctl += 1
    return cases


def search(dis, tier, seed):
    return generate("quick", seed + 1)
