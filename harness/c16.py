"""C16 convexhull_mask (array / grid form, scale and offset independence) and project_grid
(name, shape, coordinates, NaN pattern against the exact hull, affine reproduction, antialias range)."""
import json
import os
import random
from fractions import Fraction as F

import numpy as np

from . import core
from .core import Case, cZ, cD, cOD, clist, cbool, copt, cstr

ID = "C16"
PROPS_FILE = "Props/C16.v"
IMPORTS = "From Verde Require Import Model.Coordinates Model.CoordCases Model.Hull Model.ProjectGrid."
SHARD = 10
RULE = ("convexhull_mask: (1) integer-lattice clouds of 3..15 points (collinear runs, duplicates of hull vertices, interior points) "
        "queried on the quarter lattice incl. every data point, edge midpoints and points one quarter step either side of the hull; "
        "(2) random float clouds queried at random points and at points rounded onto hull edges (those closer to the hull boundary than "
        "2^-30 x extent_x x extent_y in orientation units may go either way and are not compared); (3) the same lattice cloud under exact "
        "dyadic/decimal scalings and offsets up to 1e7 per axis (x and y scaled differently), the model being evaluated on the BASE "
        "coordinates; (4) array form vs grid form (xarray.Dataset, dims northing/easting or custom) on non-square grids whose coordinate vectors "
        "are ascending, descending, unevenly spaced or both, with the data hull confined to an off-centre part of the grid, also after exact "
        "rescaling of cloud and grid to offsets up to 2^30 / 1e7; project_grid input grids use the same axis styles. Every 2-D array argument "
        "(data and query coordinates of the array form as non-square 2-D arrays, meshgrid arrays, project_grid value arrays) comes in a "
        "randomly chosen memory layout (C, Fortran, transposed view of a transposed copy, strided view), easting and northing independently; "
        "every third lattice cloud has int64/int32 coordinates; the model always sees the logical C-order sequence. About 40% of the mask "
        "cases (all streams; array and grid form) carry one or two EXTRA coordinate arrays on the data (non-coplanar heights) and / or the query "
        "(constant or varying): the mask must be the two-coordinate mask; 30% of the project_grid inputs carry an extra 2-D coordinate. "
        "Grid-form Datasets are built in four ways (data_vars+coords; DataArray with easting declared first then to_dataset; coords first then the "
        "variable assigned; merge declaring easting first - the last three have Dataset-level dimension order (easting, northing)), square and "
        "non-square, custom dim names. (4b) convexhull_mask(projection=...) in array and grid form with a logging projection: integer-linear non-separable maps "
        "(Pythagorean rotations, shears, exact, re-computed in Coq) on lattice clouds, and a polar azimuthal projection of lon/lat sectors with "
        "queries outside the data's lon/lat bounding box but inside the projected hull and vice versa (compared away from the hull boundary). "
        "project_grid: 5x6..8x9 grids with 0..4 scattered NaN holes (incl. corners) and/or NaN holes blanking one or two COMPLETE rows and columns (edge and interior), names foo/None/custom, projections axis-aligned affine (dyadic "
        "coefficients, incl. negative scales and offsets up to 1e6), separable monotone cubic and Mercator-like, non-separable quadratic and "
        "rotation; methods linear/nearest/cubic x antialias on/off x arguments none/shape/spacing/region(+shape|spacing); the projection "
        "callable is wrapped to log its actual inputs and outputs. Non-trivial = at least one decisive query/node; distinct = distinct inputs.")
ASSUMPTIONS = [
    "scipy.spatial.Delaunay / find_simplex (Qhull) is an oracle for hull membership: compared with the exact orientation-test model except "
    "within 2^-30 x extent_x x extent_y (orientation units) of the hull boundary, where the property allows either answer",
    "the projection callable, BlockReduce(mean) and the interpolators (scipy LinearND / CloughTocher, KNeighbors) are oracles: their values are "
    "observed, the model predicts the table handed to the projection, the output name/shape/coordinates, the NaN pattern, value reproduction "
    "under affine maps and the value range under antialiasing",
    "floats are read as the exact rationals they denote; output coordinates are compared with tolerance 2^-40 x scale; reproduced values with "
    "2^-30 (linear, nearest) or 2^-20 (cubic) relative to the largest input magnitude; ranges with 2^-30",
    "finite-inside-the-hull under antialias=True with linear/cubic is claimed only for axis-aligned (separable) projections of hole-free grids "
    "with default region/shape/spacing (see finding C16-antialias-hull-shrink)",
    "project_grid coordinates stay within 2^14 grid steps of the origin per axis (absolute values up to 1.6e7): beyond ~1e6 steps the "
    "un-normalised Delaunay triangulation inside Linear/Cubic loses data points (finding C16-interpolator-large-offset: exercised by the "
    "separate deterministic stream project_grid-large-offset, whose reproduction part alone carries the finding key)",
]
TRUSTED = ["harness/c16.py (generators, logging wrapper around the projection callable, observation of xarray objects as exact dyadics)"]

F7_KEY = "F7-cubic-antialias-overshoot"
SHRINK_KEY = "C16-antialias-hull-shrink"
OFFSET_KEY = "C16-interpolator-large-offset"


def dl(xs):
    return clist([cD(float(x)) for x in xs])


def bl(bs):
    return clist([cbool(bool(b)) for b in bs])


def brows(a):
    return clist([bl(r) for r in a])


def orows(a):
    return clist([clist([cOD(x) for x in r]) for r in a])


# ---------------------------------------------------------------------------
# exact hull helper (python side: only used to place queries and to count)
# ---------------------------------------------------------------------------
def orient(a, b, r):
    return (b[0] - a[0]) * (r[1] - a[1]) - (b[1] - a[1]) * (r[0] - a[0])


def hull_edges(P):
    P = [(F(x), F(y)) for x, y in P]
    out = []
    for a in P:
        for b in P:
            if a == b:
                continue
            if all(orient(a, b, r) >= 0 for r in P):
                out.append((a, b))
    return out


def nondegenerate(P):
    P = [(F(x), F(y)) for x, y in P]
    a = P[0]
    for b in P:
        for c in P:
            if orient(a, b, c) != 0:
                return True
    return False


# ---------------------------------------------------------------------------
# convexhull_mask
# ---------------------------------------------------------------------------
def shape2(n, rnd):
    """a non-square 2-D shape with n elements (None when n is prime or a square with no other factorisation)"""
    opts = [(a, n // a) for a in range(2, n) if n % a == 0 and a != n // a]
    return rnd.choice(opts) if opts else None


def laid_out(a, rnd, as2d=True):
    """the same logical element sequence, reshaped to a non-square 2-D array when the size allows, in a random memory
    layout (C, Fortran, transposed view of a transposed copy, strided view): results must not depend on it"""
    a = np.asarray(a)
    if rnd is None:
        return a
    if a.ndim == 1 and as2d:
        sh = shape2(a.size, rnd)
        if sh is not None and rnd.random() < 0.8:
            a = a.reshape(sh)
    return core.relayout(a, rnd)


def layout_of(a):
    return "%s%s" % (list(a.shape), "C" if a.flags["C_CONTIGUOUS"] else ("F" if a.flags["F_CONTIGUOUS"] else "strided"))


def extra_coords(rnd, data_shape, query_shape, force=False):
    """extra (vertical, ...) coordinate arrays for the data and / or the query: one or two per side, non-coplanar heights on
    the data, constant or varying on the query.  Only easting and northing may influence the mask.
    returns (data_extras, query_extras, description)"""
    if rnd is None or not (force or rnd.random() < 0.4):
        return (), (), None
    side = rnd.choice(["data", "query", "both", "both"])
    k = rnd.choice([1, 1, 2])
    nd = int(np.prod(data_shape))
    dex, qex = (), ()
    if side in ("data", "both"):
        dex = tuple(np.array([rnd.choice([-50.0, 3.0, 17.5, 1000.0]) * rnd.random() + 7 * ((i * i) % 5) for i in range(nd)]).reshape(data_shape)
                    for _ in range(k))
    if side in ("query", "both"):
        def one():
            if rnd.random() < 0.5:
                return np.full(query_shape, rnd.choice([0.0, 5.0, -120.0, 1e4]))
            return np.array([rnd.uniform(-100, 100) for _ in range(int(np.prod(query_shape)))]).reshape(query_shape)
        qex = tuple(one() for _ in range(k))
    return dex, qex, {"data_extras": [a.tolist() for a in dex], "query_extras": [a.tolist() for a in qex]}


def raised_case(inp, ex, kind, repro=""):
    return Case(inp, {"raised": "%s: %s" % (type(ex).__name__, str(ex)[:300])}, "Vboth", repro, kind)


def mask_case(vd, dx, dy, qx, qy, kind, rnd=None, dtype=float):
    """[rnd] given: data and query arrays become non-square 2-D arrays where their size allows (same shape for easting and
    northing of a pair) with independently chosen memory layouts; the model sees the logical C-order sequence"""
    dx, dy, qx, qy = [np.asarray(v, dtype=dtype) for v in (dx, dy, qx, qy)]
    if rnd is not None:
        if dx.ndim == 1:
            sh = shape2(dx.size, rnd)
            if sh is not None and rnd.random() < 0.7:
                dx, dy = dx.reshape(sh), dy.reshape(sh)
        if qx.ndim == 1:
            sh = shape2(qx.size, rnd)
            if sh is not None:
                qx, qy = qx.reshape(sh), qy.reshape(sh)
        dx, dy, qx, qy = [core.relayout(a, rnd) for a in (dx, dy, qx, qy)]
    dex, qex, exd = extra_coords(rnd, dx.shape, qx.shape)
    try:
        obs = vd.convexhull_mask((dx, dy) + dex, coordinates=(qx, qy) + qex)
    except Exception as ex:     # a valid call must not raise
        return raised_case({"fn": "convexhull_mask", "data": [dx.tolist(), dy.tolist()], "query": [qx.tolist(), qy.tolist()],
                            "extras": exd, "dtype": np.dtype(dtype).name}, ex, kind)
    ok = obs.shape == qx.shape and obs.dtype == bool
    o = [bool(b) for b in np.asarray(obs).ravel(order="C")] if ok else []
    term = "c16_mask %s %s %s %s %s" % (dl(dx.ravel(order="C")), dl(dy.ravel(order="C")), dl(qx.ravel(order="C")), dl(qy.ravel(order="C")), bl(o))
    lay = [layout_of(a) for a in (dx, dy, qx, qy)]
    repro = ("import verde, numpy as np; # layouts (data e, n, query e, n): %s dtype %s\n"
             "print(verde.convexhull_mask((np.array(%r), np.array(%r)), coordinates=(np.asfortranarray(np.array(%r)), np.array(%r))))"
             % (lay, np.dtype(dtype).name, dx.tolist(), dy.tolist(), qx.tolist(), qy.tolist()))
    if exd is not None:
        repro = "# extra coordinates appended to the tuples: %r\n" % (exd,) + repro
    return Case({"fn": "convexhull_mask", "data": [dx.tolist(), dy.tolist()], "query": [qx.tolist(), qy.tolist()], "layouts": lay,
                 "dtype": np.dtype(dtype).name, "extras": exd}, o, term, repro, kind)


DATASET_WAYS = ["data_vars+coords", "dataarray-easting-first.to_dataset", "coords-then-assign", "merge-easting-first"]


def build_dataset(how, dims, east, north, vals, name="scalars"):
    """the same valid (northing, easting) grid built in four ways; in the last three the Dataset-level dimension
    order (Dataset.sizes / .dims) is (easting, northing) although the variable's dims are (northing, easting)"""
    import xarray as xr
    dn, de = dims
    if how == "data_vars+coords":
        return xr.Dataset({name: ([dn, de], vals)}, coords={de: east, dn: north})
    if how == "dataarray-easting-first.to_dataset":
        return xr.DataArray(vals, coords={de: east, dn: north}, dims=(dn, de)).to_dataset(name=name)
    if how == "coords-then-assign":
        ds = xr.Dataset(coords={de: east, dn: north})
        ds[name] = ((dn, de), vals)
        return ds
    if how == "merge-easting-first":
        return xr.merge([xr.Dataset(coords={de: east}), xr.Dataset(coords={dn: north}),
                         xr.DataArray(vals, coords={dn: north, de: east}, dims=(dn, de), name=name)])
    raise ValueError(how)


def mask_proj_case(vd, dx, dy, qx, qy, proj, kind, lin=None, grid=None, dims=("northing", "easting"), how="data_vars+coords"):
    """convexhull_mask(..., projection=proj): array form (query arrays qx, qy) or, with grid=(east, north), grid form
    (query = meshgrid of the grid's own vectors).  The wrapped callable logs its inputs and outputs; the expectation is
    the hull test on the projected points it returned."""
    import xarray as xr
    dx, dy = np.asarray(dx, dtype=float), np.asarray(dy, dtype=float)
    proj.calls = []
    inp = {"fn": "convexhull_mask-projection", "projection": proj.name, "data": [dx.tolist(), dy.tolist()]}
    try:
        if grid is None:
            qx, qy = np.asarray(qx, dtype=float), np.asarray(qy, dtype=float)
            inp["query"] = [qx.tolist(), qy.tolist()]
            obs = vd.convexhull_mask((dx, dy), coordinates=(qx, qy), projection=proj)
            o = np.asarray(obs).ravel(order="C") if (obs.shape == qx.shape and obs.dtype == bool) else np.zeros(0, dtype=bool)
        else:
            east, north = [np.asarray(a, dtype=float) for a in grid]
            inp.update({"easting": east.tolist(), "northing": north.tolist(), "dims": list(dims), "form": "grid"})
            qx, qy = np.meshgrid(east, north)
            vals = np.arange(1.0, east.size * north.size + 1).reshape(north.size, east.size)
            inp["dataset_built"] = how
            ds = build_dataset(how, dims, east, north, vals)
            out = vd.convexhull_mask((dx, dy), grid=ds, projection=proj)
            ov = out["scalars"].values
            o = (~np.isnan(ov)).ravel(order="C") if ov.shape == vals.shape else np.zeros(0, dtype=bool)
    except Exception as ex:
        return raised_case(inp, ex, kind, "# projection: %s" % proj.name)
    calls = proj.calls
    if len(calls) == 2:
        (ldx, ldy, pdx, pdy), (lqx, lqy, pqx, pqy) = [[np.ravel(a) for a in c] for c in calls]
    else:       # the projection must be called once for the data and once for the query points
        ldx = ldy = pdx = pdy = lqx = lqy = pqx = pqy = np.zeros(0)
    term = "c16_mask_proj %s %s %s %s %s %s %s %s %s %s %s %s %s %s" % (
        copt(lin, lambda l: "(%s, %s, %s, %s)" % tuple(cD(x) for x in l)),
        dl(dx.ravel()), dl(dy.ravel()), dl(np.ravel(qx)), dl(np.ravel(qy)), dl(ldx), dl(ldy), dl(lqx), dl(lqy),
        dl(pdx), dl(pdy), dl(pqx), dl(pqy), bl(o))
    repro = ("# projection: %s\nimport verde, numpy as np; print(verde.convexhull_mask((np.array(%r), np.array(%r)), "
             "coordinates=(np.array(%r), np.array(%r)), projection=<projection>))"
             % (proj.name, dx.tolist(), dy.tolist(), np.asarray(qx).tolist(), np.asarray(qy).tolist()))
    return Case(inp, {"mask": [bool(b) for b in o], "projection_calls": len(calls)}, term, repro, kind)


def polar_projection():
    """azimuthal equidistant about the pole: x = r sin(lon), y = -r cos(lon), r = 90 - lat (degrees)"""
    def f(lon, lat):
        r = 90.0 - lat
        return r * np.sin(np.radians(lon)), -r * np.cos(np.radians(lon))
    return Projection("polar-azimuthal", f)


LINEAR_MAPS = {       # exact on the quarter lattice: rotations by Pythagorean angles (times 5 / 13), integer shears
    "rotation-3-4": (3.0, -4.0, 4.0, 3.0),
    "rotation-5-12": (5.0, -12.0, 12.0, 5.0),
    "shear-x": (1.0, 2.0, 0.0, 1.0),
    "shear-y-reflect": (1.0, 0.0, -3.0, -1.0),
}


def linear_projection(name):
    a, b, c, d = LINEAR_MAPS[name]
    return Projection(name, lambda e, n: (a * e + b * n, c * e + d * n)), (a, b, c, d)


def projected_mask_cases(vd, rnd, count):
    out = []
    for i in range(count):
        # (a) exact stream: lattice cloud, integer-linear non-separable map, array and grid form
        nm = rnd.choice(sorted(LINEAR_MAPS))
        proj, lin = linear_projection(nm)
        pts = lattice_cloud(rnd, rnd.randint(3, 12))
        qs = lattice_queries(rnd, pts, rnd.choice([20, 24, 30]))
        px, py = [p[0] for p in pts], [p[1] for p in pts]
        out.append(mask_proj_case(vd, px, py, np.array([q[0] for q in qs]).reshape(2, -1), np.array([q[1] for q in qs]).reshape(2, -1),
                                  proj, "mask-projected", lin=lin))
        nx = rnd.randint(3, 7)
        ny = rnd.choice([m for m in range(3, 8) if m != nx])
        east = styled_axis(rnd, rnd.randint(-4, 4) / 4, rnd.choice([1.0, 1.5]), nx, rnd.choice(AXIS_STYLES))
        north = styled_axis(rnd, rnd.randint(-4, 4) / 4, rnd.choice([1.0, 1.25]), ny, rnd.choice(AXIS_STYLES))
        out.append(mask_proj_case(vd, px, py, None, None, linear_projection(nm)[0], "mask-projected", lin=lin, grid=(east, north),
                                  dims=rnd.choice([("northing", "easting"), ("lat", "lon")]), how=DATASET_WAYS[i % 4]))
        # (b) curved stream: polar projection of a lon/lat sector; queries outside the lon/lat bounding box of the data
        #     whose projection is inside the projected hull (poleward of the sector, around the central meridian),
        #     queries inside the box but outside the projected hull (between two data points of the outer arc), random ones
        lon0 = rnd.choice([0.0, 20.0, -35.0])
        half = rnd.choice([40.0, 60.0, 75.0])
        lat_s, lat_n = rnd.choice([(60.0, 80.0), (50.0, 70.0), (65.0, 85.0)])
        m = rnd.randint(6, 14)
        dlon = [lon0 - half, lon0 + half, lon0 - half, lon0 + half] + [lon0 + rnd.uniform(-half, half) for _ in range(m)]
        dlat = [lat_s, lat_s, lat_n, lat_n] + [rnd.uniform(lat_s, lat_n) for _ in range(m)]
        top = min(89.0, lat_n + 0.6 * (90.0 - lat_n))
        qlon = [lon0, lon0 + 5.0, lon0 - 8.0] + [lon0 + rnd.uniform(-0.3, 0.3) * half for _ in range(5)]
        qlat = [lat_n + 0.5 * (top - lat_n), top, lat_n + 1.0] + [rnd.uniform(lat_n + 0.2, top) for _ in range(5)]
        qlon += [lon0, lon0 + 0.1 * half] + [lon0 + rnd.uniform(-1.2, 1.2) * half for _ in range(16)]
        qlat += [lat_s + 0.2, lat_s + 0.5] + [rnd.uniform(lat_s - 5, min(89.5, lat_n + 8)) for _ in range(16)]
        out.append(mask_proj_case(vd, dlon, dlat, np.array(qlon).reshape(2, -1), np.array(qlat).reshape(2, -1), polar_projection(),
                                  "mask-projected-polar"))
        glon = lon0 + np.linspace(-1.1, 1.1, rnd.choice([5, 6, 8])) * half
        glat = np.linspace(lat_s - 3.0, min(89.0, lat_n + 7.0), rnd.choice([7, 9]))[::-1].copy()     # raster orientation
        out.append(mask_proj_case(vd, dlon, dlat, None, None, polar_projection(), "mask-projected-polar", grid=(glon, glat),
                                  dims=("latitude", "longitude"), how=DATASET_WAYS[(i + 1) % 4]))
    return out


def lattice_cloud(rnd, n, size=8):
    while True:
        style = rnd.randrange(4)
        pts = []
        if style == 0:      # free
            pts = [(rnd.randint(0, size), rnd.randint(0, size)) for _ in range(n)]
        elif style == 1:    # rectangle corners + collinear runs on its sides + interior
            w, e = sorted(rnd.sample(range(size + 1), 2))
            s, nn = sorted(rnd.sample(range(size + 1), 2))
            pts = [(w, s), (e, s), (w, nn), (e, nn)]
            while len(pts) < n:
                k = rnd.randrange(3)
                if k == 0:
                    pts.append((rnd.randint(w, e), rnd.choice([s, nn])))
                elif k == 1:
                    pts.append((rnd.choice([w, e]), rnd.randint(s, nn)))
                else:
                    pts.append((rnd.randint(w, e), rnd.randint(s, nn)))
        elif style == 2:    # triangle / thin shapes
            pts = [(0, 0), (size, rnd.randint(0, 2)), (rnd.randint(0, size), size)]
            while len(pts) < n:
                pts.append((rnd.randint(0, size), rnd.randint(0, size)))
        else:               # duplicates of a few points
            base = [(rnd.randint(0, size), rnd.randint(0, size)) for _ in range(max(3, n // 2))]
            pts = base + [rnd.choice(base) for _ in range(n - len(base))]
        pts = pts[:n]
        rnd.shuffle(pts)
        if len(set(pts)) >= 3 and nondegenerate(pts):
            return pts


def lattice_queries(rnd, pts, nq, size=8):
    E = hull_edges(pts)
    qs = []
    qs += rnd.sample(pts, min(len(pts), 5))                                   # data points themselves
    for a, b in rnd.sample(E, min(len(E), 4)):                                 # on, just inside, just outside of hull edges
        mx, my = (a[0] + b[0]) / 2, (a[1] + b[1]) / 2
        dxn, dyn = -(b[1] - a[1]), (b[0] - a[0])                               # inward normal (left of a->b)
        for k in (0, 1, -1):
            qs.append((float(mx) + 0.25 * k * (1 if dxn > 0 else -1 if dxn < 0 else 0),
                       float(my) + 0.25 * k * (1 if dyn > 0 else -1 if dyn < 0 else 0)))
    while len(qs) < nq:
        qs.append((rnd.randint(-4, 4 * size + 4) / 4, rnd.randint(-4, 4 * size + 4) / 4))
    qs = [(float(x), float(y)) for x, y in qs[:nq]]
    return qs


def mask_scaled_case(vd, pts, qs, sx, ox, sy, oy, kind, rnd=None):
    bx = np.array([p[0] for p in pts], dtype=float)
    by = np.array([p[1] for p in pts], dtype=float)
    bqx = np.array([q[0] for q in qs], dtype=float)
    bqy = np.array([q[1] for q in qs], dtype=float)
    dx, dy, qx, qy = sx * bx + ox, sy * by + oy, sx * bqx + ox, sy * bqy + oy
    for b, m, s, o in ((bx, dx, sx, ox), (by, dy, sy, oy), (bqx, qx, sx, ox), (bqy, qy, sy, oy)):
        for u, v in zip(b, m):
            if F(s) * F(u) + F(o) != F(v):
                return None        # not exact in doubles: not a valid instance of this stream
    if rnd is not None:     # non-square 2-D query arrays (same shape for the pair), independent memory layouts
        sh = shape2(bqx.size, rnd)
        shape = sh if sh is not None else bqx.shape
        dex, qex, exd = extra_coords(rnd, bx.shape, tuple(shape))
        try:
            obs_base = vd.convexhull_mask((core.relayout(bx, rnd), core.relayout(by, rnd)),
                                          coordinates=(core.relayout(bqx.reshape(shape), rnd), core.relayout(bqy.reshape(shape), rnd)))
            obs = vd.convexhull_mask((core.relayout(dx, rnd), core.relayout(dy, rnd)) + dex,
                                     coordinates=(core.relayout(qx.reshape(shape), rnd), core.relayout(qy.reshape(shape), rnd)) + qex)
        except Exception as ex:
            return raised_case({"fn": "convexhull_mask-scaled", "base_data": [bx.tolist(), by.tolist()], "extras": exd,
                                "base_query": [bqx.tolist(), bqy.tolist()], "scale_offset": [sx, ox, sy, oy]}, ex, kind)
        if obs.shape != tuple(shape) or obs_base.shape != tuple(shape):
            obs = obs_base = np.zeros(0, dtype=bool)
        obs_base, obs = np.asarray(obs_base).ravel(order="C"), np.asarray(obs).ravel(order="C")
    else:
        obs_base = vd.convexhull_mask((bx, by), coordinates=(bqx, bqy))
        obs = vd.convexhull_mask((dx, dy), coordinates=(qx, qy))
    term = "c16_mask_scaled %s %s %s %s %s %s %s %s %s %s %s %s %s %s" % (
        dl(bx), dl(by), dl(bqx), dl(bqy), cD(sx), cD(ox), cD(sy), cD(oy), dl(dx), dl(dy), dl(qx), dl(qy),
        bl(obs_base.ravel()), bl(obs.ravel()))
    repro = ("import verde, numpy as np; bx,by,qx,qy=[np.array(v) for v in %r]; "
             "print(verde.convexhull_mask((%r*bx+%r, %r*by+%r), coordinates=(%r*qx+%r, %r*qy+%r)))"
             % ([bx.tolist(), by.tolist(), bqx.tolist(), bqy.tolist()], sx, ox, sy, oy, sx, ox, sy, oy))
    return Case({"fn": "convexhull_mask-scaled", "base_data": [bx.tolist(), by.tolist()], "base_query": [bqx.tolist(), bqy.tolist()],
                 "scale_offset": [sx, ox, sy, oy], "extras": exd if rnd is not None else None},
                {"mask_base": [bool(b) for b in obs_base], "mask": [bool(b) for b in obs]}, term, repro, kind)


def mask_forms_case(vd, dx, dy, east, north, dims, kind, rnd=None, how="data_vars+coords"):
    import xarray as xr
    dx, dy, east, north = [np.asarray(v, dtype=float) for v in (dx, dy, east, north)]
    coords = np.meshgrid(east, north)
    if rnd is not None:    # easting and northing arrays with independently chosen memory layouts
        coords = [core.relayout(c, rnd) for c in coords]
        dx, dy = laid_out(dx, rnd), laid_out(dy, rnd, as2d=False)
        if dx.shape != dy.shape:
            dy = core.relayout(dy.reshape(dx.shape), rnd)
    dex, qex, exd = extra_coords(rnd, np.shape(dx), np.shape(coords[0]))
    inp0 = {"fn": "convexhull_mask-forms", "data": [np.asarray(dx).tolist(), np.asarray(dy).tolist()], "easting": east.tolist(),
            "northing": north.tolist(), "dims": list(dims), "extras": exd}
    vals = np.arange(1.0, east.size * north.size + 1).reshape(north.size, east.size)
    inp0["dataset_built"] = how
    ds = build_dataset(how, dims, east, north, vals)
    try:
        arr = vd.convexhull_mask((dx, dy) + dex, coordinates=tuple(coords) + qex)
        out = vd.convexhull_mask((dx, dy) + dex, grid=ds)      # the grid form takes its two coordinates from the grid
    except Exception as ex:
        return raised_case(inp0, ex, kind)
    ov = out["scalars"].values
    kept = ~np.isnan(ov)
    dims_ok = (tuple(out["scalars"].dims) == tuple(dims) and np.array_equal(out[dims[1]].values, east)
               and np.array_equal(out[dims[0]].values, north) and ov.shape == vals.shape
               and bool(np.all(ov[kept] == vals[kept])))
    arr_rows = arr.tolist() if arr.shape == vals.shape else []
    kept_rows = kept.tolist() if kept.shape == vals.shape else []
    term = "c16_mask_forms %s %s %s %s %s %s %s" % (dl(np.ravel(dx)), dl(np.ravel(dy)), dl(east), dl(north), brows(arr_rows), brows(kept_rows), cbool(dims_ok))
    repro = ("import verde, numpy as np, xarray as xr; d=(np.array(%r), np.array(%r)); e=np.array(%r); n=np.array(%r); "
             "print(verde.convexhull_mask(d, coordinates=np.meshgrid(e, n)).astype(int)); "
             "g=xr.Dataset({'scalars': (%r, np.ones((n.size, e.size)))}, coords={%r: e, %r: n}); "
             "print(verde.convexhull_mask(d, grid=g).scalars.values)" % (dx.tolist(), dy.tolist(), east.tolist(), north.tolist(),
                                                                         list(dims), dims[1], dims[0]))
    repro = "# Dataset built: %s (see harness/c16.py build_dataset)\n" % how + repro
    if exd is not None:
        repro = "# extra coordinates appended to the data / query tuples: %r\n" % (exd,) + repro
    return Case(inp0, {"array_form": arr_rows, "grid_form_kept": kept_rows, "dims_ok": dims_ok}, term, repro, kind)


def random_cloud_case(vd, rnd, kind):
    n = rnd.randint(3, 15)
    ex, ey = rnd.choice([(1.0, 1.0), (100.0, 1.0), (1e-3, 50.0), (1e4, 1e4)])
    cx, cy = rnd.choice([(0.0, 0.0), (1e5, -3e4), (-7.0, 2.5e6)])
    dx = [cx + ex * rnd.uniform(-1, 1) for _ in range(n)]
    dy = [cy + ey * rnd.uniform(-1, 1) for _ in range(n)]
    pts = list(zip(dx, dy))
    if not nondegenerate(pts):
        return None
    E = hull_edges(pts)
    qx, qy = [], []
    for a, b in rnd.sample(E, min(len(E), 6)):          # points rounded onto hull edges
        t = rnd.random()
        qx.append(float(a[0]) + t * (float(b[0]) - float(a[0])))
        qy.append(float(a[1]) + t * (float(b[1]) - float(a[1])))
    for _ in range(4):                                   # interior convex combinations
        w = [rnd.random() for _ in pts]
        s = sum(w)
        qx.append(sum(wi * p[0] for wi, p in zip(w, pts)) / s)
        qy.append(sum(wi * p[1] for wi, p in zip(w, pts)) / s)
    k = rnd.randint(10, 30)
    qx += [cx + 1.3 * ex * rnd.uniform(-1, 1) for _ in range(k)]
    qy += [cy + 1.3 * ey * rnd.uniform(-1, 1) for _ in range(k)]
    return mask_case(vd, dx, dy, qx, qy, kind, rnd=rnd)


# ---------------------------------------------------------------------------
# project_grid
# ---------------------------------------------------------------------------
class Projection:
    """a projection callable that logs what it was asked and what it answered"""

    def __init__(self, name, fwd, inv=None, affine=None):
        self.name, self.fwd, self.inv, self.affine = name, fwd, inv, affine
        self.calls = []

    def __call__(self, e, n, inverse=False, **kw):
        e = np.array(e, dtype=float, copy=True)
        n = np.array(n, dtype=float, copy=True)
        f = self.inv if (inverse and self.inv is not None) else self.fwd
        oe, on = f(e, n)
        oe = np.array(oe, dtype=float, copy=True)
        on = np.array(on, dtype=float, copy=True)
        self.calls.append((e, n, oe, on))
        return oe, on


def affine_projection(sx, ox, sy, oy):
    return Projection("affine(%r*e+%r, %r*n+%r)" % (sx, ox, sy, oy),
                      lambda e, n: (sx * e + ox, sy * n + oy),
                      lambda e, n: ((e - ox) / sx, (n - oy) / sy), affine=(sx, ox, sy, oy))


class AffineFactory:
    """picks dyadic affine coefficients once the grid is known, keeping max|coordinate| / min(grid step) <= 2^17 over
    BOTH axes: beyond ~1e6 the un-normalised Delaunay triangulation inside Linear/Cubic loses data points
    (finding C16-interpolator-large-offset: reported, not generated)"""

    def __init__(self, rnd):
        self.rnd = rnd

    def make(self, east, north):
        rnd = self.rnd
        de, dn = np.abs(np.diff(east)).min(), np.abs(np.diff(north)).min()
        for attempt in range(200):
            sx = rnd.choice([0.5, 1.0, 2.0, 4.0, 1000.0, -2.0])
            sy = rnd.choice([0.5, 1.0, 2.0, 0.25, 1000.0, -1.0])
            ox = rnd.choice([0.0, 1.0, -3.5, 2.0 ** 12 * abs(sx), -(2.0 ** 14) * abs(sx)])
            oy = rnd.choice([0.0, -3.0, 0.25, -(2.0 ** 12) * abs(sy), 2.0 ** 14 * abs(sy)])
            big = max(np.abs(sx * east + ox).max(), np.abs(sy * north + oy).max())
            step = min(abs(sx) * de, abs(sy) * dn)
            if big / step <= 2.0 ** 17:
                return affine_projection(sx, ox, sy, oy)
        return affine_projection(1.0, 0.0, 1.0, 0.0)


NONLINEAR = {
    "cubic-separable": (lambda e, n: (e + e ** 3 / 100, n + n ** 3 / 100), True),
    "mercator-like": (lambda e, n: (e * 1000.0, 1000.0 * np.arcsinh(np.tan(np.radians(10 * n)))), True),
    "quadratic-mix": (lambda e, n: (e + 0.1 * n ** 2, n + 0.05 * e ** 2), False),
    "rotation": (lambda e, n: (0.6 * e - 0.8 * n, 0.8 * e + 0.6 * n), False),
}
METHODS = {"linear": 0, "nearest": 1, "cubic": 2}


AXIS_STYLES = ["ascending", "descending", "uneven", "uneven-descending"]


def styled_axis(rnd, start, step, n, style):
    """a coordinate vector on the lattice step/4: evenly spaced ascending (what grid_coordinates makes), descending
    (the usual raster orientation of northing), unevenly spaced, or both; all values distinct"""
    if style.startswith("uneven"):
        gaps = [rnd.choice([1, 2, 3, 6]) for _ in range(n - 1)]
        if len(set(gaps)) == 1 and n > 2:
            gaps[0] = gaps[0] + 3
        ax = start + (step / 2) * np.concatenate([[0.0], np.cumsum(gaps)])
    else:
        ax = start + step * np.arange(n)
    return ax[::-1].copy() if style.endswith("descending") else ax


def make_grid(rnd, nprng, ny, nx, name, dims, holes, smooth, even=False, lines=False):
    import xarray as xr
    e0 = rnd.choice([0.0, -2.5, 1.0, 3.25])
    n0 = rnd.choice([0.0, 1.0, -4.0, 0.5])
    de = rnd.choice([0.5, 1.0, 0.25, 0.75])
    dn = rnd.choice([0.5, 1.0, 0.25, 1.5])
    east = styled_axis(rnd, e0, de, nx, rnd.choice(["ascending"] * 5 + (AXIS_STYLES[1:2] if even else AXIS_STYLES[1:])))
    north = styled_axis(rnd, n0, dn, ny, rnd.choice(["ascending"] * 3 + ["descending"] * 3 + ([] if even else AXIS_STYLES[2:])))
    if smooth:
        E, N = np.meshgrid(east, north)
        v = 3.0 + np.sin(E / 2) * np.cos(N / 3) + 0.1 * E
    else:
        v = nprng.normal(size=(ny, nx))
    cells = [(i, j) for i in range(ny) for j in range(nx)]
    corners = [(0, 0), (0, nx - 1), (ny - 1, 0), (ny - 1, nx - 1)]
    for k in range(holes):
        i, j = rnd.choice(corners) if (k == 0 and rnd.random() < 0.4) else rnd.choice(cells)
        v[i, j] = np.nan
    if lines:
        # NaN holes covering COMPLETE rows and / or columns (missing scan line, masked meridian, NaN padding strip),
        # at the edge and in the interior; at least three valid rows and columns remain
        nr, nc = rnd.choice([(1, 0), (0, 1), (1, 1), (2, 0), (0, 2), (2, 1)])
        def pick_lines(n, k):
            k = min(k, n - 3)
            pool = [0, n - 1] + list(range(1, n - 1))
            out = []
            while len(out) < k:
                c = rnd.choice([0, n - 1]) if rnd.random() < 0.5 else rnd.choice(pool)
                if c not in out:
                    out.append(c)
            return out
        for i in pick_lines(ny, nr):
            v[i, :] = np.nan
        for j in pick_lines(nx, nc):
            v[:, j] = np.nan
    v = core.relayout(v, rnd)       # memory layout of the value array must not matter
    da = xr.DataArray(v, coords={dims[0]: north, dims[1]: east}, dims=dims, name=name)
    if rnd.random() < 0.3:      # an extra non-dimensional (e.g. height) coordinate on the input grid must change nothing
        da = da.assign_coords(upward=(tuple(dims), nprng.normal(size=(ny, nx)) * 100.0))
    return da, east, north, v


def pg_cases(vd, rnd, nprng, proj, separable, method, antialias, argkind, kind, shrink_stream=False, fixed=None, plain=False, lines=None):
    """run project_grid once; return the list of cases (main, range, inside) built from the observation"""
    if fixed is not None:       # a deterministic grid (large-offset stream): (east, north, values, name, dims)
        import xarray as xr
        east, north, v, name, dims = fixed
        holes = int(np.isnan(v).sum())
        da = xr.DataArray(v, coords={dims[0]: north, dims[1]: east}, dims=dims, name=name)
    else:
        ny = rnd.randint(5, 8)
        nx = ny + rnd.choice([1, 1, -1, 2]) if ny > 5 else ny + rnd.choice([1, 2])
        name = rnd.choice(["foo", None, "scalars", "temperature"])
        dims = rnd.choice([("northing", "easting"), ("lat", "lon"), ("y", "x")])
        holes = 0 if plain else rnd.choice([0, 0, 1, 2, 4])
        if lines is None:
            lines = (not plain) and (not shrink_stream) and rnd.random() < 0.2
        da, east, north, v = make_grid(rnd, nprng, ny, nx, name, dims, holes, smooth=rnd.random() < 0.3, even=plain, lines=lines)
        holes = int(np.isnan(v).sum())
    if isinstance(proj, AffineFactory):
        proj = proj.make(east, north)
    # what the projection will produce (to choose sensible region / spacing arguments)
    valid = ~np.isnan(v)
    EE, NN = np.meshgrid(east, north)
    pe0, pn0 = proj.fwd(EE[valid], NN[valid])
    w, e, s, n = float(np.min(pe0)), float(np.max(pe0)), float(np.min(pn0)), float(np.max(pn0))
    kwargs = {}
    if argkind in ("shape", "region+shape"):
        kwargs["shape"] = (rnd.randint(4, 9), rnd.randint(4, 9))
    if argkind in ("spacing", "region+spacing"):
        sp_e = (e - w) / (rnd.randint(4, 8) + rnd.choice([0.0, 0.2, -0.3]))
        sp_n = (n - s) / (rnd.randint(4, 8) + rnd.choice([0.0, 0.2, -0.3]))
        scalar = min(sp_n, sp_e) * 1.5
        # one spacing for both directions only when that keeps the output grid small
        if rnd.random() < 0.3 and max((e - w) / scalar, (n - s) / scalar) <= 16:
            kwargs["spacing"] = scalar
        else:
            kwargs["spacing"] = (sp_n, sp_e)
    if argkind.startswith("region"):
        fw, fe, fs, fn = [rnd.choice([-0.25, 0.0, 0.125, 0.3]) for _ in range(4)]
        kwargs["region"] = (w + fw * (e - w), e - fe * (e - w), s + fs * (n - s), n - fn * (n - s))
    proj.calls = []
    try:
        out = vd.project_grid(da, proj, method=method, antialias=antialias, **kwargs)
    except Exception as ex:      # a valid call must not raise: reported as a violation with the input as replay
        inp = {"fn": "project_grid", "projection": proj.name, "method": method, "antialias": antialias, "part": "main",
               "kwargs": {k: list(x) if isinstance(x, tuple) else x for k, x in kwargs.items()}, "name": name, "dims": list(dims),
               "easting": east.tolist(), "northing": north.tolist(), "values": [[None if np.isnan(x) else float(x) for x in r] for r in v]}
        return [Case(inp, {"raised": "%s: %s" % (type(ex).__name__, str(ex)[:300])}, "Vboth", "# projection: %s" % proj.name, kind)]
    calls = proj.calls
    if len(calls) != 1:
        le = ln = pe = pn = np.zeros(0)
    else:
        le, ln, pe, pn = [np.ravel(a) for a in calls[0]]
    odims = tuple(out.dims)
    dims_ok = odims == ("northing", "easting") and out.values.ndim == 2
    oe = np.asarray(out[odims[1]].values, dtype=float)
    on = np.asarray(out[odims[0]].values, dtype=float)
    ov = np.asarray(out.values, dtype=float)
    oname = out.name if isinstance(out.name, str) else repr(out.name)
    rtol = "(1 # (2 ^ 20))" if method == "cubic" else "(1 # (2 ^ 30))"
    aff = proj.affine
    args = "%s %s %s %s %s %s %s %s %s %s %s %s %s %s %s %s %s %s %s %s" % (
        copt(name, cstr), dl(east), dl(north), orows(v), dl(le), dl(ln), dl(pe), dl(pn),
        copt(aff, lambda a: "(%s, %s, %s, %s)" % tuple(cD(x) for x in a)),
        copt(kwargs.get("region"), dl),
        copt(kwargs.get("spacing"), lambda sp: dl(sp) if isinstance(sp, tuple) else dl([sp])),
        copt(kwargs.get("shape"), lambda sh: "(%s, %s)" % (cZ(sh[0]), cZ(sh[1]))),
        cbool(antialias), cZ(METHODS[method]), cstr(oname), cbool(dims_ok), dl(oe), dl(on), orows(ov), rtol)
    inp = {"fn": "project_grid", "projection": proj.name, "method": method, "antialias": antialias, "kwargs": {k: list(x) if isinstance(x, tuple) else x for k, x in kwargs.items()},
           "name": name, "dims": list(dims), "easting": east.tolist(), "northing": north.tolist(),
           "values": [[None if np.isnan(x) else float(x) for x in r] for r in v]}
    obs = {"name": out.name, "dims": list(odims), "shape": list(ov.shape), "easting": oe.tolist(), "northing": on.tolist(),
           "values": [[None if np.isnan(x) else float(x) for x in r] for r in ov]}
    repro = ("# projection: %s\nimport verde, numpy as np, xarray as xr; v=np.array(%r, dtype=float); "
             "g=xr.DataArray(v, coords={%r: %r, %r: %r}, dims=%r, name=%r); "
             "print(verde.project_grid(g, <projection>, method=%r, antialias=%r, **%r))"
             % (proj.name, inp["values"], dims[0], north.tolist(), dims[1], east.tolist(), list(dims), name, method, antialias, kwargs))
    term = "c16_pg " + args
    cases = []
    if fixed is not None:
        # split the observation: everything but value reproduction must be fine; reproduction alone carries the finding key
        ratio = float(max(np.abs(pe).max(), np.abs(pn).max()) /
                      min(abs(aff[0]) * np.abs(np.diff(east)).min(), abs(aff[2]) * np.abs(np.diff(north)).min()))
        inp["coord_to_step_ratio"] = ratio
        cases.append(Case(dict(inp, part="main-without-reproduction"), obs, "c16_pg_norepro " + args, repro, kind))
        cases.append(Case(dict(inp, part="reproduction"), obs, "c16_pg_repro " + args, repro, kind + "-reproduction"))
        return cases
    if not shrink_stream:
        cases.append(Case(dict(inp, part="main"), obs, term, repro, kind))
        if antialias:
            cases.append(Case(dict(inp, part="range"), obs, "c16_pg_range %s %s" % (orows(v), orows(ov)), repro, kind + "-range"))
    even = len(set(np.diff(east))) == 1 and len(set(np.diff(north))) == 1
    if antialias and method != "nearest" and (shrink_stream or (separable and holes == 0 and argkind == "none" and even)):
        cases.append(Case(dict(inp, part="inside"), obs, "c16_pg_inside %s %s %s %s %s" % (dl(pe), dl(pn), dl(oe), dl(on), orows(ov)),
                          repro, kind + "-inside"))
    return cases


def shrink_known():
    try:
        return any(f.get("property") == ID and f.get("status") == "known" and f.get("key") == SHRINK_KEY for f in core.load_known())
    except Exception:
        return False


def generate(tier, seed):
    import verde as vd
    rnd = random.Random(seed)
    nprng = np.random.default_rng(seed)
    quick = tier == "quick"
    cases = []
    # (1) lattice clouds
    for i in range(60 if quick else 600):
        pts = lattice_cloud(rnd, rnd.randint(3, 15))
        qs = lattice_queries(rnd, pts, rnd.choice([20, 21, 24, 28, 30, 32, 35, 36, 39, 40]))
        px, py, qx, qy = [p[0] for p in pts], [p[1] for p in pts], [q[0] for q in qs], [q[1] for q in qs]
        if i % 3 == 1:      # integer dtypes: cloud and queries scaled by 4 onto the integer lattice (exact)
            px, py, qx, qy = [[int(round(4 * t)) for t in v] for v in (px, py, qx, qy)]
            cases.append(mask_case(vd, px, py, qx, qy, "mask-lattice", rnd=rnd, dtype=rnd.choice([np.int64, np.int32])))
        else:
            cases.append(mask_case(vd, px, py, qx, qy, "mask-lattice", rnd=rnd))
    # the doctest cloud, 2-D query arrays
    g = vd.grid_coordinates((0, 5, -10, -4), spacing=1)
    cases.append(mask_case(vd, [2, 3, 2, 3], [-9, -9, -6, -6], g[0], g[1], "mask-lattice"))
    cases.append(mask_case(vd, [[2, 3], [2, 3]], [[-9, -9], [-6, -6]], np.asfortranarray(g[0]), g[1].T.copy().T, "mask-lattice"))
    # (2) random clouds
    k = 0
    while k < (40 if quick else 400):
        c = random_cloud_case(vd, rnd, "mask-random")
        if c is not None:
            cases.append(c)
            k += 1
    # (3) scale / offset independence
    scales = [2.0 ** -10, 0.5, 1.0, 3.0, 1000.0, 2.0 ** 20, 1e7]
    k = 0
    while k < (40 if quick else 400):
        pts = lattice_cloud(rnd, rnd.randint(3, 12))
        qs = lattice_queries(rnd, pts, rnd.choice([15, 18, 20, 21, 24, 26, 28, 30]))
        sx, sy = rnd.choice(scales), rnd.choice(scales)
        ox = rnd.choice([0.0, sx * rnd.randint(-10 ** 6, 10 ** 6), 1e7, -3e6, sx * 2.0 ** 30])
        oy = rnd.choice([0.0, sy * rnd.randint(-10 ** 6, 10 ** 6), 1e7, 5e5, -sy * 2.0 ** 30])
        c = mask_scaled_case(vd, pts, qs, sx, ox, sy, oy, "mask-scaled", rnd=rnd)
        if c is not None:
            cases.append(c)
            k += 1
    # (4) array form vs grid form: the grid's OWN coordinate vectors (ascending, descending, uneven, both), non-square,
    #     data hull off-centre (confined to one part of the grid, so mirrored / re-spaced nodes get a different mask),
    #     also at large scale / offset
    for i in range(40 if quick else 400):
        nx = rnd.randint(3, 8)
        ny = rnd.choice([m for m in range(2, 9) if m != nx])
        if i % 6 == 5:      # square grids too: swapped axes then give a silently wrong mask instead of a shape error
            ny = nx
        se = rnd.choice(AXIS_STYLES) if i % 4 else "ascending"
        sn = rnd.choice(AXIS_STYLES) if i % 4 != 1 else "descending"
        if i % 4 == 0:
            sn = rnd.choice(AXIS_STYLES[1:])
        east = styled_axis(rnd, rnd.randint(-4, 4) / 4, rnd.choice([0.5, 1.0, 1.25]), nx, se)
        north = styled_axis(rnd, rnd.randint(-4, 4) / 4, rnd.choice([0.5, 1.0, 0.75]), ny, sn)
        # cloud in a sub-box of the grid's bounding box that is not centred on it
        w, e, s_, n_ = east.min(), east.max(), north.min(), north.max()
        fx, fy = rnd.choice([(0.0, 0.6), (0.4, 1.0), (0.1, 0.7)]), rnd.choice([(0.0, 0.55), (0.45, 1.0), (0.2, 0.9)])
        bx = (w + fx[0] * (e - w), w + fx[1] * (e - w))
        by = (s_ + fy[0] * (n_ - s_), s_ + fy[1] * (n_ - s_))
        while True:
            m = rnd.randint(3, 12)
            pts = [(round(rnd.uniform(*bx) * 8) / 8, round(rnd.uniform(*by) * 8) / 8) for _ in range(m)]
            if len(set(pts)) >= 3 and nondegenerate(pts):
                break
        dxs, dys = np.array([p[0] for p in pts]), np.array([p[1] for p in pts])
        if i % 5 == 4:       # exact dyadic/decimal rescaling of cloud and grid together
            sx, ox = rnd.choice([(1000.0, 1e6), (2.0 ** -10, 0.0), (1.0, -3e6), (1e4, 2.0 ** 30)])
            sy, oy = rnd.choice([(1000.0, -1e6), (1.0, 1e7), (2.0 ** 20, 0.0), (0.5, 5e5)])
            dxs, east, dys, north = sx * dxs + ox, sx * east + ox, sy * dys + oy, sy * north + oy
        dims = rnd.choice([("northing", "easting"), ("lat", "lon"), ("y", "x")])
        cases.append(mask_forms_case(vd, dxs, dys, east, north, dims, "mask-forms", rnd=rnd, how=DATASET_WAYS[i % 4]))
    # (4b) convexhull_mask with a projection: the mask is the hull test on the PROJECTED points
    cases += projected_mask_cases(vd, rnd, 6 if quick else 60)
    # (5) project_grid
    argkinds = ["none", "none", "shape", "spacing", "region", "region+shape", "region+spacing"]
    combos = [(m, aa) for m in ("linear", "nearest", "cubic") for aa in (False, True)]
    npg = 12 if quick else 110
    for i in range(npg):
        for (m, aa) in combos:
            r = rnd.random()
            if r < 0.5:
                proj, sep = AffineFactory(rnd), True
            else:
                nm = rnd.choice(sorted(NONLINEAR))
                f, sep = NONLINEAR[nm]
                proj = Projection(nm, f)
            ak = "none" if (isinstance(proj, AffineFactory) and not aa and rnd.random() < 0.6) else rnd.choice(argkinds)
            cases += pg_cases(vd, rnd, nprng, proj, sep, m, aa, ak, "project_grid")
    # (5a) complete rows / columns of NaN with default arguments: the output keeps the INPUT's shape (not the number
    #      of rows / columns that still carry data), for every method and antialias setting
    for i in range(2 if quick else 12):
        for (m, aa) in combos:
            if i % 2:
                proj, sep = AffineFactory(rnd), True
            else:
                nm = rnd.choice(sorted(NONLINEAR))
                f, sep = NONLINEAR[nm]
                proj = Projection(nm, f)
            cases += pg_cases(vd, rnd, nprng, proj, sep, m, aa, "none", "project_grid", lines=True)
    # (5b) antialias with linear / cubic on hole-free, evenly spaced grids, separable projections, default arguments:
    #      here every node strictly inside the hull must be finite
    for i in range(3 if quick else 20):
        for m in ("linear", "cubic"):
            if i % 2:
                proj = AffineFactory(rnd)
            else:
                nm = rnd.choice(["cubic-separable", "mercator-like"])
                proj = Projection(nm, NONLINEAR[nm][0])
            cases += pg_cases(vd, rnd, nprng, proj, True, m, True, "none", "project_grid", plain=True)
    # (6) the blocked mean shrinks the interpolator's hull (only when recorded as a known finding)
    if shrink_known():
        for i in range(4 if quick else 20):
            for m in ("linear", "cubic"):
                nm = rnd.choice(["quadratic-mix", "rotation"])
                cases += pg_cases(vd, rnd, nprng, Projection(nm, NONLINEAR[nm][0]), False, m, True, "none", "project_grid-shrink",
                                  shrink_stream=True)
    # (7) Linear / Cubic triangulate un-normalised coordinates: far from the origin (max|coordinate| / grid step
    #     >= ~1e6) data points drop out of the triangulation and values at data nodes are wrong (known finding);
    #     deterministic cases, independent of the seed
    cases += large_offset_cases(vd, 4 if quick else 10)
    return cases


LARGE_OFFSET = [
    # (shape, east step, north step, sx, ox, sy, oy, method, value seed)
    ((5, 6), 1.0, 0.0625, 1.0, 0.0, 1.0, -1e6, "linear", 0),          # the witness of the report
    ((5, 6), 1.0, 0.0625, 1.0, 0.0, 1.0, -1e6, "cubic", 0),
    ((5, 6), 1.0, 0.0625, 1.0, 0.0, 1.0, -1e7, "linear", 0),
    ((8, 10), 0.5, 0.25, 1000.0, 4096000.0, 0.25, 0.25, "cubic", 1),   # anisotropic: large easting, small northing step
    ((6, 7), 0.25, 0.25, 1.0, 2.0 ** 22, 1.0, 0.0, "linear", 2),
    ((6, 7), 0.25, 0.25, 1.0, 2.0 ** 22, 1.0, 0.0, "cubic", 2),
    ((7, 6), 0.5, 0.5, 0.5, -1e7, 0.5, 1e7, "linear", 3),
    ((7, 6), 0.5, 0.5, 0.5, -1e7, 0.5, 1e7, "cubic", 3),
    ((5, 7), 1.0, 1.0, 1.0, 2.0 ** 20, 1.0, 2.0 ** 20, "linear", 4),    # ratio 2^20: may or may not be affected
    ((5, 7), 0.75, 0.125, 2.0, 3e6, 4.0, -3e6, "cubic", 5),
]


def large_offset_cases(vd, count):
    out = []
    for (ny, nx), de, dn, sx, ox, sy, oy, method, vseed in LARGE_OFFSET[:count]:
        east = de * np.arange(nx)
        north = dn * np.arange(ny)
        v = np.random.default_rng(vseed).normal(size=(ny, nx))
        out += pg_cases(vd, None, None, affine_projection(sx, ox, sy, oy), True, method, False, "none", "project_grid-large-offset",
                        fixed=(east, north, v, "v", ("northing", "easting")))
    return out


def finding_key(case):
    inp = case.inp
    if not isinstance(inp, dict) or inp.get("fn") != "project_grid":
        return None
    if inp.get("part") == "range" and inp.get("method") == "cubic" and inp.get("antialias") is True:
        return F7_KEY
    if (inp.get("part") == "reproduction" and inp.get("method") in ("linear", "cubic") and inp.get("antialias") is False
            and str(inp.get("projection", "")).startswith("affine(") and inp.get("coord_to_step_ratio", 0) > 2.0 ** 17):
        return OFFSET_KEY
    if inp.get("part") == "inside" and inp.get("antialias") is True and inp.get("method") in ("linear", "cubic"):
        return SHRINK_KEY
    return None


def search(dis, tier, seed):
    return generate("thorough" if tier == "quick" else tier, seed + 1)
