"""C06 Chain / Vector / filter composition: real estimators run stand-alone on the threaded
arguments provide oracle tables; the model composes them; the composite is compared with the real Chain/Vector."""
import copy
import random
import warnings
import numpy as np
from sklearn.base import clone
from . import core, pylite_tie
from .core import Case, cD, clist, cbool, cN

obligations = pylite_tie.chain_obligations   # source-regenerated tie (harness/pylite_tie.py)
ID = "C06"
PROPS_FILE = "Props/C06.v"
IMPORTS = "From Verde Require Import Model.Chain Model.ChainCases."
SHARD = 40
RULE = ("random step lists of length 1..4 over {Trend(0..2), damped Spline, KNeighbors(k), BlockReduce(weighted average / max-weight pick), BlockMean, nested "
        "Chain, Vector (2-component data)} on random scattered data (8..30 points, scalar and 2-component, weighted or not); each step is "
        "cloned and run stand-alone on the arguments threaded to it (oracle tables: its predictions and its filter output), the model "
        "computes the composite, and the real Chain's prediction at a separate query set and at the data is compared; in-chain steps "
        "must predict bit-identically to the stand-alone clones (threading); all-gridder chains must telescope; BaseGridder.filter "
        "contract on every gridder; Vector components with different data/weights vs separately fitted components and a no-leak "
        "metamorphic variant; refitting a chain on new data vs a fresh chain. Non-trivial = chain with >= 2 steps or a Vector; distinct "
        "= distinct (steps, data seed).")
ASSUMPTIONS = [
    "the behaviour of each individual estimator (Trend, Spline, KNeighbors, BlockReduce, BlockMean) is an oracle here - it is the subject of C01-C03, C09, C10, C15; only the composition is modelled",
    "sklearn.base.clone returns an unfitted estimator with the same parameters",
    "identity of returned coordinates/weights objects and array shapes are observed in python and passed to Coq as booleans",
]
TRUSTED = ["harness/c06.py (threading of stand-alone clones, observation of predictions as exact dyadics)"]


def wavg(x, weights=None):
    "a reduction usable with and without weights"
    return np.average(x, weights=weights)


def wmax(x, weights=None):
    "value carrying the largest weight (the maximum value without weights)"
    x = np.asarray(x)
    return x[np.argmax(weights)] if weights is not None else np.max(x)


def comps(x):
    """tuple-or-array -> list of raveled float lists"""
    if not isinstance(x, tuple):
        x = (x,)
    return [[float(v) for v in np.asarray(c, dtype=float).ravel()] for c in x]


def cc(cs):
    return clist([clist([cD(v) for v in c]) for c in cs])


def make_step(rnd, vd, ncomp, depth=0):
    """returns (name, estimator, is_gridder)"""
    if ncomp == 1:
        kinds = ["trend", "spline", "spline_fc", "knn", "reduce", "blockmean"] + (["chain"] if depth == 0 else [])
    else:
        kinds = ["vector", "reduce", "vector"] + (["chain"] if depth == 0 else [])
    k = rnd.choice(kinds)
    if k == "trend":
        return "Trend(%d)" % (d := rnd.randint(0, 2)), vd.Trend(degree=d), True
    if k == "spline":
        dm = rnd.choice([1e-3, 1e-1, 1.0])
        return "Spline(damping=%g)" % dm, vd.Spline(damping=dm, mindist=rnd.choice([0.1, 1.0])), True
    if k == "spline_fc":
        # forces on a coarse grid (fewer than data): a least-squares fit with real residuals even when undamped
        dm = rnd.choice([None, 1e-2])
        fe, fn = np.meshgrid(np.linspace(0.5, 5.5, 3), np.linspace(-2.5, 2.5, 2))
        return ("Spline(damping=%r,force_coords=3x2 grid)" % dm,
                vd.Spline(damping=dm, mindist=1.0, force_coords=(fe.ravel(), fn.ravel())), True)
    if k == "knn":
        kk = rnd.randint(1, 2)   # never more neighbours than points can remain after a block reduction
        return "KNeighbors(%d)" % kk, vd.KNeighbors(k=kk), True
    if k == "reduce":
        red = rnd.choice([wavg, wmax])
        sp = rnd.choice([1.5, 1.2])
        return "BlockReduce(%s,%g)" % (red.__name__, sp), vd.BlockReduce(red, spacing=sp), False
    if k == "blockmean":
        sp = rnd.choice([1.5, 1.2])
        return "BlockMean(%g)" % sp, vd.BlockMean(spacing=sp), False
    if k == "vector":
        subs = [make_step(rnd, vd, 1, depth=1) for _ in range(ncomp)]
        subs = [s if s[2] else ("Trend(1)", vd.Trend(1), True) for s in subs]
        return "Vector[%s]" % ",".join(s[0] for s in subs), vd.Vector([s[1] for s in subs]), True
    if k == "chain":
        n = rnd.randint(1, 2)
        subs = [make_step(rnd, vd, ncomp, depth=1) for _ in range(n)]
        if not any(s[2] for s in subs):
            subs.append(make_step_gridder(rnd, vd, ncomp))
        return "Chain[%s]" % ",".join(s[0] for s in subs), vd.Chain([("s%d" % i, s[1]) for i, s in enumerate(subs)]), True
    raise AssertionError


def make_step_gridder(rnd, vd, ncomp):
    while True:
        s = make_step(rnd, vd, ncomp, depth=1)
        if s[2]:
            return s


def make_data(rnd, ncomp, weighted):
    n = rnd.randint(12, 30)
    rs = np.random.RandomState(rnd.randint(0, 2 ** 31 - 1))
    e = rs.uniform(0, 6, n)
    no = rs.uniform(-3, 3, n)
    data = tuple(rs.normal(0, 1, n) + (i + 1) * 0.3 * e - 0.2 * no for i in range(ncomp))
    weights = tuple(rs.uniform(0.5, 2.0, n) for _ in range(ncomp)) if weighted else None
    if ncomp == 1:
        data = data[0]
        weights = weights[0] if weighted else None
    q = (rs.uniform(0, 6, 6), rs.uniform(-3, 3, 6))
    return (e, no), data, weights, q


def chain_case(rnd, vd, kind, nsteps=None, all_gridders=False, steps=None, outside=False):
    """steps: a given step list (single component); outside: the query also has points outside the convex hull of
    the data, where Linear/Cubic steps predict NaN - the chain's sum must then be NaN exactly there (checked here, on
    the NaN masks) and the usual sum elsewhere (checked in Coq on the remaining positions)"""
    ncomp = rnd.choice([1, 1, 2]) if steps is None else 1
    weighted = rnd.random() < 0.5
    coords, data, weights, q = make_data(rnd, ncomp, weighted)
    if outside:
        q = (np.concatenate([q[0], [-5.0, 12.0, 3.0, 3.0]]), np.concatenate([q[1], [0.0, 0.0, -9.0, 9.0]]))
    if steps is None:
        nsteps = nsteps or rnd.randint(1, 4)
        steps = []
        for i in range(nsteps):
            s = make_step_gridder(rnd, vd, ncomp) if all_gridders else make_step(rnd, vd, ncomp)
            steps.append(s)
    nsteps = len(steps)
    names = [s[0] for s in steps]
    # step labels: unique, or deliberately repeated (the steps are a LIST of pairs; nothing requires unique names)
    labels = ["s%d" % i for i in range(len(steps))]
    if len(steps) >= 2 and rnd.random() < 0.35:
        labels = [rnd.choice(["a", "b"]) for _ in steps]
    chain = vd.Chain(list(zip(labels, [s[1] for s in steps])))
    if ncomp == 1 and rnd.random() < 0.4 and len(coords[0]) % 2 == 0:
        # gridded (2-D) inputs in assorted memory layouts: nothing may depend on the layout
        n2 = len(coords[0]) // 2
        coords = tuple(core.relayout(c.reshape(2, n2), rnd) for c in coords)
        data = core.relayout(np.asarray(data).reshape(2, n2), rnd)
        weights = None if weights is None else core.relayout(np.asarray(weights).reshape(2, n2), rnd)
    with warnings.catch_warnings():
        warnings.simplefilter("ignore")
        # oracle: stand-alone clones on the threaded arguments
        args = (coords, data, weights)
        tables = []
        for name, est, is_g in steps:
            cl = clone(est)
            out = cl.filter(*args)
            same = True
            if is_g:
                w_in = args[2] if len(args) > 2 else None
                w_out = out[2] if len(out) > 2 else None
                tup = lambda x: x if isinstance(x, tuple) else (x,)
                same = (len(out[0]) == len(args[0])
                        and all(np.shape(a) == np.shape(b) and np.array_equal(a, b) for a, b in zip(out[0], args[0]))
                        and ((w_out is None and w_in is None) or
                             (w_out is not None and w_in is not None and len(tup(w_out)) == len(tup(w_in)) and
                              all((a is None and b is None) or (a is not None and b is not None and np.array_equal(a, b))
                                  for a, b in zip(tup(w_out), tup(w_in)))))
                        and [np.shape(x) for x in tup(out[1])] == [np.shape(x) for x in tup(args[1])])
            t = {"g": is_g, "fdata": comps(out[1]), "same": bool(same)}
            if is_g:
                t["pq"] = comps(cl.predict(q))
                t["pc"] = comps(cl.predict(args[0]))
            else:
                t["pq"] = []
                t["pc"] = []
            tables.append(t)
            args = out
        chain.fit(coords, data, weights)
        try:
            obs_q = comps(chain.predict(q))
        except Exception as exc:
            obs_q = None
        for (name, est, is_g), t in zip(steps, tables):
            t["rq"] = comps(est.predict(q)) if is_g else []
        allg = all(s[2] for s in steps)
        obs_c = comps(chain.predict(coords)) if (allg and obs_q is not None) else []
    nan_note = None
    if outside:
        isn = lambda cs: [any(c[i] != c[i] for c in cs) for i in range(len(cs[0]))] if cs else []
        at_data = [t["pc"] for t in tables] + [t["fdata"] for t in tables] + [obs_c]
        if obs_q is None or any(v != v for cs in at_data for c in cs for v in c):
            return Case({"steps": names}, {}, "Vskip", "# skipped: non-finite value at the data points", kind + "-skipped")
        expected = [False] * len(q[0])
        for t in tables:
            if t["g"]:
                expected = [a or b for a, b in zip(expected, isn(t["rq"]))]
        observed = isn(obs_q)
        nan_note = {"expected_nan": expected, "observed_nan": observed}
        if expected != observed:
            return Case({"steps": names, "query_east": [float(v) for v in q[0]], "query_north": [float(v) for v in q[1]], **nan_note},
                        {"chain_prediction_at_query": obs_q}, "mk_verdict false false",
                        "# Chain(%s): the prediction must be NaN exactly where a step predicts NaN (sum of the steps); "
                        "see harness/c06.py chain_case(outside=True)" % names, kind)
        keep = [i for i in range(len(expected)) if not expected[i] and not any(t2["g"] and any(c[i] != c[i] for c in t2["pq"]) for t2 in tables)]
        sel = lambda cs: [[c[i] for i in keep] for c in cs]
        for t in tables:
            if t["g"]:
                t["pq"] = sel(t["pq"])
                t["rq"] = sel(t["rq"])
        obs_q = sel(obs_q)
    csteps = clist(["{| so_gridder := %s; so_pq := %s; so_pc := %s; so_fdata := %s; so_rq := %s; so_same_cw := %s |}" % (
        cbool(t["g"]), cc(t["pq"]), cc(t["pc"]), cc(t["fdata"]), cc(t["rq"]), cbool(t["same"])) for t in tables])
    cobs = "None" if obs_q is None else "(Some %s)" % cc(obs_q)
    term = "c06_chain %s %s %s %s" % (cc(comps(data)), csteps, cobs, cc(obs_c))
    return Case({"steps": names, "labels": labels, "n_points": int(np.size(coords[0])), "data_shape": list(np.shape(data if ncomp == 1 else data[0])),
                 "components": ncomp, "weighted": weighted},
                {"chain_prediction_at_query": obs_q}, term,
                "# Chain(%s) fitted on %d random points; see harness/c06.py chain_case" % (names, len(coords[0])),
                kind, nontrivial=nsteps >= 2)


def filter_case(rnd, vd, kind):
    ncomp = 1
    shape2d = rnd.random() < 0.5
    coords, data, weights, q = make_data(rnd, ncomp, rnd.random() < 0.5)
    if shape2d and len(data) % 2 == 0:
        n = len(data)
        coords = tuple(core.relayout(c.reshape(2, n // 2), rnd) for c in coords)
        data = core.relayout(data.reshape(2, n // 2), rnd)
        weights = None if weights is None else core.relayout(weights.reshape(2, n // 2), rnd)
    name, est, _ = make_step_gridder(rnd, vd, 1)
    with warnings.catch_warnings():
        warnings.simplefilter("ignore")
        out = est.filter(coords, data, weights)
        pred = est.predict(coords)
    same_c = out[0] is coords or all(np.array_equal(a, b) for a, b in zip(out[0], coords))
    same_w = (out[2] is weights) or (weights is not None and np.array_equal(out[2], weights))
    same_s = np.shape(out[1]) == np.shape(data)
    term = "c06_filter %s %s %s %s %s %s" % (cc(comps(data)), cc(comps(pred)), cc(comps(out[1])), cbool(same_c), cbool(same_w), cbool(same_s))
    return Case({"estimator": name, "data_shape": list(np.shape(data))}, {"residual": comps(out[1])}, term,
                "# %s.filter on random data; see harness/c06.py filter_case" % name, kind)


def vector_case(rnd, vd, kind):
    ncomp = rnd.choice([2, 2, 3])
    coords, data, weights, q = make_data(rnd, ncomp, True)
    subs = [make_step_gridder(rnd, vd, 1) for _ in range(ncomp)]
    if rnd.random() < 0.35:
        # fitted WITHOUT weights: every component must get weights=None (a component whose reduction takes no
        # weights argument, np.median, fails or behaves differently if weights are invented for it)
        subs[0] = ("Chain[BlockReduce(median,1.5),Trend(1)]",
                   vd.Chain([("r", vd.BlockReduce(np.median, spacing=1.5)), ("t", vd.Trend(1))]), True)
        names = [s[0] for s in subs]
        with warnings.catch_warnings():
            warnings.simplefilter("ignore")
            vec = vd.Vector([clone(s[1]) for s in subs]).fit(coords, data)
            pv = comps(vec.predict(q))
            sep = [comps(clone(s[1]).fit(coords, data[i], None).predict(q))[0] for i, s in enumerate(subs)]
            keep = rnd.randrange(ncomp)
            d2 = tuple(d if i == keep else d[::-1] * 2.0 for i, d in enumerate(data))
            pv2 = comps(vd.Vector([clone(s[1]) for s in subs]).fit(coords, d2).predict(q))
        term = "c06_vector %s %s %s %s" % (cc(pv), cc(sep), cc(pv2), cN(keep))
        return Case({"components": names, "n_points": len(coords[0]), "kept_component": keep, "weights": None}, {"vector_prediction": pv}, term,
                    "# Vector(%s) fitted without weights; see harness/c06.py vector_case" % names, kind + "-no-weights")
    names = [s[0] for s in subs]
    if all(not nm.startswith("Chain") for nm in names) and rnd.random() < 0.6:
        # exact zero weights, at DIFFERENT points in each component (a zero weight in one component must not
        # remove the point from the others)
        n_ = len(coords[0])
        weights = tuple(w.copy() for w in weights)
        for i, w in enumerate(weights):
            for j in rnd.sample(range(n_), 3):
                w[j] = 0.0
        kind = kind + "-zero-weights"
    with warnings.catch_warnings():
        warnings.simplefilter("ignore")
        vec = vd.Vector([clone(s[1]) for s in subs]).fit(coords, data, weights)
        pv = comps(vec.predict(q))
        sep = [comps(clone(s[1]).fit(coords, data[i], weights[i]).predict(q))[0] for i, s in enumerate(subs)]
        keep = rnd.randrange(ncomp)
        rs = np.random.RandomState(rnd.randint(0, 10 ** 6))
        d2 = tuple(d if i == keep else d[::-1] * 2.0 + rs.normal(0, 1, d.size) for i, d in enumerate(data))
        w2 = tuple(w if i == keep else w[::-1] * 3.0 for i, w in enumerate(weights))
        pv2 = comps(vd.Vector([clone(s[1]) for s in subs]).fit(coords, d2, w2).predict(q))
    term = "c06_vector %s %s %s %s" % (cc(pv), cc(sep), cc(pv2), cN(keep))
    return Case({"components": names, "n_points": len(coords[0]), "kept_component": keep}, {"vector_prediction": pv}, term,
                "# Vector(%s); see harness/c06.py vector_case" % names, kind)


def refit_case(rnd, vd, kind):
    ncomp = 1
    steps = [make_step(rnd, vd, ncomp) for _ in range(rnd.randint(1, 3))]
    if not any(s[2] for s in steps):
        steps.append(make_step_gridder(rnd, vd, ncomp))
    names = [s[0] for s in steps]
    c1, d1, w1, q = make_data(rnd, ncomp, True)
    c2, d2, w2, _ = make_data(rnd, ncomp, False)
    with warnings.catch_warnings():
        warnings.simplefilter("ignore")
        chain = vd.Chain([("s%d" % i, s[1]) for i, s in enumerate(steps)])
        chain.fit(c1, d1, w1)
        chain.fit(c2, d2, w2)
        fresh = vd.Chain([("s%d" % i, clone(s[1])) for i, s in enumerate(steps)]).fit(c2, d2, w2)
        a = comps(chain.predict(q))
        b = comps(fresh.predict(q))
    term = "c06_refit %s %s" % (cc(a), cc(b))
    return Case({"steps": names, "refit": True}, {"refit_prediction": a}, term, "# refit %s; see harness/c06.py refit_case" % names, kind)


def generate(tier, seed):
    import verde as vd
    rnd = random.Random(seed)
    n = 1 if tier == "quick" else 8
    cases = []
    for i in range(40 * n):
        cases.append(core.guarded(lambda: chain_case(rnd, vd, "chain-mixed"), {"fn": "chain_case"}, "chain_case"))
    for i in range(25 * n):
        cases.append(core.guarded(lambda: chain_case(rnd, vd, "chain-gridders", nsteps=rnd.randint(2, 4), all_gridders=True), {"fn": "chain_case"}, "chain_case"))
    for i in range(10 * n):
        def nan_steps():
            first = rnd.choice([("Trend(1)", vd.Trend(1), True), ("Spline(damping=0.1)", vd.Spline(damping=0.1, mindist=1.0), True),
                                ("BlockMean(1.2)", vd.BlockMean(spacing=1.2), False)])
            hull = rnd.choice([("Linear()", vd.Linear(), True), ("Cubic()", vd.Cubic(), True)])
            st = [first, hull] if rnd.random() < 0.6 else [hull, first if first[2] else ("Trend(0)", vd.Trend(0), True)]
            if rnd.random() < 0.4:
                st.append(("KNeighbors(1)", vd.KNeighbors(k=1), True))
            return st
        cases.append(core.guarded(lambda: chain_case(rnd, vd, "chain-nan-outside-hull", steps=nan_steps(), outside=True),
                                  {"fn": "chain_case"}, "chain_case"))
    for i in range(20 * n):
        cases.append(core.guarded(lambda: filter_case(rnd, vd, "filter"), {"fn": "filter_case"}, "filter_case"))
    for i in range(20 * n):
        cases.append(core.guarded(lambda: vector_case(rnd, vd, "vector"), {"fn": "vector_case"}, "vector_case"))
    for i in range(12 * n):
        cases.append(core.guarded(lambda: refit_case(rnd, vd, "refit"), {"fn": "refit_case"}, "refit_case"))
    return cases


def search(dis, tier, seed):
    return generate("thorough", seed + 1)
