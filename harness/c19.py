"""C19 load_surfer: generated Surfer ASCII grid files (valid, threshold, whitespace/number-format
variants, wrapped layouts, every single header corruption, garbage), loaded by the real
verde.load_surfer from a path and from an open file object; the tokenised file, the token
conversions and the observation go to Coq (Model/Surfer.v, c19_case)."""
import builtins
import io
import math
import os
import random

import numpy as np

from . import core, pylite_tie
from .core import Case, cZ, cD, clist, cstr, cbool

ID = "C19"
obligations = pylite_tie.surfer_obligations   # source-regenerated tie (harness/pylite_tie.py, pylite_surfer.v.tmpl)
PROPS_FILE = "Props/C19.v"
IMPORTS = "From Verde Require Import Model.Surfer."
SHARD = 40
RULE = ("Surfer ASCII grid files written to build/C19/files and read by the real load_surfer, each from a path and "
        "from an open file object, dtype float64/float32 alternating. Streams: valid (shapes 2x2..12x12, regions of any "
        "sign/magnitude/orientation, values of any magnitude/sign/repeats, blank patterns, %g/%r/%.3f/%e/+ formats, "
        "any whitespace incl. TAB/VT/FF/FS..US, blank lines, comments, missing final newline); threshold (tokens at and "
        "one ulp around 1.70141e38 in both dtypes); layout (exhaustive: every shape 2..4 x 2..4(5) written k values per "
        "line for every k, plus transposed and Surfer-style ragged wraps); corrupt (every single header corruption: "
        "counts swapped / every other factorisation of rows x columns (product preserving, on non-square bodies) /+-1/0/negative/missing/extra/non-integer, data range swapped/shifted inside and outside the "
        "allclose band/one-sided/including blanks/1 or 3 tokens, region lines swapped/short/long, header lines swapped "
        "or dropped); garbage (bad tokens, ragged rows, empty/short files, 1-row/1-column/single-value bodies, "
        "nan/inf tokens, all-blank grids, missing path, closed file object). The path is given in every legitimate "
        "spelling in turn (absolute, relative, ./x, a//b, a/./b, a/../a/b, mixed) as a str and as a pathlib.Path, and "
        "every attribute of the returned DataArray is compared (attrs keys in order, file value AND type, gridID, name, "
        "dims, dtype): attrs['file'] must be the given object, a str character by character. Stream rewrite: the SAME path "
        "is loaded with content A, overwritten with B (another grid of the same / another shape, corrupted counts, wrong "
        "range, garbage, or unchanged with the first result modified in place) and loaded again: the observed second "
        "result must be B's grid or B's refusal. Non-trivial = the file was accepted and a "
        "grid returned; distinct = distinct (file text, dtype, call mode).")
ASSUMPTIONS = [
    "conversion of a single token to a number is an oracle: Python int()/float() for the header, float() (then "
    "numpy.float32() for dtype float32, the double rounding loadtxt performs) for the body; ASCII files, '\\n' line ends",
    "numpy.loadtxt is modelled by its specification: '#' comments stripped, lines without tokens skipped, ragged rows "
    "ValueError, result squeezed; numpy.ma min/max of the unmasked cells; xarray fills masked cells with NaN",
    "numpy.allclose is evaluated exactly in dyadic arithmetic; cases whose two sides agree to 2^-30 are excluded as ties",
    "numpy.linspace is a + i*(b-a)/(n-1) to 2^-40 of the range ends; header regions are finite and |b-a| does not overflow",
]
TRUSTED = ["python harness harness/c19.py (file generator, tokenisation used only to build the oracle tables, "
           "tracking of open() and /proc/self/fd, verdict parsing)"]

FILES = os.path.join(core.BUILD, "C19", "files")
THR = 1.70141e38
THR32 = float(np.float32(1.70141e38))

WS = [" ", " ", " ", "  ", "\t", " \t", "\t\t ", "   ", "\x0b", "\x0c", "\x1c", "\x1f ", " \x1d\x1e"]


# ---------------------------------------------------------------------------
# Coq literals
# ---------------------------------------------------------------------------
def cstr_safe(s):
    """Coq string; non-printable characters via [ch n]"""
    parts = []
    cur = ""
    for c in s:
        o = ord(c)
        if 32 <= o < 127:
            cur += c
        else:
            if cur:
                parts.append(cstr(cur))
                cur = ""
            parts.append("ch %d" % o)
    if cur or not parts:
        parts.append(cstr(cur))
    if len(parts) == 1 and not parts[0].startswith("ch"):
        return parts[0]
    return "(" + " ++ ".join(parts) + ")%string"


def cnum(x):
    x = float(x)
    if math.isnan(x):
        return "NaN"
    if math.isinf(x):
        return "PInf" if x > 0 else "NInf"
    return "(Fin %s)" % cD(x)


def cDsafe(x):
    x = float(x)
    if not math.isfinite(x):
        x = 8.98e307
    return cD(x)


def copt(x, f):
    return "None" if x is None else "(Some %s)" % f(x)


# ---------------------------------------------------------------------------
# token oracles (single-token conversions)
# ---------------------------------------------------------------------------
def py_int(tok):
    try:
        return int(tok)
    except ValueError:
        return None


def py_float(tok):
    try:
        return float(tok)
    except ValueError:
        return None


def body_conv(tok, dtype):
    v = py_float(tok)
    if v is None or "_" in tok:
        return None
    if dtype == "float32":
        with np.errstate(over="ignore"):
            v = float(np.float32(v))
    return v


def is_blank(v, dtype):
    return v >= (THR32 if dtype == "float32" else THR)


# ---------------------------------------------------------------------------
# running the implementation
# ---------------------------------------------------------------------------
class _Tracker:
    """records the file objects obtained through builtins.open / io.open (pathlib) for one file"""

    def __init__(self, path):
        self.path = None if path is None else os.path.realpath(path)
        self.files = []
        self.orig = builtins.open
        self.orig_io = io.open

    def __enter__(self):
        def tracking_open(file, *a, **k):
            f = self.orig(file, *a, **k)
            try:
                if (self.path is not None and isinstance(file, (str, os.PathLike))
                        and os.path.realpath(os.fspath(file)) == self.path):
                    self.files.append(f)
            except Exception:
                pass
            return f
        builtins.open = tracking_open
        io.open = tracking_open
        return self

    def __exit__(self, *exc):
        builtins.open = self.orig
        io.open = self.orig_io


def _nfd():
    return len(os.listdir("/proc/self/fd"))


SPELLINGS = ["abs", "rel", "dot-rel", "abs-dslash", "abs-dot", "abs-dotdot", "rel-dslash", "rel-dot",
             "rel-dotdot", "dot-mix"]


def spell(kind, path, cwd=None):
    """a legitimate spelling of the existing file [path] (absolute), relative ones w.r.t. cwd"""
    cwd = cwd or os.getcwd()
    d, name = os.path.split(path)
    reld = os.path.relpath(d, cwd)
    base = os.path.basename(d)
    return {
        "abs": path,
        "rel": os.path.join(reld, name),
        "dot-rel": "./" + os.path.join(reld, name),
        "abs-dslash": d + "//" + name,
        "abs-dot": d + "/./" + name,
        "abs-dotdot": d + "/../" + base + "/" + name,
        "rel-dslash": reld + "//" + name,
        "rel-dot": reld + "/./" + name,
        "rel-dotdot": reld + "/../" + base + "/" + name,
        "dot-mix": "./" + reld + "/.//" + name,
    }[kind]


def observe(vd_load, path, mode, dtype, spelling="abs"):
    """mode: 'path' | 'pathobj' | 'missing' | 'file' | 'closedfile'; [spelling] of the path for the first two.
    returns dict; out['given'] is the string given (str(Path) for 'pathobj')"""
    import pathlib
    fobj = None
    arg = path
    given = None
    if mode == "missing":
        arg = given = path + ".does-not-exist"
    elif mode == "path":
        arg = given = spell(spelling, path)
    elif mode == "pathobj":
        arg = pathlib.Path(spell(spelling, path))
        given = str(arg)
    elif mode in ("file", "closedfile"):
        fobj = open(path, "r")
        if mode == "closedfile":
            fobj.close()
        arg = fobj
    res = None
    exc = None
    before = _nfd()
    with _Tracker(path if mode in ("path", "pathobj") else None) as tr:
        try:
            res = vd_load(arg, dtype=dtype)
        except BaseException as e:  # noqa: B902  (the traceback keeps the frame and its file alive)
            exc = e
    after = _nfd()
    leak = max(0, after - before) + sum(1 for f in tr.files if not f.closed)
    out = {"leak": leak, "given_closed": None if fobj is None else bool(fobj.closed), "given": given}
    if exc is not None:
        if isinstance(exc, OSError):
            cls = "EIO"
        elif isinstance(exc, ValueError):
            cls = "EValue"
        elif isinstance(exc, IndexError):
            cls = "EIndex"
        else:
            cls = "EOther"
        out["error"] = cls
        out["error_type"] = type(exc).__name__
        out["message"] = str(exc)[:120]
    else:
        vals = np.asarray(res.values)
        out["ok"] = True
        out["dtype"] = str(vals.dtype)
        out["values"] = [[float(x) for x in row] for row in vals] if vals.ndim == 2 else []
        out["dims"] = [str(d) for d in res.dims]
        try:
            out["northing"] = [float(x) for x in np.asarray(res.coords["northing"].values).ravel()]
            out["easting"] = [float(x) for x in np.asarray(res.coords["easting"].values).ravel()]
        except Exception:
            out["northing"], out["easting"] = [], []
        gid = res.attrs.get("gridID", "<<missing>>")
        out["gridID"] = gid if isinstance(gid, str) else "<<not a str>>"
        # every attribute: keys in order, the [file] value with its type, the DataArray's name
        out["attr_keys"] = [str(k) for k in res.attrs]
        fa = res.attrs.get("file")
        if fa is None:
            out["file"] = None
        elif type(fa) is str:
            out["file"] = ["str", fa]
        elif isinstance(fa, os.PathLike):
            out["file"] = ["path", str(fa)]
        else:
            out["file"] = ["str", "<<%s>>" % type(fa).__name__]
        out["name"] = None if getattr(res, "name", None) is None else str(res.name)
    del exc
    if fobj is not None:
        fobj.close()
    return out


def _json_vals(out):
    o = dict(out)
    if "values" in o:
        o["values"] = [[None if v != v else (repr(v)) for v in r] for r in o["values"]]
    return o


# ---------------------------------------------------------------------------
# one case
# ---------------------------------------------------------------------------
_counter = [0]


def cfattr(fa):
    return "(%s %s)" % ("FStr" if fa[0] == "str" else "FPathObj", cstr_safe(fa[1]))


def make_case(vd_load, text, mode, dtype, kind, spelling="abs", before=None, mutate_first=False):
    """[before]: content the SAME path had when it was loaded once already (same argument, same dtype)
    before being overwritten with [text]; [mutate_first]: the first result is modified in place (and kept
    alive) before the observed call."""
    import pathlib
    os.makedirs(FILES, exist_ok=True)
    _counter[0] += 1
    path = os.path.join(FILES, "c%06d.grd" % _counter[0])
    first = None
    if before is not None:
        with open(path, "w", newline="") as f:
            f.write(before)
        a0 = spell(spelling, path) if mode in ("path", "pathobj") else path
        if mode == "pathobj":
            a0 = pathlib.Path(a0)
        try:
            first = vd_load(a0, dtype=dtype)
            if mutate_first:
                first.values[...] = -777.0
                first.attrs["gridID"] = "mutated"
                first.attrs["file"] = "mutated"
                first.coords["northing"].values[...] = 0.0
        except Exception:
            first = None
    with open(path, "w", newline="") as f:
        f.write(text)
    out = observe(vd_load, path, mode, dtype, spelling)
    del first
    lines = text.split("\n")
    # oracle tables: tokens as Python sees them
    toks = [ln.split() for ln in lines]
    tint = {}
    for t in (toks[1] if len(toks) > 1 else []):
        tint[t] = py_int(t)
    tflt = {}
    for ln in toks[2:5]:
        for t in ln:
            tflt[t] = py_float(t)
    tval = {}
    for ln in lines[5:]:
        for t in ln.split("#")[0].split():
            tval[t] = body_conv(t, dtype)
    c_lines = clist([cstr_safe(ln) for ln in lines])
    c_tint = clist(["(%s, %s)" % (cstr_safe(t), copt(v, cZ)) for t, v in tint.items()])
    c_tflt = clist(["(%s, %s)" % (cstr_safe(t), copt(v, cnum)) for t, v in tflt.items()])
    c_tval = clist(["(%s, %s)" % (cstr_safe(t), copt(v, cnum)) for t, v in tval.items()])
    c_dt = "F32" if dtype == "float32" else "F64"
    if mode in ("path", "missing"):
        c_src = "(CPath %s %s)" % (cstr_safe(out["given"]), cbool(mode == "path"))
    elif mode == "pathobj":
        c_src = "(CPathObj %s true)" % cstr_safe(out["given"])
    else:
        c_src = "(CFile %s)" % cbool(mode == "closedfile")
    if "error" in out:
        c_res = "(OErr %s)" % out["error"]
    else:
        odt = out["dtype"]
        if odt == dtype:
            c_odt = c_dt
        else:  # anything but the requested dtype
            c_odt = "F64" if c_dt == "F32" else "F32"
        c_res = ("(OOk {| og_vals := %s; og_north := %s; og_east := %s; og_id := %s; og_file := %s; "
                 "og_attr_keys := %s; og_name := %s; og_dims := %s; og_dtype := %s |})") % (
            clist([clist([cnum(v) for v in row]) for row in out["values"]]),
            clist([cDsafe(v) for v in out["northing"]]),
            clist([cDsafe(v) for v in out["easting"]]),
            cstr_safe(out["gridID"]), copt(out["file"], cfattr),
            clist([cstr_safe(k) for k in out["attr_keys"]]), copt(out["name"], cstr_safe),
            clist([cstr_safe(d) for d in out["dims"]]), c_odt)
    c_obs = "{| ob_res := %s; ob_leak := %s; ob_given_closed := %s |}" % (
        c_res, cZ(out["leak"]), copt(out["given_closed"], cbool))
    term = "c19_case %s %s %s %s %s %s %s" % (c_lines, c_tint, c_tflt, c_tval, c_dt, c_src, c_obs)
    rp = os.path.join(FILES, "replay.grd")
    cwd = os.getcwd()
    repro = ("import os, pathlib, verde; os.chdir(%r); p = %r; os.makedirs(os.path.dirname(p), exist_ok=True); "
             % (cwd, rp))
    if before is not None:
        a0 = repr(spell(spelling, rp, cwd))
        if mode == "pathobj":
            a0 = "pathlib.Path(%s)" % a0
        repro += ("open(p, 'w', newline='').write(%r); first = None\ntry:\n    first = verde.load_surfer(%s, dtype=%r)\n"
                  "except Exception as e:\n    print('first load:', type(e).__name__)\n" % (before, a0, dtype))
        if mutate_first:
            repro += "first.values[...] = -777.0; first.attrs['gridID'] = 'mutated'\n"
    repro += "open(p, 'w', newline='').write(%r); " % text
    show = "print(g); print(g.attrs, g.name)"
    if mode == "missing":
        repro += "g = verde.load_surfer(p + '.does-not-exist', dtype=%r); %s" % (dtype, show)
    elif mode == "path":
        repro += "g = verde.load_surfer(%r, dtype=%r); %s" % (spell(spelling, rp, cwd), dtype, show)
    elif mode == "pathobj":
        repro += "g = verde.load_surfer(pathlib.Path(%r), dtype=%r); %s" % (spell(spelling, rp, cwd), dtype, show)
    else:
        repro += "f = open(p); %sg = verde.load_surfer(f, dtype=%r); %s" % ("f.close(); " if mode == "closedfile" else "", dtype, show)
    inp = {"text": text, "dtype": dtype, "call": mode, "spelling": spelling if mode in ("path", "pathobj") else None,
           "given": out["given"]}
    if before is not None:
        inp["same_path_loaded_before_with_content"] = before
        inp["first_result_modified_in_place"] = bool(mutate_first)
    return Case(inp, _json_vals(out), term, repro, kind, nontrivial=("ok" in out))


# ---------------------------------------------------------------------------
# file generator
# ---------------------------------------------------------------------------
class Spec:
    """tokens of a file and how to lay them out"""

    def __init__(self):
        self.id_line = "DSAA"
        self.shape = []        # tokens
        self.sn = []
        self.we = []
        self.rng = []
        self.rows = []         # list of list of tokens
        self.sep = lambda rnd: " "
        self.lead = lambda rnd: ""
        self.trail = lambda rnd: ""
        self.blank_lines = 0.0
        self.final_newline = True
        self.comments = False

    def copy(self):
        s = Spec()
        s.__dict__.update(self.__dict__)
        s.shape, s.sn, s.we, s.rng = list(self.shape), list(self.sn), list(self.we), list(self.rng)
        s.rows = [list(r) for r in self.rows]
        return s

    def render(self, rnd, header_lines=None):
        def ln(tokens):
            out = self.lead(rnd)
            for i, t in enumerate(tokens):
                if i:
                    out += self.sep(rnd)
                out += t
            return out + self.trail(rnd)
        if header_lines is None:
            header_lines = [self.id_line, ln(self.shape), ln(self.sn), ln(self.we), ln(self.rng)]
        lines = list(header_lines)
        for r in self.rows:
            if self.blank_lines and rnd.random() < self.blank_lines:
                lines.append(rnd.choice(["", " ", "\t ", "# a comment" if self.comments else ""]))
            body = ln(r)
            if self.comments and rnd.random() < 0.3:
                body += " # row"
            lines.append(body)
        if self.blank_lines and rnd.random() < 0.5:
            lines.append(rnd.choice(["", "  "]))
        text = "\n".join(lines)
        if self.final_newline:
            text += "\n"
        return text

    def header(self, rnd):
        return self.render(rnd).split("\n")[:5]


FMTS = ["%r", "%r", "%.10g", "%g", "%.3f", "%e", "%+g", "%.6E", "%+.4e", "%.12g"]


def fmt_num(rnd, x, fmt=None):
    fmt = fmt or rnd.choice(FMTS)
    if fmt == "%.3f" and abs(x) > 1e15:
        fmt = "%r"
    if fmt == "%d":
        return "%d" % int(x)
    return fmt % x


BLANK_TOKENS = ["1.70141e38", "1.70141e+38", "1.70141E+38", "1.70141e+038", "1.70141e38", "1.70141e38",
                "170141000000000000000000000000000000000", "1.70141001e38", "1.71e38", "2e38", "3.4e38",
                "1.70142e38", "1.8e38"]
BLANK_TOKENS_BIG = ["1e39", "3.5e38", "1e300"]      # overflow to inf in float32
# (token, blank in float64, blank in float32)
EDGE_TOKENS = [
    ("1.70141e38", True, True),
    ("1.7014099999999998e+38", False, True),      # the double just below the threshold; rounds up in float32
    ("1.701409999e38", False, True),
    ("1.70140995e38", False, False),
    ("1.7014099e38", False, False),
    ("1.7014e38", False, False),
    ("1.7e38", False, False),
    ("1.7014100091878576e+38", True, True),       # float32(1.70141e38) exactly
    ("1.7014100000000002e+38", True, True),       # the double just above
    ("1.70141000918e38", True, True),
    ("1.5e38", False, False),
    ("-1.70141e38", False, False),
    ("-3e38", False, False),
]


def gen_values(rnd, nr, nc, dtype, style):
    """tokens for an nr x nc body; guarantees at least one unmasked cell"""
    rows = []
    pool = []
    for i in range(nr):
        row = []
        for j in range(nc):
            u = rnd.random()
            if style == "ints":
                x = float(rnd.randint(-20, 20))
                tok = fmt_num(rnd, x, rnd.choice(["%d", "%g", "%.3f", "%+g", "%r"]))
            elif style == "repeat" and pool and u < 0.6:
                tok = rnd.choice(pool)
            elif style == "huge":
                x = rnd.uniform(-1, 1) * 10.0 ** rnd.randint(20, 37 if dtype == "float32" else 200)
                tok = fmt_num(rnd, x, rnd.choice(["%r", "%g", "%e", "%.10g", "%+.4e"]))
            elif style == "tiny":
                x = rnd.uniform(-1, 1) * 10.0 ** rnd.randint(-30, -6)
                tok = fmt_num(rnd, x, rnd.choice(["%r", "%g", "%e", "%.10g"]))
            elif style == "mixed":
                x = rnd.uniform(-1, 1) * 10.0 ** rnd.randint(-12, 30)
                tok = fmt_num(rnd, x, rnd.choice(["%r", "%g", "%e", "%.10g", "%+g"]))
            else:
                x = rnd.uniform(-1000, 1000)
                tok = fmt_num(rnd, x)
            pool.append(tok)
            row.append(tok)
        rows.append(row)
    return rows


def put_blanks(rnd, rows, dtype, pattern, edge=False):
    nr, nc = len(rows), len(rows[0])
    cells = [(i, j) for i in range(nr) for j in range(nc)]
    if pattern == "none":
        chosen = []
    elif pattern == "one":
        chosen = [rnd.choice(cells)]
    elif pattern == "corner":
        chosen = [(0, 0), (nr - 1, nc - 1)]
    elif pattern == "row":
        i = rnd.randrange(nr)
        chosen = [(i, j) for j in range(nc)]
    elif pattern == "col":
        j = rnd.randrange(nc)
        chosen = [(i, j) for i in range(nr)]
    elif pattern == "most":
        chosen = rnd.sample(cells, len(cells) - 1)
    else:
        chosen = [c for c in cells if rnd.random() < 0.3]
    if len(chosen) >= len(cells):
        chosen = chosen[:-1]
    for (i, j) in chosen:
        if edge:
            rows[i][j] = rnd.choice(EDGE_TOKENS)[0]
        else:
            pool = BLANK_TOKENS + (BLANK_TOKENS_BIG if rnd.random() < 0.2 else [])
            rows[i][j] = rnd.choice(pool)
    return rows


def data_range(rows, dtype):
    vals = [body_conv(t, dtype) for r in rows for t in r]
    vals = [v for v in vals if v is not None and not is_blank(v, dtype) and v == v]
    if not vals:
        return None
    return min(vals), max(vals)


def gen_region(rnd):
    k = rnd.randrange(8)
    if k == 0:
        a, b = sorted(rnd.sample(range(-90, 91), 2))
        c, d = sorted(rnd.sample(range(-180, 361), 2))
        return float(a), float(b), float(c), float(d)
    if k == 1:      # large projected coordinates
        a = rnd.uniform(1e5, 9e6)
        c = rnd.uniform(-9e6, 9e6)
        return a, a + rnd.uniform(1, 1e5), c, c + rnd.uniform(1, 1e5)
    if k == 2:      # tiny extent far from the origin
        a = rnd.uniform(-1e6, 1e6)
        c = rnd.uniform(-1e6, 1e6)
        return a, a + rnd.uniform(1e-3, 1), c, c + rnd.uniform(1e-3, 1)
    if k == 3:      # reversed / degenerate
        a, b = rnd.uniform(-50, 50), rnd.uniform(-50, 50)
        c = rnd.uniform(-50, 50)
        return max(a, b), min(a, b), c, c
    if k == 4:      # huge / tiny magnitudes
        m = 10.0 ** rnd.randint(-20, 40)
        return -m * rnd.random(), m * rnd.random(), m * rnd.uniform(1, 2), m * rnd.uniform(2, 3)
    if k == 5:      # same range on both axes would hide a swap: make them very different
        return 0.0, 1.0, 1000.0, 2000.0
    a, b = sorted([rnd.uniform(-1000, 1000), rnd.uniform(-1000, 1000)])
    c, d = sorted([rnd.uniform(-1000, 1000), rnd.uniform(-1000, 1000)])
    return a, b, c, d


def gen_ws(rnd, spec, level):
    if level == 0:
        return
    if level == 1:
        spec.sep = lambda r: r.choice([" ", "  ", "\t"])
        spec.trail = lambda r: r.choice(["", " ", ""])
    else:
        spec.sep = lambda r: r.choice(WS)
        spec.lead = lambda r: r.choice(["", "", " ", "\t", "  \x0c"])
        spec.trail = lambda r: r.choice(["", "", " ", "\t ", " \x0b"])
        spec.blank_lines = 0.3
        spec.comments = rnd.random() < 0.3
        spec.final_newline = rnd.random() < 0.7
        spec.id_line = rnd.choice(["DSAA", " DSAA", "DSAA \t", "  DS AA  ", "DSAA-v7 (x y)", "", "\tdsaa\x0c"])


def valid_spec(rnd, dtype, nr=None, nc=None, style=None, pattern=None, ws=None, edge=False):
    nr = nr or rnd.choice([2, 2, 3, 3, 4, 5, 6, 7, 9, 12])
    nc = nc or rnd.choice([2, 3, 3, 4, 5, 6, 8, 10, 12])
    style = style or rnd.choice(["ints", "repeat", "huge", "tiny", "mixed", "plain", "plain"])
    pattern = pattern or rnd.choice(["none", "none", "one", "corner", "row", "col", "most", "some", "some"])
    spec = Spec()
    gen_ws(rnd, spec, rnd.choice([0, 1, 2, 2]) if ws is None else ws)
    rows = gen_values(rnd, nr, nc, dtype, style)
    rows = put_blanks(rnd, rows, dtype, pattern, edge=edge)
    dr = data_range(rows, dtype)
    if dr is None:       # every cell happened to be blank: unblank one
        rows[0][0] = "1.5"
        dr = data_range(rows, dtype)
    s, n, w, e = gen_region(rnd)
    spec.shape = [rnd.choice(["%d", "%d", "%d", "+%d", "0%d"]) % nr, "%d" % nc]
    spec.sn = [fmt_num(rnd, s, rnd.choice(["%r", "%.10g", "%g", "%.3f", "%e"])),
               fmt_num(rnd, n, rnd.choice(["%r", "%.10g", "%g", "%.3f", "%e"]))]
    spec.we = [fmt_num(rnd, w, rnd.choice(["%r", "%.10g", "%g", "%.3f"])),
               fmt_num(rnd, e, rnd.choice(["%r", "%.10g", "%g", "%+.8e"]))]
    spec.rng = [fmt_num(rnd, dr[0], rnd.choice(["%r", "%.10g", "%.9e"])),
                fmt_num(rnd, dr[1], rnd.choice(["%r", "%.10g", "%.9e"]))]
    spec.rows = rows
    spec.dr = dr
    spec.nr, spec.nc = nr, nc
    return spec


def corruptions(rnd, spec, dtype):
    """every single header corruption of a valid file: (name, text)"""
    out = []
    nr, nc = spec.nr, spec.nc
    lo, hi = spec.dr

    def with_(**kw):
        s = spec.copy()
        for k, v in kw.items():
            setattr(s, k, v)
        return s.render(rnd)
    # counts
    out.append(("counts-swapped", with_(shape=["%d" % nc, "%d" % nr])))
    out.append(("nrows+1", with_(shape=["%d" % (nr + 1), "%d" % nc])))
    out.append(("nrows-1", with_(shape=["%d" % (nr - 1), "%d" % nc])))
    out.append(("ncols+1", with_(shape=["%d" % nr, "%d" % (nc + 1)])))
    out.append(("ncols-1", with_(shape=["%d" % nr, "%d" % (nc - 1)])))
    # product-preserving: every other factorisation a x b of the number of values (the body has the
    # right number of values but its lines are not the header's grid rows)
    N = nr * nc
    for a in range(1, N + 1):
        if N % a == 0 and (a, N // a) != (nr, nc) and (a, N // a) != (nc, nr):
            out.append(("counts-factor", with_(shape=["%d" % a, "%d" % (N // a)])))
    out.append(("counts-zero", with_(shape=["0", "%d" % nc])))
    out.append(("counts-negative", with_(shape=["-%d" % nr, "%d" % nc])))
    out.append(("counts-one", with_(shape=["%d" % nr])))
    out.append(("counts-three", with_(shape=["%d" % nr, "%d" % nc, "1"])))
    out.append(("counts-float", with_(shape=["%d.0" % nr, "%d" % nc])))
    out.append(("counts-empty", with_(shape=[])))
    # data range
    scale = max(abs(lo), abs(hi), 1e-3)
    out.append(("range-swapped", with_(rng=[spec.rng[1], spec.rng[0]])))
    out.append(("range-lo-inside", with_(rng=["%r" % (lo - 4e-6 * abs(lo)), spec.rng[1]])))
    out.append(("range-hi-inside", with_(rng=[spec.rng[0], "%r" % (hi + 4e-6 * abs(hi))])))
    out.append(("range-lo-outside", with_(rng=["%r" % (lo - 3e-5 * scale - 3e-8), spec.rng[1]])))
    out.append(("range-hi-outside", with_(rng=[spec.rng[0], "%r" % (hi + 3e-5 * scale + 3e-8)])))
    out.append(("range-shifted", with_(rng=["%r" % (lo + 1e-3 * scale), "%r" % (hi + 1e-3 * scale)])))
    out.append(("range-hi-wider", with_(rng=[spec.rng[0], "%r" % (hi + 0.5 * scale)])))
    out.append(("range-lo-lower", with_(rng=["%r" % (lo - 0.5 * scale), spec.rng[1]])))
    out.append(("range-with-blanks", with_(rng=[spec.rng[0], "1.70141e38"])))
    out.append(("range-one-token", with_(rng=[spec.rng[0]])))
    out.append(("range-three-tokens", with_(rng=spec.rng + [spec.rng[1]])))
    out.append(("range-empty", with_(rng=[])))
    out.append(("range-zero", with_(rng=["0", "0"])))
    # region
    out.append(("region-lines-swapped", with_(sn=spec.we, we=spec.sn)))
    out.append(("south-north-swapped", with_(sn=[spec.sn[1], spec.sn[0]])))
    out.append(("region-short", with_(sn=[spec.sn[0]])))
    out.append(("region-long", with_(we=spec.we + ["0"])))
    out.append(("region-bad-token", with_(we=[spec.we[0], "east"])))
    # lines
    h = spec.header(rnd)
    for (i, j) in [(0, 1), (1, 2), (2, 3), (3, 4), (1, 4)]:
        hh = list(h)
        hh[i], hh[j] = hh[j], hh[i]
        out.append(("lines-%d-%d-swapped" % (i, j), spec.render(rnd, header_lines=hh)))
    for i in range(5):
        hh = list(h)
        del hh[i]
        out.append(("line-%d-dropped" % i, spec.render(rnd, header_lines=hh)))
    hh = list(h)
    hh.insert(1, "")
    out.append(("blank-line-in-header", spec.render(rnd, header_lines=hh)))
    hh = list(h)
    hh.insert(rnd.randint(1, 4), h[rnd.randint(1, 4)])
    out.append(("line-duplicated", spec.render(rnd, header_lines=hh)))
    return out


def layouts(rnd, spec, ks):
    """the same values written k per line"""
    flat = [t for r in spec.rows for t in r]
    out = []
    for k in ks:
        s = spec.copy()
        s.rows = [flat[i:i + k] for i in range(0, len(flat), k)]
        out.append(("wrap-%d" % k, s.render(rnd)))
    # transposed body
    s = spec.copy()
    s.rows = [[spec.rows[i][j] for i in range(spec.nr)] for j in range(spec.nc)]
    out.append(("transposed", s.render(rnd)))
    # Surfer style: each grid row wrapped at w values, blank line between grid rows
    for w in (2, 10):
        s = spec.copy()
        s.rows = []
        for r in spec.rows:
            s.rows += [r[i:i + w] for i in range(0, len(r), w)]
        out.append(("rowwrap-%d" % w, s.render(rnd)))
    return out


def garbage(rnd, dtype):
    out = []
    H = "DSAA\n2 3\n0 1\n0 2\n"
    out.append(("empty-file", ""))
    out.append(("id-only", "DSAA\n"))
    out.append(("header-only", H + "1 6\n"))
    out.append(("header-only-zero", "DSAA\n0\n0 1\n0 2\n1 6\n"))
    out.append(("bad-token", H + "1 6\n1 2 3\n4 5 x\n"))
    out.append(("bad-token-comma", H + "1 6\n1,2,3\n4,5,6\n"))
    out.append(("bad-token-2", H + "1 6\n1 2 3\n4 5 6-\n"))
    out.append(("ragged-short", H + "1 6\n1 2 3\n4 5\n"))
    out.append(("ragged-long", H + "1 6\n1 2 3\n4 5 6 6\n"))
    out.append(("ragged-first", H + "1 6\n1 2\n3 4 5 6\n"))
    out.append(("one-row", "DSAA\n1 3\n0 1\n0 2\n1 3\n1 2 3\n"))
    out.append(("one-row-1d-header", "DSAA\n3\n0 1\n0 2\n1 3\n1 2 3\n"))
    out.append(("one-col", "DSAA\n3 1\n0 1\n0 2\n1 3\n1\n2\n3\n"))
    out.append(("one-col-1d-header", "DSAA\n3\n0 1\n0 2\n1 3\n1\n2\n3\n"))
    out.append(("single-value", "DSAA\n1 1\n0 1\n0 2\n1 1\n1\n"))
    out.append(("single-value-0d-header", "DSAA\n\n0 1\n0 2\n1 1\n1\n"))
    out.append(("nan-token", H + "1 6\n1 2 3\n4 nan 6\n"))
    out.append(("nan-token-range", H + "nan nan\n1 2 3\n4 nan 6\n"))
    out.append(("inf-token", H + "1 5\n1 2 3\n4 5 inf\n"))
    out.append(("neg-inf-token", H + "-inf 6\n-inf 2 3\n4 5 6\n"))
    out.append(("neg-inf-token-bad-range", H + "2 6\n-inf 2 3\n4 5 6\n"))
    out.append(("overflow-token", H + "1 5\n1 2 3\n4 5 1e999\n"))
    out.append(("all-blank", H + "1.70141e38 1.70141e38\n1.70141e38 1.70141e38 1.70141e38\n1.70141e38 1.70141e38 1.70141e38\n"))
    out.append(("all-blank-zero-range", H + "0 0\n2e38 2e38 2e38\n2e38 2e38 2e38\n"))
    out.append(("all-blank-3-range", H + "0 0 0\n2e38 2e38 2e38\n2e38 2e38 2e38\n"))
    out.append(("comment-only-body", H + "1 6\n# 1 2 3\n# 4 5 6\n"))
    out.append(("comment-cuts-row", H + "1 6\n1 2 3\n4 5 # 6\n"))
    out.append(("comment-in-header", "DSAA\n2 3 # shape\n0 1\n0 2\n1 6\n1 2 3\n4 5 6\n"))
    out.append(("extra-row", H + "1 6\n1 2 3\n4 5 6\n1 2 3\n"))
    out.append(("extra-blank-row", H + "1 6\n1 2 3\n4 5 6\n2e38 2e38 2e38\n"))
    out.append(("float-count", "DSAA\n2.0 3\n0 1\n0 2\n1 6\n1 2 3\n4 5 6\n"))
    out.append(("underscore-count", "DSAA\n2 0_3\n0 1\n0 2\n1 6\n1 2 3\n4 5 6\n"))
    out.append(("min-equals-max", H + "7 7\n7 7 7\n7.0 +7 7e0\n"))
    out.append(("atol-only", H + "0 6\n1e-9 2 3\n4 5 6\n"))
    out.append(("atol-exceeded", H + "0 6\n3e-8 2 3\n4 5 6\n"))
    out.append(("range-single-constant", H + "1\n1 1 1\n1 1 1\n"))
    return out


# ---------------------------------------------------------------------------
def generate(tier, seed):
    import verde
    vd_load = verde.load_surfer
    rnd = random.Random(seed)
    quick = tier == "quick"
    cases = []
    _counter[0] = 0
    if os.path.isdir(FILES):
        for fn in os.listdir(FILES):
            if fn.endswith(".grd") and fn.startswith("c"):
                os.unlink(os.path.join(FILES, fn))
    flip = [0]

    def both(text, kind, dtype=None, modes=("path", "file")):
        flip[0] += 1
        dt = dtype or ("float64" if flip[0] % 2 else "float32")
        sp = SPELLINGS[(flip[0] * 7) % len(SPELLINGS)]       # every spelling of the path, in turn
        if flip[0] % 6 == 0:
            modes = tuple("pathobj" if m == "path" else m for m in modes)
        for m in modes:
            cases.append(make_case(vd_load, text, m, dt, kind, spelling=sp))

    # 1. valid files
    n_valid = 100 if quick else 1100
    for i in range(n_valid):
        dt = "float64" if i % 2 == 0 else "float32"
        big = (i % 10 == 0)
        spec = valid_spec(rnd, dt, nr=12 if big else None, nc=rnd.choice([11, 12]) if big else None)
        both(spec.render(rnd), "valid", dt)
    # 2. threshold
    n_thr = 40 if quick else 300
    for i in range(n_thr):
        dt = "float64" if i % 2 == 0 else "float32"
        spec = valid_spec(rnd, dt, nr=rnd.choice([2, 3]), nc=rnd.choice([2, 3, 4]),
                          style=rnd.choice(["ints", "huge"]), pattern=rnd.choice(["one", "some", "most", "corner"]),
                          ws=rnd.choice([0, 1]), edge=True)
        both(spec.render(rnd), "threshold", dt, modes=("path",) if i % 3 else ("path", "file"))
    for (tok, b64, b32) in EDGE_TOKENS:
        for dt in ("float64", "float32"):
            blank = b32 if dt == "float32" else b64
            v = body_conv(tok, dt)
            hi = 6.0 if blank else max(6.0, v)
            lo = 1.0 if blank else min(1.0, v)
            text = "DSAA\n2 3\n0 1\n0 2\n%r %r\n1 2 3\n%s 5 6\n" % (lo, hi, tok)
            both(text, "threshold-exhaustive", dt, modes=("path",))
    # 3. layouts: exhaustive over small shapes
    shapes = [(r, c) for r in range(2, 5) for c in range(2, (5 if quick else 6))]
    for (r, c) in shapes:
        dt = "float64" if (r + c) % 2 else "float32"
        spec = valid_spec(rnd, dt, nr=r, nc=c, style="ints", pattern=rnd.choice(["none", "one"]), ws=rnd.choice([0, 1]))
        for name, text in layouts(rnd, spec, range(1, r * c + 1)):
            both(text, "layout", dt, modes=("path",) if quick else ("path", "file"))
    for i in range(8 if quick else 60):
        dt = "float64" if i % 2 else "float32"
        spec = valid_spec(rnd, dt)
        ks = sorted(set([1, spec.nc, spec.nr, spec.nr * spec.nc, 10, rnd.randint(1, spec.nr * spec.nc)]))
        for name, text in layouts(rnd, spec, ks):
            both(text, "layout", dt, modes=("file",) if i % 2 else ("path",))
    # 4. header corruptions
    n_cor = 5 if quick else 45
    for i in range(n_cor):
        dt = "float64" if i % 2 == 0 else "float32"
        if i == 0:
            bnr, bnc = 2, 6                                  # 12 values: 6x2, 3x4, 4x3, 12x1, 1x12
        elif i == 1:
            bnr, bnc = 4, 3
        else:
            bnr = rnd.choice([2, 3, 4, 5])
            bnc = rnd.choice([c for c in (2, 3, 4, 6) if c != bnr])   # non-square: swapped counts must be refused
        spec = valid_spec(rnd, dt, nr=bnr, nc=bnc,
                          pattern=rnd.choice(["none", "one", "some", "row"]), ws=rnd.choice([0, 1, 2]))
        if i % 3 == 2:
            spec = valid_spec(rnd, dt, nr=3, nc=3, ws=0)     # square: swapped counts / transposes load
        for name, text in corruptions(rnd, spec, dt):
            both(text, "corrupt", dt, modes=("path",) if (quick or i % 2) else ("path", "file"))
    # 5. garbage and call modes
    for name, text in garbage(rnd, None):
        both(text, "garbage", None, modes=("path", "file"))
    # 6. every spelling of the path x str / pathlib.Path, accepted and refused files
    sp_ok = "DSAA\n3 4\n10.0 30.0\n-5.0 2.5\n-7.5 120.25\n1.5 2.5 -7.5 4\n5 6 1.70141e38 8\n9 120.25 11 12\n"
    sp_bad = "DSAA\n3 4\n10.0 30.0\n-5.0 2.5\n-7.5 121\n1.5 2.5 -7.5 4\n5 6 1.70141e38 8\n9 120.25 11 12\n"
    for k, sp in enumerate(SPELLINGS):
        for m in ("path", "pathobj"):
            cases.append(make_case(vd_load, sp_ok, m, "float64" if k % 2 else "float32", "spelling", spelling=sp))
            cases.append(make_case(vd_load, sp_bad, m, "float32" if k % 2 else "float64", "spelling", spelling=sp))
    # 7. same path, new content: the path is loaded once with content A, overwritten with B, loaded again -
    #    the result must be B's grid / B's refusal (never A's); same unchanged path twice with the first
    #    result modified in place in between
    n_rw = 2 if quick else 25
    for i in range(n_rw):
        for dt in ("float64", "float32"):
            a = valid_spec(rnd, dt, nr=rnd.choice([2, 3, 4]), nc=rnd.choice([2, 3, 5]), ws=rnd.choice([0, 1]))
            b_same = valid_spec(rnd, dt, nr=a.nr, nc=a.nc, ws=rnd.choice([0, 1]))
            b_other = valid_spec(rnd, dt, nr=a.nr + 1, nc=a.nc + 2, ws=rnd.choice([0, 1]))
            b_same.id_line, b_other.id_line = "DSAB", "OTHER"
            ta = a.render(rnd)
            cor = dict(corruptions(rnd, a, dt))
            pairs = [("other-grid-same-shape", ta, b_same.render(rnd), False),
                     ("other-grid-other-shape", ta, b_other.render(rnd), False),
                     ("now-counts-swapped", ta, cor["counts-swapped" if a.nr != a.nc else "nrows+1"], False),
                     ("now-range-wrong", ta, cor["range-hi-wider"], False),
                     ("now-garbage", ta, "DSAA\n", False),
                     ("was-refused-now-valid", cor["range-shifted"], ta, False),
                     ("unchanged-twice", ta, ta, False),
                     ("unchanged-first-result-modified", ta, ta, True)]
            for k, (name, t0, t1, mut) in enumerate(pairs):
                sp = SPELLINGS[(i + k) % len(SPELLINGS)]
                m = "pathobj" if (i + k + (dt == "float32")) % 3 == 0 else "path"
                cases.append(make_case(vd_load, t1, m, dt, "rewrite", spelling=sp, before=t0, mutate_first=mut))
                if k < 4 and i == 0:
                    cases.append(make_case(vd_load, t1, "file", dt, "rewrite"))
    ok_text = "DSAA\n2 3\n0 1\n0 2\n1 6\n1 2 3\n4 5 6\n"
    bad_text = "DSAA\n2 3\n0 1\n0 2\n1 7\n1 2 3\n4 5 6\n"
    for dt in ("float64", "float32"):
        cases.append(make_case(vd_load, ok_text, "missing", dt, "call-mode"))
        cases.append(make_case(vd_load, ok_text, "closedfile", dt, "call-mode"))
        cases.append(make_case(vd_load, bad_text, "closedfile", dt, "call-mode"))
    return cases


def search(dis, tier, seed):
    return generate("thorough", seed + 1)
