"""C12 scores come from clones fitted on the training rows only, with the stated metric.

Oracle-table style: for every split the harness fits an independent clone on the training rows
(selected with its own indexing code) and predicts at the test rows; Coq computes the metric in
exact rationals from (test data, test weights, that prediction) and compares it with what
verde.cross_val_score / .score / SplineCV returned."""
import copy
import random
import warnings
import numpy as np
from . import core, pylite_tie
from .core import Case, cD, clist, cbool, cN, cpair

obligations = pylite_tie.c12_obligations   # source-regenerated ties (harness/pylite_tie.py, pylite_score.v.tmpl)
ID = "C12"
PROPS_FILE = "Props/C12.v"
IMPORTS = "From Verde Require Import Model.Scoring Model.ScoringCases."
SHARD = 40
RULE = ("cross_val_score: random scattered datasets (14..34 points, scalar or 2-component with Vector estimators, weighted or not) x estimator "
        "{Trend, damped Spline, KNeighbors, Chain, Vector} x cross-validator {default, KFold, ShuffleSplit (with and without unused rows), BlockKFold, "
        "BlockShuffleSplit} x scorer {default R2, 'r2', neg MSE, neg MAE, a callable}; per split an independent clone is fitted on the training rows "
        "and its prediction at the test rows goes to Coq, where the metric is computed in Q; serial scores must equal it, be bit-identical to "
        "delayed=True under the synchronous and threaded schedulers and to the delayed objects computed one by one in shuffled order, be "
        "bit-identical when rows outside train+test are perturbed, and the estimator passed in must keep its parameters and stay unfitted. "
        "About 40% of the cross_val_score / score cases and half of the train_test_split cases hand verde non-square 2-D grids in which every "
        "coordinate, data component and weight component independently has its own MEMORY layout (C, Fortran, transposed view of a transposed "
        "copy, strided view) with the same logical element sequence, while the oracle uses the logical C-order rows; one cross-validator instance "
        "is reused for two consecutive cross_val_score calls (bit-identical). "
        "Another ~30% of those cases hand verde 1-D containers: each coordinate, data and weight array independently a numpy array or a pandas "
        "Series whose integer index is permuted, shifted to start at 100, or both (label and position disagree), coordinates in a list or a "
        "tuple, a single component bare or in a 1-tuple; the oracle uses the positional order of the values. An exception raised by verde on an "
        "input the oracle handles is a violating case. "
        "score/score_estimator on held-out rows incl. constant data. train_test_split: arrays of distinct values (1-D and 2-D shaped), "
        "with/without weights, 1..3 components, random and blocked (spacing/shape): complementary, aligned, whole blocks. SplineCV: grids with a "
        "unique best, duplicate candidates and exact ties between different candidates (mindist below every distance), weights, scorers, "
        "delayed and the deprecated client= path (stand-in client, non-default scorers, data with outliers), every SplineCV built with the constructor options that must reach both the candidates and the final model (force_coords = None or a coarse grid of fewer forces than data, given 2-D or raveled; engine auto/numpy; cv; scoring; delayed): chosen parameters = first arg-max of scores_, scores_ = means of independent cross_val_score runs, prediction and force_ bit-identical "
        "to an independently built Spline(best, same force_coords and engine) fitted to all rows (serial and delayed), force_/force_coords_ of the expected sizes, final Spline object carrying the requested options. Non-trivial = imperfect fit (score != 1/0); distinct = distinct configuration and data seed.")
ASSUMPTIONS = [
    "the individual estimators (Trend, Spline, KNeighbors, Chain, Vector) are oracles: fit/predict of an independent sklearn.base.clone on the training rows is taken as the reference (their own correctness is C01-C03, C06, C09, C10)",
    "the cross-validators are oracles: the (train, test) index lists are obtained by calling cv.split again with the same random_state (their own properties are C11)",
    "scikit-learn's r2 / mean_squared_error / mean_absolute_error are modelled by their textbook weighted formulas (r2 with force_finite; fewer than 2 test rows gives NaN and is not generated)",
    "dask schedulers are modelled as executing pure tasks in an arbitrary order (and, for the heap model, arbitrary interleavings of fit and score steps)",
    "estimator untouched is observed in python: get_params(deep) repr and the set of instance attributes of the estimator and of every nested step/component, before and after",
]
TRUSTED = ["harness/c12.py (independent selection of rows and fitting of clones, observation of scores and predictions as exact dyadics, "
           "snapshot of estimator attributes, dask.compute under named schedulers)"]

METRICS = {None: 0, "r2": 0, "neg_mean_squared_error": 1, "neg_mean_absolute_error": 2, "callable": 3}


def neg_wmax_scorer(estimator, X, y, sample_weight=None):  # noqa: N803
    "a callable scorer: minus the largest (weighted) absolute error"
    err = np.abs(np.asarray(y) - np.asarray(estimator.predict(X)))
    if sample_weight is not None:
        err = err * np.asarray(sample_weight)
    return -float(np.max(err))


def cDt(t):
    return clist([clist([cD(v) for v in np.asarray(c, dtype=float).ravel()]) for c in t])


def cDl(l):
    return clist([cD(v) for v in np.asarray(l, dtype=float).ravel()])


def cNl(l):
    return clist([cN(i) for i in l])


def copt_t(t):
    return "None" if t is None else "(Some %s)" % cDt(t)


def as_tuple(x):
    return x if isinstance(x, tuple) else (x,)


# ---------------------------------------------------------------------------
def scalar_estimator(rnd, vd, allow_chain=True):
    k = rnd.choice(["trend", "spline", "knn", "chain"] if allow_chain else ["trend", "spline", "knn"])
    if k == "trend":
        d = rnd.randint(0, 2)
        return "Trend(%d)" % d, vd.Trend(degree=d)
    if k == "spline":
        dm = rnd.choice([1e-3, 1e-2, 1e-1, 1.0])
        md = rnd.choice([1e-5, 0.1, 1.0])
        return "Spline(damping=%g,mindist=%g)" % (dm, md), vd.Spline(damping=dm, mindist=md)
    if k == "knn":
        kk = rnd.randint(1, 3)
        return "KNeighbors(%d)" % kk, vd.KNeighbors(k=kk)
    a = scalar_estimator(rnd, vd, False)
    b = scalar_estimator(rnd, vd, False)
    return "Chain[%s,%s]" % (a[0], b[0]), vd.Chain([("a", a[1]), ("b", b[1])])


def make_estimator(rnd, vd, ncomp):
    if ncomp == 1:
        return scalar_estimator(rnd, vd)
    subs = [scalar_estimator(rnd, vd) for _ in range(ncomp)]
    name, est = "Vector[%s]" % ",".join(s[0] for s in subs), vd.Vector([s[1] for s in subs])
    if rnd.random() < 0.3:
        t = vd.Vector([vd.Trend(1) for _ in range(ncomp)])
        return "Chain[Vector[Trend(1)..],%s]" % name, vd.Chain([("t", t), ("v", est)])
    return name, est


def make_data(rnd, ncomp, weighted, n=None):
    n = n or rnd.randint(14, 34)
    rs = np.random.RandomState(rnd.randint(0, 2 ** 31 - 1))
    e = rs.uniform(0, 6, n)
    no = rs.uniform(-3, 3, n)
    data = tuple(np.sin(e + i) * 2 + 0.5 * no * (i + 1) + 0.3 * e + rs.normal(0, 0.4, n) for i in range(ncomp))
    weights = tuple(rs.uniform(0.25, 4.0, n) for _ in range(ncomp)) if weighted else None
    # short dyadics (multiples of 2^-8): exact rational arithmetic in Coq stays cheap; predictions remain full floats
    data = tuple(np.round(d * 256) / 256 for d in data)
    weights = None if weights is None else tuple(np.round(w * 256) / 256 for w in weights)
    return (e, no), data, weights, rs


def make_cv(rnd, vd, n):
    """returns (name, factory) - the factory builds a fresh, identically seeded cross-validator"""
    from sklearn.model_selection import KFold, ShuffleSplit
    k = rnd.choice(["default", "kfold", "shuffle", "shuffle-slack", "blockkfold", "blockshuffle", "blockshuffle-slack"])
    seed = rnd.randint(0, 10 ** 6)
    if k == "default":
        return k, "None", lambda: None
    if k == "kfold":
        ns = rnd.randint(2, 5)
        sh = rnd.random() < 0.6
        return k, "KFold(%d,shuffle=%s,rs=%d)" % (ns, sh, seed), lambda: KFold(n_splits=ns, shuffle=sh, random_state=seed if sh else None)
    if k in ("shuffle", "shuffle-slack"):
        ns = rnd.randint(2, 4)
        ts = rnd.choice([0.2, 0.3, 0.4])
        tr = rnd.choice([0.4, 0.5]) if k == "shuffle-slack" else None
        return k, "ShuffleSplit(%d,test=%g,train=%s,rs=%d)" % (ns, ts, tr, seed), lambda: ShuffleSplit(n_splits=ns, test_size=ts, train_size=tr, random_state=seed)
    if k == "blockkfold":
        ns = rnd.randint(2, 3)
        sh = rnd.random() < 0.6
        kw = {"spacing": rnd.choice([1.5, 2.0])} if rnd.random() < 0.6 else {"shape": rnd.choice([(2, 2), (2, 3), (3, 2)])}
        return k, "BlockKFold(%s,%d,shuffle=%s,rs=%d)" % (kw, ns, sh, seed), lambda: vd.BlockKFold(n_splits=ns, shuffle=sh, random_state=seed if sh else None, **kw)
    ns = rnd.randint(2, 3)
    kw = {"spacing": rnd.choice([1.5, 2.0])} if rnd.random() < 0.6 else {"shape": rnd.choice([(2, 3), (3, 2), (3, 3)])}
    ts = rnd.choice([0.25, 0.4])
    tr = 0.4 if k == "blockshuffle-slack" else None
    return k, "BlockShuffleSplit(%s,%d,test=%g,train=%s,rs=%d)" % (kw, ns, ts, tr, seed), lambda: vd.BlockShuffleSplit(n_splits=ns, test_size=ts, train_size=tr, random_state=seed, **kw)


LAYOUTS = ("C", "F", "TT", "strided")
GRID_SHAPES = [(3, 5), (2, 7), (4, 6), (3, 7), (5, 6), (4, 7), (2, 9), (4, 8), (5, 7), (3, 6), (3, 8)]


def relayout(flat, shape, how):
    """the logical C-order sequence [flat] as a 2-D array of the given shape with a chosen MEMORY layout:
    C-contiguous, Fortran-contiguous, a transposed view of a transposed copy, or a strided view"""
    a = np.asarray(flat, dtype=float).reshape(shape)
    if how == "C":
        out = a.copy()
    elif how == "F":
        out = np.asfortranarray(a)
    elif how == "TT":
        out = np.ascontiguousarray(a.T).T
    else:
        big = np.full((shape[0], 2 * shape[1]), -777.0)
        big[:, ::2] = a
        out = big[:, ::2]
    assert out.shape == tuple(shape) and np.array_equal(np.ravel(out), np.ravel(a))
    return out


CONTAINERS = ("numpy", "series-permuted", "series-shifted", "series-permuted-shifted")


def recontain(flat, how, rs):
    """the same values in the same POSITIONAL order inside another container: a numpy array, or a pandas Series whose
    integer index is a permutation of 0..n-1 (a DataFrame column after sort_values / sample / concat), starts at 100,
    or both - label-based indexing of such a Series gives other rows than positional indexing"""
    import pandas as pd
    a = np.asarray(flat, dtype=float).copy()
    if how == "numpy":
        return a
    n = a.size
    index = np.arange(n)
    if "permuted" in how:
        while n > 1 and np.array_equal(index, np.arange(n)):
            index = rs.permutation(n)
    if "shifted" in how:
        index = index + 100
    out = pd.Series(a, index=index)
    assert np.array_equal(np.ravel(out), a)
    return out


class Presenter:
    """how a case hands its (logically 1-D) arrays to verde: unchanged; as 2-D grids in which every coordinate, data
    and weight array independently gets its own memory layout; or as 1-D containers in which each array independently
    is a numpy array or a pandas Series with a non-default integer index (coordinates in a list or a tuple,
    single components bare or in a 1-tuple)"""

    def __init__(self, rnd, shape, ncoord, ncomp, containers=False):
        self.shape = shape
        self.lay = None
        self.cont = None
        self.coords_as_list = False
        self.wrap1 = False
        if shape is not None:
            while True:
                self.lay = {"c": [rnd.choice(LAYOUTS) for _ in range(ncoord)],
                            "d": [rnd.choice(LAYOUTS) for _ in range(ncomp)],
                            "w": [rnd.choice(LAYOUTS) for _ in range(ncomp)]}
                flat = self.lay["c"] + self.lay["d"] + self.lay["w"]
                # at least one row-major and one column-major array, so that memory order and logical order differ
                if any(x in ("C", "strided") for x in flat) and any(x in ("F", "TT") for x in self.lay["d"] + self.lay["c"]):
                    break
        elif containers:
            self.rs = np.random.RandomState(rnd.randint(0, 2 ** 31 - 1))
            # half of the cases use permuted indexes only: every label exists, so label-based indexing would silently
            # return other rows; with a shifted index it would raise
            palette = CONTAINERS[:2] if rnd.random() < 0.5 else CONTAINERS
            while True:
                self.cont = {"c": [rnd.choice(palette) for _ in range(ncoord)],
                             "d": [rnd.choice(palette) for _ in range(ncomp)],
                             "w": [rnd.choice(palette) for _ in range(ncomp)]}
                # at least one Series with a permuted index among coordinates and data
                if any("permuted" in x for x in self.cont["c"] + self.cont["d"]):
                    break
            self.coords_as_list = rnd.random() < 0.4
            self.wrap1 = ncomp == 1 and rnd.random() < 0.3

    def __call__(self, group, arrs):
        if arrs is None:
            return arrs
        if self.shape is not None:
            return tuple(relayout(a, self.shape, self.lay[group][i]) for i, a in enumerate(arrs))
        if self.cont is not None:
            out = tuple(recontain(a, self.cont[group][i], self.rs) for i, a in enumerate(arrs))
            return list(out) if (group == "c" and self.coords_as_list) else out
        return arrs

    def single(self, t, ncomp):
        "data / weights argument: a tuple for several components; one component bare or (container variant) in a 1-tuple"
        if t is None:
            return None
        return t[0] if (ncomp == 1 and not self.wrap1) else t

    def describe(self):
        if self.shape is not None:
            return {"shape": list(self.shape), "layouts": self.lay}
        if self.cont is not None:
            return {"containers": self.cont, "coordinates_in": "list" if self.coords_as_list else "tuple", "single_component_in_1tuple": self.wrap1}
        return None

    def suffix(self):
        return "+grid" if self.shape is not None else ("+series" if self.cont is not None else "")

    def text(self):
        d = self.describe()
        return "" if d is None else " presented as %s" % d


def error_case(inp, exc, repro, kind):
    "verde raised on an input the oracle handles: reported as a violating case with the input as replay"
    inp = dict(inp, error="%s: %s" % (type(exc).__name__, exc))
    return Case(inp, {"raised": "%s: %s" % (type(exc).__name__, exc)}, "Vboth", repro, kind + "+error")


def snapshot(est):
    """parameters and instance attributes of an estimator and everything nested in it"""
    out = [type(est).__name__, sorted(vars(est).keys()), repr(sorted((k, repr(v)) for k, v in est.get_params(deep=True).items()))]
    for attr in ("steps", "components"):
        if hasattr(est, attr):
            for s in getattr(est, attr):
                out.append(snapshot(s[1] if isinstance(s, tuple) else s))
    return out


def pick(arrs, idx):
    "the harness's own row selection"
    return None if arrs is None else tuple(np.asarray(a).ravel()[np.asarray(idx, dtype=int)].copy() for a in arrs)


def unwrap(t, ncomp):
    return None if t is None else (t[0] if ncomp == 1 else t)


def cvs_case(rnd, vd, kind):
    import dask
    from sklearn.base import clone
    from sklearn.model_selection import KFold
    ncomp = rnd.choice([1, 1, 2])
    weighted = rnd.random() < 0.6
    scoring = rnd.choice([None, None, "r2", "neg_mean_squared_error", "neg_mean_absolute_error", "callable"])
    sc_arg = neg_wmax_scorer if scoring == "callable" else scoring
    mode = rnd.random()
    grid = rnd.choice(GRID_SHAPES) if mode < 0.35 else None
    for attempt in range(50):
        coords, data, weights, rs = make_data(rnd, ncomp, weighted, n=None if grid is None else grid[0] * grid[1])
        n = coords[0].size
        cvkind, cvname, cvf = make_cv(rnd, vd, n)
        fm = np.transpose([coords[0], coords[1]])
        cv0 = cvf() or KFold(shuffle=True, random_state=0, n_splits=5)
        try:
            with warnings.catch_warnings():
                warnings.simplefilter("ignore")
                splits = [(np.array(a), np.array(b)) for a, b in cv0.split(fm)]
        except ValueError:
            continue
        if all(len(te) >= 2 and len(tr) >= 8 for tr, te in splits):
            break
    else:
        raise RuntimeError("no usable split")
    name, est = make_estimator(rnd, vd, ncomp)
    pres = Presenter(rnd, grid, 2, ncomp, containers=0.35 <= mode < 0.65)
    # what verde is given: the same logical arrays, possibly as 2-D grids with mixed memory layouts or as pandas Series
    # with permuted / shifted integer indexes; the oracle below always works on the logical (positional, C-order) rows
    c_arg, d_arg, w_arg = pres("c", coords), pres.single(pres("d", data), ncomp), pres.single(pres("w", weights), ncomp)
    base_inp = {"estimator": name, "cv": cvname, "scoring": scoring, "n": n, "components": ncomp, "weighted": weighted, "presentation": pres.describe()}
    repro = "# verde.cross_val_score(%s, cv=%s, scoring=%s) on %d random points x %d components%s; see harness/c12.py cvs_case" % (
        name, cvname, scoring, n, ncomp, pres.text())
    before = snapshot(est)
    with warnings.catch_warnings():
        warnings.simplefilter("ignore")
        try:
            obs = vd.cross_val_score(est, c_arg, d_arg, w_arg, cv=cvf(), scoring=sc_arg)
        except Exception as exc:
            return error_case(base_inp, exc, repro, kind + ":" + cvkind + pres.suffix())
        is_array = isinstance(obs, np.ndarray)
        obs = [float(s) for s in obs]
        reruns = []
        errors = []
        # one cross-validator instance reused for two consecutive calls
        shared = cvf()
        if shared is not None:
            for _ in range(2):
                reruns.append([float(s) for s in vd.cross_val_score(est, c_arg, d_arg, w_arg, cv=shared, scoring=sc_arg)])
        for sched in ("synchronous", "threads"):
            dl = vd.cross_val_score(est, c_arg, d_arg, w_arg, cv=cvf(), scoring=sc_arg, delayed=True)
            try:
                reruns.append([float(s) for s in dask.compute(*dl, scheduler=sched)])
            except Exception as exc:  # a crash of the delayed path is a difference from the serial path
                reruns.append([])
                errors.append("%s: %s: %s" % (sched, type(exc).__name__, exc))
        dl = vd.cross_val_score(est, c_arg, d_arg, w_arg, cv=cvf(), scoring=sc_arg, delayed=True)
        order = list(range(len(dl)))
        rnd.shuffle(order)
        res = {}
        for k in order:
            try:
                res[k] = float(dl[k].compute(scheduler="synchronous"))
            except Exception as exc:
                errors.append("shuffled[%d]: %s: %s" % (k, type(exc).__name__, exc))
        shuffled = [res[k] for k in sorted(res)]
        after = snapshot(est)
        # the oracle: independent clones on the training rows
        sobs = []
        for tr, te in splits:
            cl = clone(est)
            cl.fit(pick(coords, tr), unwrap(pick(data, tr), ncomp), unwrap(pick(weights, tr), ncomp))
            pred = as_tuple(cl.predict(pick(coords, te)))
            sobs.append((tr, te, pred))
        # leakage probe: perturb the rows that are in neither train nor test of split k
        probe = list(obs)
        nprobe = 0
        for k, (tr, te) in enumerate(splits):
            slack = np.setdiff1d(np.arange(n), np.concatenate([tr, te]))
            if slack.size == 0 or len(splits) != len(obs):
                continue
            d2 = tuple(d.copy() for d in data)
            for d in d2:
                d[slack] = d[slack] * -3.0 + rs.normal(0, 5, slack.size)
            w2 = None if weights is None else tuple(w.copy() for w in weights)
            if w2 is not None:
                for w in w2:
                    w[slack] = w[slack] * 7.0 + 1.0
            c2 = coords
            if cvkind.startswith("shuffle"):
                c2 = tuple(c.copy() for c in coords)
                c2[0][slack] += rs.uniform(-1, 1, slack.size)
                c2[1][slack] -= rs.uniform(-1, 1, slack.size)
            probe[k] = float(vd.cross_val_score(est, pres("c", c2), pres.single(pres("d", d2), ncomp), pres.single(pres("w", w2), ncomp), cv=cvf(), scoring=sc_arg)[k])
            nprobe += 1
        reruns.append(probe)
    untouched = (before == after) and is_array
    csplits = clist(["{| sp_train := %s; sp_test := %s; sp_pred := %s |}" % (cNl(tr), cNl(te), cDt(p)) for tr, te, p in sobs])
    term = "c12_cvs %s %s %s %s %s %s %s %s %s %s" % (
        cN(n), cDt(data), copt_t(weights), cN(METRICS[scoring]), csplits, cDl(obs),
        clist([cDl(r) for r in reruns]), cNl(order), cDl(shuffled), cbool(untouched))
    inp = dict(base_inp, data_seed=int(rs.randint(0, 2 ** 31 - 1)), probed_splits=nprobe)
    trivial = all(abs(s - 1) < 1e-9 or abs(s) < 1e-12 for s in obs)
    return Case(inp, {"scores": obs, "delayed": reruns[:2], "shuffled_order": order, "untouched": untouched, "delayed_errors": errors}, term,
                repro, kind + ":" + cvkind + pres.suffix(), nontrivial=not trivial)


def score_case(rnd, vd, kind):
    from verde.base.utils import score_estimator
    ncomp = rnd.choice([1, 1, 2])
    weighted = rnd.random() < 0.6
    mode = rnd.random()
    grid = rnd.choice([(2, 3), (2, 4), (3, 4), (2, 5), (3, 5), (4, 3)]) if mode < 0.35 else None
    coords, data, weights, rs = make_data(rnd, ncomp, weighted, n=None if grid is None else rnd.randint(grid[0] * grid[1] + 10, 36))
    constant = kind == "score-constant"
    if constant:
        ncomp, weights, weighted = 1, None, False
        data = (np.full(coords[0].size, float(rnd.randint(-3, 3))),)
    n = coords[0].size
    idx = rs.permutation(n)
    nte = max(2, n // 3) if grid is None else grid[0] * grid[1]
    tr, te = np.sort(idx[: n - nte]), np.sort(idx[n - nte:])
    if constant:
        name, est = rnd.choice([("Trend(0)", vd.Trend(0)), ("KNeighbors(1)", vd.KNeighbors(1)), ("Trend(1)", vd.Trend(1))])
    else:
        name, est = make_estimator(rnd, vd, ncomp)
    scoring = rnd.choice([None, "r2", "neg_mean_squared_error", "neg_mean_absolute_error", "callable"])
    if constant:
        scoring = None
    with warnings.catch_warnings():
        warnings.simplefilter("ignore")
        est.fit(pick(coords, tr), unwrap(pick(data, tr), ncomp), unwrap(pick(weights, tr), ncomp))
        ct, dt, wt = pick(coords, te), pick(data, te), pick(weights, te)
        pred = as_tuple(est.predict(ct))
        # the held-out rows as given to verde: possibly 2-D grids with mixed memory layouts
        pres = Presenter(rnd, grid, 2, ncomp, containers=0.35 <= mode < 0.65)
        cg, dg, wg = pres("c", ct), pres.single(pres("d", dt), ncomp), pres.single(pres("w", wt), ncomp)
        inp = {"estimator": name, "scoring": scoring, "n_test": len(te), "components": ncomp, "weighted": weighted, "constant": constant,
               "data_seed": int(rs.randint(0, 2 ** 31 - 1)), "presentation": pres.describe()}
        repro = "# %s.score / score_estimator(%s) on held-out rows%s; see harness/c12.py score_case" % (name, scoring, pres.text())
        try:
            if scoring is None:
                obs = float(est.score(cg, dg, wg))
            else:
                obs = float(score_estimator(neg_wmax_scorer if scoring == "callable" else scoring, est, cg, dg, wg))
        except Exception as exc:
            return error_case(inp, exc, repro, kind + pres.suffix())
    term = "c12_score %s %s %s %s %s" % (cDt(dt), copt_t(wt), cDt(pred), cN(METRICS[scoring]), cD(obs))
    return Case(inp, {"score": obs}, term, repro, kind + pres.suffix(),
                nontrivial=not constant)


def tts_case(rnd, vd, kind):
    "configurations the splitters reject (too few blocks/rows for the requested sizes) are regenerated"
    while True:
        try:
            return _tts_case(rnd, vd, kind)
        except (ValueError, ZeroDivisionError):
            continue


def _tts_case(rnd, vd, kind):
    from sklearn.model_selection import ShuffleSplit
    blocked = kind == "tts-blocked"
    ncomp = rnd.choice([1, 2, 3])
    weighted = rnd.random() < 0.6
    mode = rnd.random()
    two_d = mode < 0.4
    ncoord = rnd.choice([2, 2, 3])
    if two_d:
        r, c = rnd.choice([(3, 4), (4, 5), (2, 6), (5, 5), (6, 3), (3, 7), (5, 4), (2, 9)])
        n = r * c
    else:
        n = rnd.randint(6, 30)
    rs = np.random.RandomState(rnd.randint(0, 2 ** 31 - 1))
    while True:
        arrs = [rs.uniform(0, 6, n), rs.uniform(-3, 3, n)] + [rs.uniform(0, 1, n) for _ in range(ncoord - 2 + ncomp)] + [rs.uniform(0.5, 2, n) for _ in range(ncomp)]
        if all(len(set(a.tolist())) == n for a in arrs):
            break
    coords = tuple(arrs[:ncoord])
    data = tuple(arrs[ncoord:ncoord + ncomp])
    weights = tuple(arrs[ncoord + ncomp:]) if weighted else None
    kw = {"random_state": rnd.randint(0, 10 ** 6)}
    if rnd.random() < 0.7:
        kw["test_size"] = rnd.choice([0.2, 0.25, 0.4, 0.5, 2, 3])
    bkw = {}
    if blocked:
        bkw = {"spacing": rnd.choice([1.0, 1.5, 2.0, (1.5, 2.0)])} if rnd.random() < 0.6 else {"shape": rnd.choice([(2, 2), (2, 3), (3, 3)])}
    shp = (r, c) if two_d else (n,)
    # 2-D inputs: every coordinate, data and weight grid independently gets its own memory layout; the row ids checked
    # in Coq are those of the logical (C-order raveled) sequence
    pres = Presenter(rnd, shp if two_d else None, ncoord, ncomp, containers=0.4 <= mode < 0.75)
    inp = {"n": n, "shape": list(shp), "presentation": pres.describe(), "components": ncomp, "coords": ncoord, "weighted": weighted,
           "kwargs": {**{k: str(v) for k, v in bkw.items()}, **kw}}
    repro = "# verde.train_test_split on %d points, %s %s%s; see harness/c12.py tts_case" % (n, bkw, kw, pres.text())
    with warnings.catch_warnings():
        warnings.simplefilter("ignore")
        # the oracle split first: configurations the splitters reject raise here and are regenerated by tts_case
        if blocked:
            next(vd.BlockShuffleSplit(n_splits=1, **bkw, **kw).split(np.transpose([coords[0], coords[1]])))
        else:
            next(ShuffleSplit(n_splits=1, **kw).split(np.arange(n)))
        try:
            train, test = vd.train_test_split(pres("c", coords), pres.single(pres("d", data), ncomp), pres.single(pres("w", weights), ncomp), **bkw, **kw)
        except Exception as exc:
            return error_case(inp, exc, repro, kind + pres.suffix())
        if blocked:
            fm = np.transpose([coords[0], coords[1]])
            split = next(vd.BlockShuffleSplit(n_splits=1, **bkw, **kw).split(fm))
            labels = [int(v) for v in vd.block_split((coords[0], coords[1]), region=None, adjust="spacing", **bkw)[1]]
        else:
            split = next(ShuffleSplit(n_splits=1, **kw).split(np.arange(n)))
            labels = None

    def cds(c, d, w):
        w = None if (w is None or any(x is None for x in w)) else w
        return cpair(cDt(c), cDt(d), copt_t(w))

    ok_shape = all(isinstance(t, tuple) and len(t) == 3 for t in (train, test))
    term = "c12_tts %s %s %s %s %s" % (cds(coords, data, weights), cpair(cNl(split[0]), cNl(split[1])),
                                      "None" if labels is None else "(Some %s)" % cNl(labels),
                                      cds(*train), cds(*test))
    if not ok_shape:
        term = "Vboth"
    return Case(inp, {"train_rows_coord0": [float(v) for v in np.asarray(train[0][0])], "test_rows_coord0": [float(v) for v in np.asarray(test[0][0])]},
                term, repro, kind + pres.suffix())


class _Future:
    def __init__(self, value):
        self.value = value

    def result(self):
        return self.value


class StandInClient:
    "stand-in for dask.distributed.Client: runs the submitted call at once and returns a future-like object"

    def submit(self, function, *args, **kwargs):
        return _Future(function(*args, **kwargs))


def splinecv_case(rnd, vd, kind):
    import dask  # noqa: F401
    from sklearn.model_selection import KFold, ShuffleSplit
    weighted = rnd.random() < 0.5
    coords, data, weights, rs = make_data(rnd, 1, weighted, n=rnd.randint(14, 26))
    n = coords[0].size
    data, weights = data[0], (weights[0] if weighted else None)
    client = kind == "splinecv-client"
    if client:
        # outliers make R2, MSE and MAE rank the candidates differently
        data = data.copy()
        data[::5] += np.round(rs.normal(0, 6, data[::5].size) * 256) / 256
    if kind in ("splinecv-unique", "splinecv-client", "splinecv-options"):
        mindists = rnd.choice([[0.5], [1e-5, 0.5], [0.1, 1.0]])
        dampings = rnd.sample([1e-4, 1e-2, 1.0, 100.0], rnd.randint(2, 3))
    elif kind == "splinecv-duplicates":
        md = rnd.choice([0.1, 0.5])
        mindists = [md, md] if rnd.random() < 0.5 else [md]
        dd = rnd.sample([1e-3, 1e-1, 10.0], 2)
        dampings = [dd[0], dd[1], dd[0], dd[1]] if rnd.random() < 0.5 else [dd[0], dd[0], dd[1]]
    else:
        # mindist is ADDED to every distance: values so small that they are absorbed (and whose square underflows on
        # the diagonal) give bit-identical scores for different candidates
        mindists = rnd.choice([[1e-200, 1e-180], [1e-180, 1e-200], [1e-190, 1e-200, 1e-180]])
        dampings = rnd.sample([1e-3, 1e-1, 10.0], 2)
    scoring = rnd.choice([None, None, "neg_mean_squared_error", "neg_mean_absolute_error"])
    if client:
        scoring = rnd.choice(["neg_mean_squared_error", "neg_mean_absolute_error", "neg_mean_absolute_error"])
        if kind == "splinecv-client" and len(dampings) < 4:
            dampings = [1e-4, 1e-2, 1.0, 100.0]
    seed = rnd.randint(0, 10 ** 6)
    cvf = rnd.choice([lambda: None, lambda: KFold(n_splits=3, shuffle=True, random_state=seed),
                      lambda: ShuffleSplit(n_splits=3, test_size=0.3, random_state=seed)])
    q = (rs.uniform(0, 6, 5), rs.uniform(-3, 3, 5))
    # constructor options that must reach BOTH the cross-validated candidates and the final model
    fshape = rnd.choice([None, None, (2, 3), (3, 3), (3, 4), (2, 5)])
    if kind == "splinecv-options" and fshape is None:
        fshape = rnd.choice([(2, 3), (3, 3), (3, 4)])
    if fshape is None:
        force_coords, nforce = None, n
    else:
        # a coarse grid of forces (fewer than data points, not on top of them), handed over as 2-D arrays or raveled
        fe, fn = np.meshgrid(np.linspace(0.3, 5.7, fshape[1]), np.linspace(-2.7, 2.7, fshape[0]))
        force_coords = (fe, fn) if rnd.random() < 0.5 else (fe.ravel(), fn.ravel())
        nforce = fe.size
    engine = rnd.choice(["auto", "auto", "numpy"])
    opts = {"force_coords": force_coords, "engine": engine}

    def new_cv(**extra):
        return vd.SplineCV(mindists=mindists, dampings=dampings, cv=cvf(), scoring=scoring, **opts, **extra)

    with warnings.catch_warnings():
        warnings.simplefilter("ignore")
        serial = new_cv().fit(coords, data, weights)
        if client:
            # the (deprecated) client= path must rank by the requested metric and choose like the serial path
            scv = new_cv(client=StandInClient()).fit(coords, data, weights)
        else:
            scv = serial
        scores = [float(s) for s in scv.scores_]
        chosen = (float(scv.mindist_), float(scv.damping_))
        # the reference: an independently built Spline with the winning parameters AND the same options, on all the data
        ref = vd.Spline(mindist=chosen[0], damping=chosen[1], **opts).fit(coords, data, weights)
        pred_ref = list(ref.predict(q)) + list(np.ravel(ref.force_))
        pred_cv = list(scv.predict(q)) + list(np.ravel(scv.force_))

        def final_ok(model):
            "the final Spline object carries the requested options and the reported parameters"
            p = model.spline_.get_params()
            fc = p["force_coords"]
            same_fc = (fc is None) if force_coords is None else (
                fc is not None and len(fc) == len(force_coords) and all(np.array_equal(a, b) for a, b in zip(fc, force_coords)))
            return bool(p["engine"] == engine and same_fc and p["mindist"] == model.mindist_ and p["damping"] == model.damping_)

        # sizes of force_ and of each array of force_coords_; the last entry equals nforce iff force_coords_ has two arrays
        nforce_obs = [int(np.size(scv.force_))] + [int(np.size(c)) for c in scv.force_coords_] + [len(scv.force_coords_) * nforce // 2]
        params_ok = final_ok(scv)
        delayed_error = None
        try:
            scd = new_cv(delayed=True).fit(coords, data, weights)
            others = [(float(scd.mindist_), float(scd.damping_))]
            # the delayed variant must end with the same final model
            pred_cv += list(scd.predict(q)) + list(np.ravel(scd.force_))
            pred_ref += list(ref.predict(q)) + list(np.ravel(ref.force_))
            params_ok = params_ok and final_ok(scd)
        except Exception as exc:  # a crash of the delayed path is a difference from the serial path
            others = [(-1.0, -1.0)]
            delayed_error = "%s: %s" % (type(exc).__name__, exc)
        if client:
            others.append((float(serial.mindist_), float(serial.damping_)))
        table = []
        import itertools
        for md, dm in itertools.product(mindists, dampings):
            table.append([float(s) for s in vd.cross_val_score(vd.Spline(mindist=md, damping=dm, **opts), coords, data, weights, cv=cvf(), scoring=scoring)])
    term = "c12_splinecv_full %s %s %s %s %s %s %s %s %s %s %s %s" % (
        cN(n), cDl(mindists), cDl(dampings), clist([cDl(t) for t in table]), cDl(scores), cpair(cD(chosen[0]), cD(chosen[1])),
        cDl(pred_cv), cDl(pred_ref), clist([cpair(cD(a), cD(b)) for a, b in others]), cN(nforce), cNl(nforce_obs), cbool(params_ok))
    ties = len(set(scores)) < len(scores)
    fdesc = None if fshape is None else {"grid": list(fshape), "given_as": "2-D" if np.ndim(force_coords[0]) == 2 else "1-D"}
    return Case({"mindists": mindists, "dampings": dampings, "scoring": scoring, "n": n, "weighted": weighted, "client": client,
                 "force_coords": fdesc, "engine": engine, "data_seed": int(rs.randint(0, 2 ** 31 - 1))},
                {"scores_": scores, "mindist_": chosen[0], "damping_": chosen[1], "exact_ties": ties, "delayed_choice": others[0],
                 "delayed_error": delayed_error, "n_forces_expected": nforce, "n_forces_observed": nforce_obs, "final_params_ok": params_ok}, term,
                "# verde.SplineCV(mindists=%s, dampings=%s, scoring=%s, force_coords=%s, engine=%r%s) on %d random points; see harness/c12.py splinecv_case" % (
                    mindists, dampings, scoring, "None" if fdesc is None else "%s grid of forces over (0.3, 5.7, -2.7, 2.7) given %s" % (fshape, fdesc["given_as"]),
                    engine, ", client=StandInClient()" if client else "", n),
                kind + ("+forces" if fshape else "") + (":ties" if ties else ""))


def generate(tier, seed):
    import verde as vd
    rnd = random.Random(seed)
    m = 1 if tier == "quick" else 8
    cases = []
    for i in range(60 * m):
        cases.append(cvs_case(rnd, vd, "cvs"))
    for i in range(24 * m):
        cases.append(score_case(rnd, vd, "score"))
    for i in range(3 * m):
        cases.append(score_case(rnd, vd, "score-constant"))
    for i in range(20 * m):
        cases.append(tts_case(rnd, vd, "tts-random"))
    for i in range(20 * m):
        cases.append(tts_case(rnd, vd, "tts-blocked"))
    for k in ("splinecv-unique", "splinecv-duplicates", "splinecv-ties"):
        for i in range(5 * m):
            cases.append(splinecv_case(rnd, vd, k))
    for i in range(8 * m):
        cases.append(splinecv_case(rnd, vd, "splinecv-client"))
    for i in range(8 * m):
        cases.append(splinecv_case(rnd, vd, "splinecv-options"))
    return cases


def search(dis, tier, seed):
    return generate("quick", seed + 1)
