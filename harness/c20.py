"""C20: calls are pure, repeatable, history-free and reject inconsistent input.

Streams:
  static-frames / static-effects  obligations regenerated from the source by harness/translate_frames.py and
                                  harness/translate_effects.py and discharged by coqc (analyse = true, mutated_params = [])
  malformed                       one inconsistency injected into valid arguments of every validating entry point (+ controls)
  refit / clone / unfitted        estimator histories against fresh estimators
  purity / purity-readonly        argument bytes before / after every public call
  repeat                          every public call twice on the same argument objects
"""
import hashlib
import os
import random
import subprocess
import warnings
from concurrent.futures import ThreadPoolExecutor

import numpy as np

from . import core, pylite_tie
from .core import Case, cD, cN, cZ, cbool, clist
from . import translate_frames as TF
from . import translate_effects as TE

obligations = pylite_tie.checks_obligations   # source-regenerated tie for check_data_names / check_extra_coords_names
ID = "C20"
PROPS_FILE = "Props/C20.v"
IMPORTS = "From Verde Require Import Model.Checks Model.Frames Model.Effects."
SHARD = 400
RULE = ("static: one obligation per estimator class (frame analysis) and per public callable (effect analysis), regenerated from the "
        "source of the tree under test; malformed: for every validating entry point (check_* functions, every fit/filter, "
        "grid_coordinates, block_split, rolling_window, line_coordinates, block cross-validators, BlockReduce/BlockMean, inside, "
        "scatter_points, make_xarray_grid) valid arguments with exactly one injected inconsistency (one coordinate / data / weight "
        "shape, weight or name count, both or neither of shape and spacing, inverted or wrong-length region, 3 spacing values) and the "
        "valid controls (incl. raveled 1-D weights for 2-D data), 1-D and 2-D shapes; systematically (harness/c20_positions.py) every "
        "callable taking coordinate / data / weight tuples x 2-4 coordinate arrays x 1-3 data components x with/without weights x ONE array in "
        "ONE position (every coordinate incl. extras, every data and weight component) transposed / raveled / longer / shorter / scalar; dynamic: every estimator class x 1..4 fits on data sets of different sizes compared with a "
        "fresh estimator, refits on a data set with the SAME size and bounding box as the previous one (permuted order / same extreme points, "
        "other interior), compared bit for bit, get_params(deep=True) compared by value before/after every fit / predict / grid / scatter / "
        "profile / score / filter (tiny and normal data sets), refits whose first data set is tiny (3-4 points: fewer than k, forces, "
        "polynomial terms), clone of a fitted estimator vs fresh, Vector / Chain / SplineCV called before fit with fresh and with "
        "individually pre-fitted components, clone / get_params / set_params round trips, predict-like calls on unfitted instances, every public function "
        "everything with a random_state (BlockShuffleSplit, BlockKFold, train_test_split plain and blocked, scatter_points, gridder scatter, "
        "cross_val_score / SplineCV with a randomised cv) over n_splits 1/2/5 x balancing 1/2/10 x int/float/None sizes x shuffle/balance x seeds, twice on "
        "one object and on two identically configured objects; every way a fit / filter / score / grid is rejected, on unfitted and fitted "
        "estimators: all attributes incl. get_params unchanged and the next valid fit identical to a fresh estimator's; "
        "every constructor parameter of every estimator in the forms users pass (tuples / lists / 2-D arrays for force_coords, lists and arrays for "
        "region / spacing / dampings, numpy scalars, callables): stored as the object passed, clone works, clone and clone-of-fitted behave identically, "
        "cross_val_score and SplineCV run with it; and estimator method with argument bytes hashed before/after (writable and read-only arrays) and called twice. "
        "Non-trivial = the call is expected to succeed or is a single-fault rejection; distinct = distinct (entry, arguments).")
ASSUMPTIONS = [
    "frame IR: everything a method does besides accessing attributes of self (numpy, scipy, locals) is an arbitrary function of the "
    "arguments and of the attribute values read so far; deep mutation of objects stored in attributes is not tracked, and the "
    "history-freedom of Vector / Chain is relative to that of their component estimators (whose classes are analysed too, and which "
    "the refit stream exercises)",
    "effect IR: arrays are heap buffers, containers (tuples, lists, dicts, DataFrames, Datasets, estimators) are values holding "
    "references; numpy/scipy/pandas/xarray/scikit-learn/builtin functions and user-supplied callables (projection, reduction) do not "
    "write to their arguments unless called with out=, copy=False, inplace=True or listed as mutators in harness/translate_effects.py; "
    "a call to another verde function is expanded with the callee's own (Coq-checked) summaries",
    "effect IR: `x += tuple(...)`/`str` rebinds; the two augmented assignments listed in translate_effects.SCALAR_AUG act on immutable "
    "scalars; straight-line rebinding of a name creates a new version (SSA), joins merge versions, loops do not version",
    "write-once parameter allow-list: VectorSpline2D.force_coords (documented); allow-listed effect: least_squares(copy_jacobian=False) "
    "scales the caller's Jacobian (documented default, finding F8)",
    "mutation, repeatability, refit and clone verdicts are computed in python on the bytes of the arrays (sha1 of buffer, dtype, "
    "shape) resp. with tolerance 2^-40 x max(1, |value|) and enter Coq as booleans (mk_verdict true <holds>): coqc only tallies them",
    "static obligations enter the case list as mk_verdict <compiled> true: a failed obligation is a broken tie with no failing input",
]
TRUSTED = ["harness/c20.py, harness/c20_repeat.py, harness/c20_positions.py (incl. the frozen table of what the unchanged code rejects for callables without an explicit shape check), harness/translate_frames.py, harness/translate_effects.py (ast translators: the classification tables of "
           "library calls, the call expansion with callee summaries, SSA versioning)"]

_extra = {}


def EXTRA():
    return dict(_extra)


# ---------------------------------------------------------------------------
# static obligations
def _coqc(path, timeout=300):
    p = subprocess.run(["timeout", str(timeout), "coqc", "-R", os.path.join(core.COQ, "theories"), "Verde", "-w", "-all", path],
                       stdout=subprocess.PIPE, stderr=subprocess.STDOUT, text=True, cwd=os.path.dirname(path))
    return p.returncode == 0, p.stdout[-600:]


def _static_cases():
    d = os.path.join(core.BUILD, "C20")
    os.makedirs(d, exist_ok=True)
    for fn in os.listdir(d):
        if fn.startswith(("Frames_", "Effects_")):
            os.unlink(os.path.join(d, fn))
    pkg = os.path.join(core.REPO, "verde")
    cases = []
    jobs = []
    # frames: one file per class
    frames = TF.translate_package(pkg)
    for r in frames:
        if r["coq"] is not None:
            path = os.path.join(d, "Frames_%s.v" % r["name"])
            open(path, "w").write(TF.HEADER + r["coq"])
            jobs.append(("frames", r, path))
    with open(os.path.join(d, "Frames_gen.v"), "w") as f:
        f.write(TF.HEADER + "\n".join(r["coq"] for r in frames if r["coq"]))
    # effects: shards, split on failure
    effects = TE.translate_package(pkg)
    good = [r for r in effects if r["coq"] is not None]
    with open(os.path.join(d, "Effects_gen.v"), "w") as f:
        f.write(TE.HEADER + "\n".join(r["coq"] for r in good))
    nsh = 12
    shards = [good[k::nsh] for k in range(nsh)]
    for k, sh in enumerate(shards):
        if sh:
            path = os.path.join(d, "Effects_shard%d.v" % k)
            open(path, "w").write(TE.HEADER + "\n".join(r["coq"] for r in sh))
            jobs.append(("effects-shard", sh, path))
    with ThreadPoolExecutor(max_workers=core.NPROC) as ex:
        results = list(ex.map(lambda j: _coqc(j[2]), jobs))
    eff_ok = {}
    retry = []
    for (kind, obj, path), (ok, log) in zip(jobs, results):
        if kind == "frames":
            obj["ok"], obj["log"] = ok, log
        elif ok:
            for r in obj:
                eff_ok[r["name"]] = (True, "")
        else:
            for r in obj:
                p2 = os.path.join(d, "Effects_one_%s.v" % r["name"])
                open(p2, "w").write(TE.HEADER + r["coq"])
                retry.append((r, p2))
    if retry:
        with ThreadPoolExecutor(max_workers=core.NPROC) as ex:
            rr = list(ex.map(lambda j: _coqc(j[1]), retry))
        for (r, _), (ok, log) in zip(retry, rr):
            eff_ok[r["name"]] = (ok, log)
    for r in frames:
        ok = r["coq"] is not None and r.get("ok", False)
        why = r["abort"] if r["coq"] is None else (None if ok else "analyse cls_%s = false (a read of an attribute not set by the "
                                                   "constructor or earlier in fit, a computing constructor, a missing check_is_fitted, "
                                                   "a writing predict ...): %s" % (r["name"], r.get("log", "")[-300:]))
        cases.append(Case({"obligation": "frames", "class": r["name"], "failed": why}, {"discharged": ok},
                          "mk_verdict %s true" % cbool(ok),
                          "python harness/translate_frames.py %s  # then coqc build/C20/Frames_%s.v" % (pkg, r["name"]),
                          "static-frames", nontrivial=True))
    npub = 0
    for r in effects:
        if not r["public"]:
            ok = r["coq"] is None or eff_ok.get(r["name"], (False, ""))[0]
            if ok:
                continue                      # helper summaries are only reported when python and Coq disagree
        if r["coq"] is None:
            ok, why = False, r["abort"]
        else:
            ok, log = eff_ok.get(r["name"], (False, "not compiled"))
            why = None if ok else (r.get("why") or "summary not confirmed by coqc") + ": " + log[-300:]
        npub += 1
        if r.get("finding") and ok:
            term = "mk_verdict true false"     # the documented in-place scaling: a known finding, not a broken tie
        else:
            term = "mk_verdict %s true" % cbool(ok)
        cases.append(Case({"obligation": "effects", "callable": r["name"], "failed": why, "finding": r.get("finding"),
                           "mutated_parameters": r.get("mutated")}, {"discharged": ok}, term,
                          "python harness/translate_effects.py %s  # then coqc build/C20/Effects_gen.v" % pkg,
                          "static-effects", nontrivial=True))
    _extra["static_obligations"] = {"frames_classes": len(frames), "effects_public_callables": npub,
                                    "effects_programs_including_helpers": len(effects)}
    return cases


# ---------------------------------------------------------------------------
# (d) malformed stream
def cshape(s):
    return clist([cN(x) for x in s])


def cshapes(l):
    return clist([cshape(s) for s in l])


def cweights(l):
    return clist(["None" if w is None else "(Some %s)" % cshape(w) for w in l])


def _arr(rnd, shape):
    n = int(np.prod(shape)) if len(shape) else 1
    return np.array([rnd.uniform(-5, 5) for _ in range(n)], dtype=float).reshape(shape)


def _ok(fn):
    with warnings.catch_warnings():
        warnings.simplefilter("ignore")
        try:
            fn()
            return True, None
        except Exception as exc:      # noqa
            return False, type(exc).__name__


def _fit_entries(vd):
    """entry points that validate (coordinates, data, weights) with check_fit_input; single-component data"""
    return {
        "check_fit_input": lambda c, d, w: vd.base.check_fit_input(c, d, w),
        "Trend.fit": lambda c, d, w: vd.Trend(1).fit(c, d, w),
        "Spline.fit": lambda c, d, w: vd.Spline(damping=1e-3).fit(c, d, w),
        "KNeighbors.fit": lambda c, d, w: vd.KNeighbors().fit(c, d, w),
        "Linear.fit": lambda c, d, w: vd.Linear().fit(c, d, w),
        "BlockReduce.filter": lambda c, d, w: vd.BlockReduce(np.mean if w is None else np.average, spacing=2.5).filter(c, d, w),
        "BlockMean.filter": lambda c, d, w: vd.BlockMean(spacing=2.5).filter(c, d, w),
        "train_test_split": lambda c, d, w: vd.train_test_split(c, d, w, random_state=0),
        "Trend.filter": lambda c, d, w: vd.Trend(1).filter(c, d, w),
    }


def _malformed(vd, rnd, tier):
    cases = []
    reps = 2 if tier == "quick" else 12
    ents = _fit_entries(vd)
    shapes = [(12,), (3, 4), (16,), (4, 4), (2, 3, 2)]

    def add(kind_term, obs, inp, repro, expect_reject):
        kind = "malformed" if expect_reject else "malformed-control"
        if str(inp.get("fault", "")).startswith("data-count"):
            kind = "malformed-components"
        elif inp.get("fault") == "weights-samesize":
            kind = "malformed-weights-alignment"
        cases.append(Case(inp, {"returned": obs[0], "exception": obs[1]}, "c20_check_case %s %s" % (kind_term, cbool(obs[0])),
                          repro, kind, nontrivial=True))

    for rep in range(reps):
        for s in shapes:
            n = int(np.prod(s))
            other = [t for t in [(n + 1,), (n - 1,), s + (1,), (1,) + s, (2, n)] if t != s and int(np.prod(t)) != n]
            samesize = [t for t in [(n,), (1, n), (n, 1)] if t != s]
            wsame = [t for t in [(1, n), (n, 1), tuple(reversed(s)), (2, n // 2)] if t != s and t != (n,) and int(np.prod(t)) == n]
            for name, fn in ents.items():
                if name != "check_fit_input" and len(s) == 3:
                    continue
                ncoord = rnd.choice([2, 3])
                faults = ["none", "none-weights", "weights-raveled", "coord", "data", "weights-shape", "weights-samesize",
                          "weights-count", "weights-none-mixed", "data-samesize"]
                for fault in faults:
                    cs = [s] * ncoord
                    ds = [s]
                    ws = [None]
                    if fault in ("none-weights",):
                        ws = [s]
                    if fault == "coord":
                        cs = list(cs)
                        cs[rnd.randrange(ncoord)] = rnd.choice(other)
                    elif fault == "data":
                        ds = [rnd.choice(other)]
                    elif fault == "data-samesize":
                        ds = [rnd.choice(samesize)]
                    elif fault == "weights-shape":
                        ws = [rnd.choice(other)]
                    elif fault == "weights-raveled":
                        ws = [(n,)]                      # the 1-D raveled form check_fit_input itself returns: valid
                    elif fault == "weights-samesize":
                        ws = [rnd.choice(wsame)]         # e.g. (3,2) weights for (2,3) data: same size, not aligned
                    elif fault == "weights-count":
                        if name in ("Trend.fit", "Spline.fit", "Trend.filter"):
                            ws = [s, s]
                        else:
                            ws = [s, s]
                    elif fault == "weights-none-mixed":
                        if name != "check_fit_input":
                            continue
                        ds = [s, s]
                        ws = [s, None]
                    coords = tuple(_arr(rnd, c) for c in cs)
                    data = tuple(_arr(rnd, d_) for d_ in ds)
                    weights = tuple(None if w is None else np.abs(_arr(rnd, w)) + 0.1 for w in ws)
                    data_arg = data[0] if len(data) == 1 else data
                    weights_arg = (weights[0] if len(weights) == 1 else weights)
                    if name == "Spline.fit" and n > 16:
                        pass
                    obs = _ok(lambda: fn(coords, data_arg, weights_arg))
                    term = "(CFitInput %s %s %s)" % (cshapes(cs), cshapes(ds), cweights(ws))
                    inp = {"entry": name, "fault": fault, "coordinate_shapes": cs, "data_shapes": ds, "weight_shapes": ws}
                    repro = ("import numpy as np, verde as vd; z=np.ones; t=lambda l: tuple(None if s is None else z(s) for s in l); "
                             "u=lambda x: x[0] if len(x) == 1 else x; "
                             "print(vd.base.check_fit_input(t(%r), u(t(%r)), u(t(%r))))  # entry under test: %s" % (cs, ds, ws, name))
                    add(term, obs, inp, repro, fault not in ("none", "none-weights", "weights-raveled"))
            # vector estimators
            for fault in ["none", "weights-raveled", "data-count-1", "data-count-3", "coord", "data", "weights-shape", "weights-samesize", "weights-count"]:
                cs, ds, ws = [s, s], [s, s], [None, None]
                if len(s) == 3:
                    continue
                if fault == "data-count-1":
                    ds = [s]
                    ws = [None]
                elif fault == "data-count-3":
                    ds = [s, s, s]
                    ws = [None, None, None]
                elif fault == "coord":
                    cs = [s, rnd.choice(other)]
                elif fault == "data":
                    ds = [s, rnd.choice(other)]
                elif fault == "weights-shape":
                    ws = [s, rnd.choice(other)]
                elif fault == "weights-raveled":
                    ws = [(n,), s]
                elif fault == "weights-samesize":
                    ws = [s, rnd.choice(wsame)]
                elif fault == "weights-count":
                    ws = [s]
                coords = tuple(_arr(rnd, c) for c in cs)
                data = tuple(_arr(rnd, d_) for d_ in ds)
                weights = tuple(None if w is None else np.abs(_arr(rnd, w)) + 0.1 for w in ws)
                wa = None if all(w is None for w in weights) else weights
                obs = _ok(lambda: vd.VectorSpline2D(damping=1e-3, mindist=1.0).fit(coords, data, wa))
                term = "(CVecSpline %s %s %s)" % (cshapes(cs), cshapes(ds), cweights(ws))
                add(term, obs, {"entry": "VectorSpline2D.fit", "fault": fault, "coordinate_shapes": cs, "data_shapes": ds, "weight_shapes": ws},
                    "import verde as vd  # VectorSpline2D().fit with shapes %r %r %r" % (cs, ds, ws), fault not in ("none", "weights-raveled"))
                # Vector of two Trends: check_fit_input, then one data component per estimator (surplus and deficit are rejected)
                obs = _ok(lambda: vd.Vector([vd.Trend(1), vd.Trend(1)]).fit(coords, data, wa))
                term = "(CVector 2%%nat %s %s %s)" % (cshapes(cs), cshapes(ds), cweights(ws))
                add(term, obs, {"entry": "Vector.fit", "n_estimators": 2, "fault": fault, "coordinate_shapes": cs, "data_shapes": ds, "weight_shapes": ws},
                    "import numpy as np, verde as vd; z=np.ones; vd.Vector([vd.Trend(1), vd.Trend(1)]).fit(tuple(z(s) for s in %r), tuple(z(s) for s in %r), %s)"
                    % (cs, ds, "None" if wa is None else "tuple(z(s) for s in %r)" % (ws,)), fault not in ("none", "weights-raveled"))
            # check_coordinates and its callers
            for fault in ["none", "coord"]:
                cs = [s, s] if fault == "none" else rnd.choice([[s, rnd.choice(other)], [rnd.choice(other), s], [s, s, rnd.choice(other)]])
                coords = tuple(_arr(rnd, c) + 5 for c in cs)
                ents2 = {"check_coordinates": lambda: vd.base.utils.check_coordinates(coords)}
                if len(cs) == 2 or True:
                    ents2["block_split"] = lambda: vd.block_split(coords, spacing=2.5)
                    ents2["rolling_window"] = lambda: vd.rolling_window(coords, size=4.0, spacing=2.0)
                    ents2["expanding_window"] = lambda: vd.expanding_window(coords, center=(5.0, 5.0), sizes=[1.0, 4.0])
                for name, f2 in ents2.items():
                    if name != "check_coordinates" and (len(s) == 3 or (fault == "coord" and cs[0] != s and cs[1] != s)):
                        continue
                    if name != "check_coordinates" and fault == "coord" and len(cs) == 3:
                        continue      # the third array is dropped before use by these callers? (not: check runs on all) keep to direct check
                    obs = _ok(f2)
                    add("(CCoords %s)" % cshapes(cs), obs, {"entry": name, "fault": fault, "coordinate_shapes": cs},
                        "import verde as vd  # %s with coordinate shapes %r" % (name, cs), fault != "none")
        # names
        for nd in (1, 2, 3):
            for names in (None, "str", 1, 2, 3, 4):
                if names is None:
                    arg, cn = None, "None"
                elif names == "str":
                    arg, cn = "name", "(Some 1%nat)"
                else:
                    arg, cn = tuple("n%d" % i for i in range(names)), "(Some %s)" % cN(names)
                data = tuple(np.zeros(3) for _ in range(nd))
                obs = _ok(lambda: vd.base.utils.check_data_names(data, arg))
                add("(CDataNames %s %s)" % (cN(nd), cn), obs, {"entry": "check_data_names", "ndata": nd, "names": arg},
                    "import verde, numpy as np; verde.base.utils.check_data_names((np.zeros(3),)*%d, %r)" % (nd, arg),
                    not (names == "str" and nd == 1 or names == nd))
                if rep == 0:
                    g = vd.grid_coordinates((0, 4, 0, 3), spacing=1)
                    gd = tuple(np.ones_like(g[0]) for _ in range(nd))
                    obs = _ok(lambda: vd.make_xarray_grid(g, gd if nd > 1 else gd[0], arg))
                    add("(CDataNames %s %s)" % (cN(nd), cn), obs, {"entry": "make_xarray_grid", "ndata": nd, "names": arg},
                        "import verde as vd  # make_xarray_grid with %d data arrays and data_names=%r" % (nd, arg),
                        not (names == "str" and nd == 1 or names == nd))
        for nc in (2, 3, 4):
            for names in (None, "str", 0, 1, 2, 3):
                if names is None:
                    arg, cn = None, "None"
                elif names == "str":
                    arg, cn = "up", "(Some 1%nat)"
                else:
                    arg, cn = tuple("n%d" % i for i in range(names)), "(Some %s)" % cN(names)
                coords = [np.zeros(3)] * nc
                obs = _ok(lambda: vd.base.utils.check_extra_coords_names(coords, arg))
                add("(CExtraNames %s %s)" % (cN(nc), cn), obs, {"entry": "check_extra_coords_names", "ncoords": nc, "names": arg},
                    "import verde, numpy as np; verde.base.utils.check_extra_coords_names([np.zeros(3)]*%d, %r)" % (nc, arg), True)
        # regions
        for _ in range(6):
            w, e = sorted([rnd.randint(-50, 50), rnd.randint(-50, 50)])
            s_, n_ = sorted([rnd.randint(-50, 50), rnd.randint(-50, 50)])
            if rnd.random() < 0.3:
                e = w
            if e == w and rnd.random() < 0.5:
                e = w + 3
            variants = {"none": [w, e, s_, n_], "w>e": [e + 1, w, s_, n_], "s>n": [w, e, n_ + 2, s_], "short": [w, e, s_],
                        "long": [w, e, s_, n_, 0], "empty": []}
            for fault, reg in variants.items():
                cr = clist([cZ(x) for x in reg])
                regf = [float(x) for x in reg]
                pts = (np.array([w + 0.5, e + 0.0]), np.array([s_ + 0.0, n_ + 0.0]))
                ents3 = {"check_region": lambda: vd.coordinates.check_region(regf),
                         "inside": lambda: vd.inside(pts, regf),
                         "scatter_points": lambda: vd.scatter_points(regf, size=5, random_state=1)}
                for name, f3 in ents3.items():
                    obs = _ok(f3)
                    add("(CRegion %s)" % cr, obs, {"entry": name, "fault": fault, "region": reg},
                        "import verde as vd; vd.%s  # region %r" % (name, reg), fault != "none")
                # grid_coordinates: shape / spacing
                if e > w and n_ > s_ or fault != "none":
                    for sh, sp in [(True, None), (False, 1), (False, 2), (False, 3), (True, 1), (True, 2), (False, None)]:
                        if fault == "none" and not (e > w and n_ > s_):
                            continue
                        kw = {}
                        if sh:
                            kw["shape"] = (4, 5)
                        if sp is not None:
                            kw["spacing"] = [1.0, 2.0, 3.0][:sp] if sp > 1 else 1.0
                        obs = _ok(lambda: vd.grid_coordinates(regf, **kw))
                        term = "(CGrid %s %s %s)" % (cr, cbool(sh), "None" if sp is None else "(Some %s)" % cN(sp))
                        good = fault == "none" and (sh != (sp is not None)) and (sp is None or sp <= 2)
                        add(term, obs, {"entry": "grid_coordinates", "fault": fault, "region": reg, "shape_given": sh, "n_spacing_values": sp},
                            "import verde as vd; vd.grid_coordinates(%r, **%r)" % (regf, kw), not good)
        # SLIGHTLY inverted regions (exact doubles): there is no tolerance in "W <= E and S <= N"
        if rep == 0 or tier != "quick":
            cases_before = len(cases)
            for E in [5e5, 7.45e6, -60.0, 1.0, 123.456, 1e-3, 0.0, -7.45e6, rnd.uniform(1e3, 1e7), -rnd.uniform(1e-2, 90.0)]:
                up = float(np.nextafter(E, np.inf))
                down = float(np.nextafter(E, -np.inf))
                tiny = {"ulp": up, "rel1e-6": E + abs(E) * 1e-6 if E != 0 else 5e-9, "abs1e-4": E + 1e-4 if abs(E) >= 50 else E + abs(E) * 3e-6 + 5e-9}
                variants = [("equal", E, E, True), ("ulp-below", down, E, True)] + [(k, v, E, False) for k, v in tiny.items() if v > E]
                for axis in ("we", "sn"):
                    for fault, lo, hi, valid in variants:
                        # lo is the west/south bound, hi the east/north bound; invalid when lo > hi
                        if axis == "we":
                            reg = [lo, hi, -3.0, 4.0]
                        else:
                            reg = [-3.0, 4.0, lo, hi]
                        pts = (np.array([reg[0], reg[1], 0.5]), np.array([reg[2], reg[3], 0.5]))
                        cloud = (np.array([0.0, 1.0, 2.0, 0.5]) + reg[0], np.array([0.0, 2.0, 1.0, 0.5]) + reg[2])
                        ents5 = {
                            "check_region": lambda: vd.coordinates.check_region(reg),
                            "inside": lambda: vd.inside(pts, reg),
                            "scatter_points": lambda: vd.scatter_points(reg, size=4, random_state=0),
                            "grid_coordinates": lambda: vd.grid_coordinates(reg, shape=(3, 3)),
                            "block_split": lambda: vd.block_split(cloud, shape=(2, 2), region=reg),
                            "BlockReduce.filter": lambda: vd.BlockReduce(np.mean, shape=(2, 2), region=reg).filter(cloud, np.arange(4.0)),
                            "CheckerBoard.grid": lambda: vd.synthetic.CheckerBoard(region=reg, w_east=1.0, w_north=1.0).grid(shape=(3, 3)),
                            "CheckerBoard.scatter": lambda: vd.synthetic.CheckerBoard(region=reg, w_east=1.0, w_north=1.0).scatter(size=4),
                            "Trend.grid": lambda: vd.Trend(1).fit((np.array([0.0, 1.0, 2.0, 0.5]), np.array([0.0, 2.0, 1.0, 0.5])), np.arange(4.0)).grid(region=reg, shape=(3, 3)),
                        }
                        for name, f5 in ents5.items():
                            obs = _ok(f5)
                            cases.append(Case({"entry": name, "fault": "region-" + fault, "axis": axis, "region": reg, "region_hex": [float(x).hex() for x in reg]},
                                              {"returned": obs[0], "exception": obs[1]},
                                              "c20_check_case (CRegionD %s) %s" % (clist([cD(x) for x in reg]), cbool(obs[0])),
                                              "import verde as vd; r=[float.fromhex(h) for h in %r]; print(r); vd.coordinates.check_region(r)  # entry under test: %s"
                                              % ([float(x).hex() for x in reg], name),
                                              "malformed-control" if valid else "malformed-region-ulp", nontrivial=True))
        # both / neither of shape and spacing
        e_, n__ = _arr(rnd, (30,)) + 5, _arr(rnd, (30,)) + 5
        d_ = _arr(rnd, (30,))
        X = np.c_[e_, n__]
        for sh in (False, True):
            for sp in (False, True):
                kw = {}
                if sh:
                    kw["shape"] = (3, 3)
                if sp:
                    kw["spacing"] = 3.0
                oneof = {
                    "block_split": lambda: vd.block_split((e_, n__), **kw),
                    "rolling_window": lambda: vd.rolling_window((e_, n__), size=5.0, **kw),
                    "BlockReduce.filter": lambda: vd.BlockReduce(np.median, **kw).filter((e_, n__), d_),
                    "BlockMean.filter": lambda: vd.BlockMean(**kw).filter((e_, n__), d_),
                    "BlockKFold.split": lambda: list(vd.BlockKFold(n_splits=2, **kw).split(X)),
                    "BlockShuffleSplit.split": lambda: list(vd.BlockShuffleSplit(n_splits=2, random_state=0, **kw).split(X)),
                }
                for name, f4 in oneof.items():
                    obs = _ok(f4)
                    add("(COneOf %s %s)" % (cbool(sh), cbool(sp)), obs, {"entry": name, "shape_given": sh, "spacing_given": sp},
                        "import verde as vd  # %s with %r" % (name, kw), sh == sp)
                lk = {}
                if sh:
                    lk["size"] = 5
                if sp:
                    lk["spacing"] = 0.5
                obs = _ok(lambda: vd.line_coordinates(0.0, 4.0, **lk))
                add("(COneOf %s %s)" % (cbool(sh), cbool(sp)), obs, {"entry": "line_coordinates", "size_given": sh, "spacing_given": sp},
                    "import verde as vd; vd.line_coordinates(0., 4., **%r)" % lk, sh == sp)
                if sh and sp:
                    obs = _ok(lambda: vd.train_test_split((e_, n__), d_, random_state=0, **kw))
                    add("(COneOf true true)", obs, {"entry": "train_test_split", "shape_given": sh, "spacing_given": sp},
                        "import verde as vd  # train_test_split with both shape and spacing", True)
    return cases


# ---------------------------------------------------------------------------
# dynamic streams
def _snap(obj, depth=0):
    """hashable snapshot of every array reachable from an argument / a result"""
    import pandas as pd
    import xarray as xr
    if depth > 6:
        return "deep"
    if obj is None or isinstance(obj, (bool, int, float, str, complex, np.generic)):
        return repr(obj)
    if isinstance(obj, np.ndarray):
        if obj.dtype == object:
            return ("objarr", obj.shape, tuple(_snap(x, depth + 1) for x in obj.ravel()))
        return ("nd", str(obj.dtype), obj.shape, hashlib.sha1(np.ascontiguousarray(obj).tobytes()).hexdigest())
    if isinstance(obj, (list, tuple)):
        return (type(obj).__name__,) + tuple(_snap(x, depth + 1) for x in obj)
    if isinstance(obj, dict):
        return ("dict",) + tuple((k, _snap(v, depth + 1)) for k, v in sorted(obj.items(), key=lambda kv: str(kv[0])))
    if isinstance(obj, pd.DataFrame):
        return ("df", tuple(obj.columns), tuple(_snap(obj[c].values, depth + 1) for c in obj.columns))
    if isinstance(obj, pd.Series):
        return ("series", _snap(obj.values, depth + 1))
    if isinstance(obj, xr.DataArray):
        return ("da", obj.dims, _snap(obj.values, depth + 1), tuple((k, _snap(obj.coords[k].values, depth + 1)) for k in obj.coords))
    if isinstance(obj, xr.Dataset):
        return ("ds", tuple((k, _snap(obj[k], depth + 1)) for k in obj.data_vars))
    if hasattr(obj, "get_params"):
        return ("est", type(obj).__name__)
    if hasattr(obj, "__iter__"):
        return _snap(list(obj), depth + 1)
    return ("obj", type(obj).__name__)


def _set_readonly(obj, depth=0):
    if depth > 5:
        return
    if isinstance(obj, np.ndarray):
        obj.flags.writeable = False
    elif isinstance(obj, (list, tuple)):
        for x in obj:
            _set_readonly(x, depth + 1)
    elif isinstance(obj, dict):
        for x in obj.values():
            _set_readonly(x, depth + 1)


def _dataset(rnd, n, twod=False, offset=0.0):
    e = np.array([rnd.uniform(0, 10) for _ in range(n)]) + offset
    no = np.array([rnd.uniform(-5, 5) for _ in range(n)])
    d = 3.0 + 0.5 * e - 0.25 * no + np.sin(e) * np.cos(no) + np.array([rnd.gauss(0, 0.05) for _ in range(n)])
    w = np.array([rnd.uniform(0.5, 2.0) for _ in range(n)])
    if twod and n % 2 == 0:
        sh = (2, n // 2)
        e, no, d, w = e.reshape(sh), no.reshape(sh), d.reshape(sh), w.reshape(sh)
    return e, no, d, w


def _estimators(vd):
    """name -> (factory, vector?)"""
    return {
        "Trend": (lambda: vd.Trend(2), False),
        "Spline": (lambda: vd.Spline(damping=1e-4), False),
        "SplineCV": (lambda: vd.SplineCV(dampings=(1e-4, 1e-2), cv=None), False),
        "KNeighbors": (lambda: vd.KNeighbors(k=3), False),
        "Linear": (lambda: vd.Linear(), False),
        "Cubic": (lambda: vd.Cubic(), False),
        "ScipyGridder": (lambda: vd.ScipyGridder(method="nearest"), False),
        "Chain": (lambda: vd.Chain([("trend", vd.Trend(1)), ("reduce", vd.BlockReduce(np.average, spacing=1.0)), ("spline", vd.Spline(damping=1e-3))]), False),
        "Vector": (lambda: vd.Vector([vd.Trend(1), vd.Spline(damping=1e-3)]), True),
        "VectorSpline2D": (lambda: vd.VectorSpline2D(poisson=0.4, mindist=2.0, damping=1e-3), True),
    }


def _close(a, b):
    a = np.asarray(a, dtype=float)
    b = np.asarray(b, dtype=float)
    if a.shape != b.shape:
        return False
    both_nan = np.isnan(a) & np.isnan(b)
    if np.any(np.isnan(a) != np.isnan(b)):
        return False
    aa, bb = np.where(both_nan, 0.0, a), np.where(both_nan, 0.0, b)
    scale = max(1.0, float(np.max(np.abs(aa))) if aa.size else 1.0)
    return bool(np.all(np.abs(aa - bb) <= 2.0 ** -40 * scale))


def _pred_equal(p, q):
    if isinstance(p, tuple) != isinstance(q, tuple):
        return False
    if isinstance(p, tuple):
        return len(p) == len(q) and all(_close(x, y) for x, y in zip(p, q))
    return _close(p, q)


def _fitargs(ds, vector, weighted):
    e, n, d, w = ds
    if vector:
        return (e, n), (d, 2.0 - d), ((w, w) if weighted else None)
    return (e, n), d, (w if weighted else None)


def _history(vd, rnd, tier):
    from sklearn.base import clone
    cases = []
    ests = _estimators(vd)
    reps = 2 if tier == "quick" else 10
    probe = (np.linspace(0.5, 9.5, 7), np.linspace(-4.5, 4.5, 7))

    def boolcase(inp, out, holds, repro, kind):
        cases.append(Case(inp, out, "mk_verdict true %s" % cbool(holds), repro, kind, nontrivial=True))

    with warnings.catch_warnings():
        warnings.simplefilter("ignore")
        for name, (mk, vector) in ests.items():
            try:
                # predict before fit must raise, for every predicting method
                for meth in ("predict", "grid", "profile", "score", "filter-free-predict"):
                    est = mk()
                    try:
                        if meth == "predict":
                            est.predict(probe)
                        elif meth == "grid":
                            est.grid(region=(0, 10, -5, 5), shape=(4, 4))
                        elif meth == "profile":
                            est.profile((0, 0), (5, 5), size=5)
                        elif meth == "score":
                            ds = _dataset(rnd, 12)
                            c, d, w = _fitargs(ds, vector, False)
                            est.score(c, d)
                        else:
                            clone(est).predict(probe)
                        raised, exn = False, None
                    except Exception as exc:      # noqa
                        raised, exn = True, type(exc).__name__
                    boolcase({"estimator": name, "call_before_fit": meth}, {"raised": raised, "exception": exn}, raised,
                             "import verde as vd, numpy as np  # %s().%s before fit must raise" % (name, meth), "unfitted")
                for rep in range(reps):
                    k = 1 + (rep % 4)
                    weighted = name in ("Trend", "Spline", "VectorSpline2D", "Vector", "SplineCV", "Chain") and rep % 2 == 1
                    sizes = [rnd.choice([14, 18, 24, 30]) for _ in range(k)]
                    if k > 1 and rep % 3 == 0:
                        sizes[-1] = min(sizes) - 2          # last data set smaller than an earlier one
                    dss = [_dataset(rnd, n, twod=(rep % 5 == 4), offset=rnd.choice([0.0, 1.5])) for n in sizes]
                    est = mk()
                    for ds in dss:
                        est.fit(*_fitargs(ds, vector, weighted))
                    if name == "VectorSpline2D":
                        fc = tuple(np.ravel(x).copy() for x in dss[0][:2])
                        fresh = vd.VectorSpline2D(poisson=0.4, mindist=2.0, damping=1e-3, force_coords=fc)
                    else:
                        fresh = mk()
                    fresh.fit(*_fitargs(dss[-1], vector, weighted))
                    same = _pred_equal(est.predict(probe), fresh.predict(probe)) and _close(est.region_, fresh.region_)
                    boolcase({"estimator": name, "fit_sizes": sizes, "weighted": weighted, "seed_rep": rep},
                             {"same_as_fresh": same}, same,
                             "import verde as vd  # %s fitted to %d data sets (sizes %r) vs fresh fitted to the last" % (name, k, sizes), "refit")
                    # filter == fit + residual, and does not depend on history either
                    if name not in ("Vector", "VectorSpline2D") or True:
                        c, d, w = _fitargs(dss[-1], vector, weighted)
                        r1 = est.filter(c, d, w)[1]
                        r2 = mk().filter(c, d, w)[1] if name != "VectorSpline2D" else fresh.filter(c, d, w)[1]
                        boolcase({"estimator": name, "filter_after_history": sizes, "weighted": weighted}, {}, _pred_equal(r1, r2),
                                 "import verde as vd  # %s.filter after a history vs fresh" % name, "refit")
                    # clone / get_params / set_params
                    base = mk()
                    cl = clone(base)
                    p1, p2 = base.get_params(deep=False), cl.get_params(deep=False)
                    same_params = set(p1) == set(p2) and all(
                        (p1[k_] is p2[k_]) or repr(p1[k_]) == repr(p2[k_]) for k_ in p1)
                    rt = type(base)(**p1)
                    rt2 = mk().set_params(**mk().get_params(deep=False))
                    args = _fitargs(dss[-1], vector, weighted)
                    preds = [o.fit(*args).predict(probe) for o in (base, cl, rt, rt2)]
                    same_beh = all(_pred_equal(preds[0], q) for q in preds[1:])
                    cl2 = clone(base)                 # clone of a fitted estimator is unfitted
                    try:
                        cl2.predict(probe)
                        unf = False
                    except Exception:      # noqa
                        unf = True
                    boolcase({"estimator": name, "clone_roundtrip": rep}, {"same_params": same_params, "same_behaviour": same_beh,
                                                                            "clone_of_fitted_is_unfitted": unf},
                             same_params and same_beh and unf, "from sklearn.base import clone; import verde as vd  # clone(%s)" % name, "clone")
            except Exception as exc:      # noqa: an exception inside a valid history is itself a failure
                boolcase({"estimator": name, "history_stream_error": "%s: %s" % (type(exc).__name__, str(exc)[:160])}, {}, False,
                         "# see harness/c20.py _history for estimator %s" % name, "refit")
        # estimators without fit: clone round trip
        for name, mk in {"BlockReduce": lambda: vd.BlockReduce(np.median, spacing=2.0), "BlockMean": lambda: vd.BlockMean(spacing=2.0),
                         "CheckerBoard": lambda: vd.synthetic.CheckerBoard(region=(0, 10, -5, 5))}.items():
            try:
                base = mk()
                cl = clone(base)
                rt = type(base)(**base.get_params(deep=False))
                ds = _dataset(rnd, 40)
                if name.startswith("Block") and "filter" in dir(base):
                    outs = [_snap(o.filter((ds[0], ds[1]), ds[2])) for o in (base, cl, rt)]
                elif name == "CheckerBoard":
                    outs = [_snap(o.predict(probe)) for o in (base, cl, rt)]
                else:
                    X = np.c_[ds[0], ds[1]]
                    outs = [_snap([list(map(np.asarray, s)) for s in o.split(X)]) for o in (base, cl, rt)]
                ok = outs[0] == outs[1] == outs[2]
                boolcase({"estimator": name, "clone_roundtrip": "params"}, {"same_behaviour": ok}, ok,
                         "from sklearn.base import clone; import verde as vd  # clone(%s)" % name, "clone")
            except Exception as exc:      # noqa
                boolcase({"estimator": name, "clone_stream_error": "%s: %s" % (type(exc).__name__, str(exc)[:160])}, {}, False,
                         "# see harness/c20.py _history", "clone")
    return cases


def _identical(p, q):
    """bit-for-bit equality of predictions (NaN == NaN)"""
    if isinstance(p, (tuple, list)) != isinstance(q, (tuple, list)):
        return False
    if isinstance(p, (tuple, list)):
        return len(p) == len(q) and all(_identical(x, y) for x, y in zip(p, q))
    a, b = np.asarray(p), np.asarray(q)
    return a.shape == b.shape and a.dtype == b.dtype and a.tobytes() == b.tobytes()


def _lattice_dataset(rnd, n):
    """n distinct points on a 1/8 lattice in [0,10]x[-5,5] with data and weights (short exact literals for replays)"""
    pts = set()
    while len(pts) < n:
        pts.add((rnd.randint(0, 80) / 8.0, rnd.randint(-40, 40) / 8.0))
    pts = sorted(pts)
    rnd.shuffle(pts)
    e = np.array([p[0] for p in pts])
    no = np.array([p[1] for p in pts])
    d = np.array([round(3.0 + 0.5 * x - 0.25 * y + np.sin(x) * np.cos(y), 3) for x, y in pts])
    w = np.array([rnd.randint(4, 16) / 8.0 for _ in pts])
    return e, no, d, w


def _same_bbox(rnd, A, variant):
    """a data set with the SAME number of points and the SAME bounding box as A"""
    e, no, d, w = A
    n = e.size
    if variant == "permuted":
        perm = list(range(n))
        while perm == list(range(n)):
            rnd.shuffle(perm)
        perm = np.array(perm)
        return e[perm], no[perm], d[perm], w[perm]
    # the extreme points are kept (so bounding box and count are equal), the interior is new
    keep = sorted({int(np.argmin(e)), int(np.argmax(e)), int(np.argmin(no)), int(np.argmax(no))})
    pts = {(float(e[i]), float(no[i])) for i in keep}
    lo_e, hi_e, lo_n, hi_n = e.min(), e.max(), no.min(), no.max()
    guard = 0
    while len(pts) < n and guard < 10000:
        guard += 1
        x, y = rnd.randint(0, 80) / 8.0, rnd.randint(-40, 40) / 8.0
        if lo_e <= x <= hi_e and lo_n <= y <= hi_n:
            pts.add((x, y))
    pts = sorted(pts)
    rnd.shuffle(pts)
    e2 = np.array([p[0] for p in pts])
    n2 = np.array([p[1] for p in pts])
    d2 = np.array([round(-1.0 + 0.125 * x * y + np.cos(x), 3) for x, y in pts])
    w2 = np.array([rnd.randint(4, 16) / 8.0 for _ in pts])
    return e2, n2, d2, w2


_MK_SRC = {
    "Trend": "vd.Trend(2)", "Spline": "vd.Spline(damping=1e-4)", "SplineCV": "vd.SplineCV(dampings=(1e-4, 1e-2))",
    "KNeighbors": "vd.KNeighbors(k=3)", "Linear": "vd.Linear()", "Cubic": "vd.Cubic()", "ScipyGridder": "vd.ScipyGridder(method='nearest')",
    "Chain": "vd.Chain([('trend', vd.Trend(1)), ('reduce', vd.BlockReduce(np.average, spacing=1.0)), ('spline', vd.Spline(damping=1e-3))])",
    "Vector": "vd.Vector([vd.Trend(1), vd.Spline(damping=1e-3)])",
    "VectorSpline2D": "vd.VectorSpline2D(poisson=0.4, mindist=2.0, damping=1e-3, force_coords=FC)",
}


def _history_same_bbox(vd, rnd, tier):
    """refits where the new data set has the same size and bounding box as the previous one (permuted order, or other
    interior points with the same extreme points): anything a fit might be tempted to cache on (count, region) is wrong here.
    Compared BIT FOR BIT with a fresh estimator; the data are embedded in the replay."""
    cases = []
    ests = _estimators(vd)
    reps = 1 if tier == "quick" else 5
    probe = (np.array([0.5, 2.25, 4.0, 5.75, 7.5, 9.25]), np.array([-4.5, -2.0, 0.25, 1.5, 3.0, 4.5]))

    def lit(a):
        return "np.array(%r)" % (np.asarray(a).tolist(),)

    with warnings.catch_warnings():
        warnings.simplefilter("ignore")
        for name, (mk, vector) in ests.items():
            for rep in range(reps):
                for variant in ("permuted", "same-extremes", "permuted-then-back"):
                    for weighted in ((False, True) if name in ("Trend", "Spline", "VectorSpline2D", "Vector", "Chain") and rep % 2 == 0 else (False,)):
                        n = rnd.choice([12, 14, 16])
                        A = _lattice_dataset(rnd, n)
                        if variant == "permuted-then-back":
                            seq = [A, _same_bbox(rnd, A, "same-extremes"), _same_bbox(rnd, A, "permuted")]
                        else:
                            seq = [A, _same_bbox(rnd, A, variant)]
                        inp = {"estimator": name, "variant": variant, "weighted": weighted, "n_points": n,
                               "datasets": [{"easting": ds[0].tolist(), "northing": ds[1].tolist(), "data": ds[2].tolist(),
                                             "weights": ds[3].tolist() if weighted else None} for ds in seq]}
                        try:
                            est = mk()
                            for ds in seq:
                                est.fit(*_fitargs(ds, vector, weighted))
                            if name == "VectorSpline2D":
                                fc = tuple(np.ravel(x).copy() for x in seq[0][:2])
                                fresh = vd.VectorSpline2D(poisson=0.4, mindist=2.0, damping=1e-3, force_coords=fc)
                            else:
                                fresh = mk()
                            last = seq[-1]
                            fresh.fit(*_fitargs(last, vector, weighted))
                            at_data = (last[0], last[1])
                            same = (_identical(est.predict(probe), fresh.predict(probe)) and _identical(est.predict(at_data), fresh.predict(at_data))
                                    and _identical(tuple(float(x) for x in est.region_), tuple(float(x) for x in fresh.region_)))
                            out = {"identical_to_fresh": same}
                        except Exception as exc:      # noqa
                            same, out = False, {"error": "%s: %s" % (type(exc).__name__, str(exc)[:160])}

                        def args_src(ds):
                            if vector:
                                return "(%s, %s), (%s, 2.0 - %s), %s" % (lit(ds[0]), lit(ds[1]), lit(ds[2]), lit(ds[2]),
                                                                          "(%s, %s)" % (lit(ds[3]), lit(ds[3])) if weighted else "None")
                            return "(%s, %s), %s, %s" % (lit(ds[0]), lit(ds[1]), lit(ds[2]), lit(ds[3]) if weighted else "None")
                        mk_src = _MK_SRC[name]
                        fresh_src = mk_src.replace("FC", "(%s, %s)" % (lit(seq[0][0]), lit(seq[0][1])))
                        repro = ("import warnings; warnings.simplefilter('ignore'); import numpy as np, verde as vd; "
                                 "est = %s; " % mk_src.replace(", force_coords=FC", "")
                                 + "".join("est.fit(%s); " % args_src(ds) for ds in seq)
                                 + "fresh = %s; fresh.fit(%s); " % (fresh_src, args_src(seq[-1]))
                                 + "p = (%s, %s); a, b = est.predict(p), fresh.predict(p); " % (lit(seq[-1][0]), lit(seq[-1][1]))
                                 + "print('refitted:', a); print('fresh:   ', b); print('identical:', np.array_equal(np.asarray(a), np.asarray(b), equal_nan=True))")
                        cases.append(Case(inp, out, "mk_verdict true %s" % cbool(same), repro, "refit-same-bbox", nontrivial=True))
        # stateless reducers: one object used on A then on a same-bbox B must answer like a fresh object
        for name, mk in {"BlockReduce": lambda: vd.BlockReduce(np.median, spacing=2.0), "BlockMean": lambda: vd.BlockMean(spacing=2.0)}.items():
            for rep in range(reps):
                for variant in ("permuted", "same-extremes"):
                    A = _lattice_dataset(rnd, 24)
                    B = _same_bbox(rnd, A, variant)
                    inp = {"estimator": name, "variant": variant, "method": "filter",
                           "datasets": [{"easting": ds[0].tolist(), "northing": ds[1].tolist(), "data": ds[2].tolist()} for ds in (A, B)]}
                    try:
                        obj = mk()
                        obj.filter((A[0], A[1]), A[2])
                        same = _snap(obj.filter((B[0], B[1]), B[2])) == _snap(mk().filter((B[0], B[1]), B[2]))
                        out = {"identical_to_fresh": same}
                    except Exception as exc:      # noqa
                        same, out = False, {"error": "%s: %s" % (type(exc).__name__, str(exc)[:160])}
                    cases.append(Case(inp, out, "mk_verdict true %s" % cbool(same),
                                      "# %s: o.filter(A); o.filter(B) vs fresh.filter(B) with the data sets of this replay" % name,
                                      "refit-same-bbox", nontrivial=True))
    return cases


def _psnap(v, depth=0):
    """value snapshot of a constructor parameter (arrays bit for bit)"""
    if depth > 6:
        return "deep"
    if isinstance(v, np.ndarray):
        return ("nd", str(v.dtype), v.shape, hashlib.sha1(np.ascontiguousarray(v).tobytes()).hexdigest())
    if isinstance(v, (list, tuple)):
        return (type(v).__name__,) + tuple(_psnap(x, depth + 1) for x in v)
    if isinstance(v, dict):
        return ("dict",) + tuple((str(k), _psnap(x, depth + 1)) for k, x in sorted(v.items(), key=lambda kv: str(kv[0])))
    if hasattr(v, "get_params"):
        return ("est", type(v).__name__, id(v))
    if callable(v):
        return ("callable", getattr(v, "__module__", ""), getattr(v, "__qualname__", repr(v)))
    return ("val", type(v).__name__, repr(v))


def _noid(v):
    """drop object identities (for comparing two different but equal estimators)"""
    if isinstance(v, tuple):
        if len(v) == 3 and v[0] == "est":
            return v[:2]
        return tuple(_noid(x) for x in v)
    return v


def _params(est):
    return {k: _psnap(v) for k, v in est.get_params(deep=True).items()}


def _params_diff(before, after, allow=()):
    keys = sorted(set(before) | set(after))
    return [k for k in keys if k not in allow and before.get(k) != after.get(k)]


def _history_params(vd, rnd, tier):
    """(a) no call writes a constructor parameter: get_params(deep=True) before == after every fit / predict / grid / scatter /
    profile / score / filter;  (b) refits whose FIRST data set is tiny (fewer points than k / forces / polynomial terms);
    (c) clone of a fitted estimator == fresh estimator;  (d) composite estimators and SplineCV must raise before fit, with fresh
    and with individually pre-fitted components."""
    from sklearn.base import clone
    cases = []
    ests = dict(_estimators(vd))
    ests["KNeighbors(k=5)"] = (lambda: vd.KNeighbors(k=5), False)
    ests["Trend(3)"] = (lambda: vd.Trend(3), False)
    src = dict(_MK_SRC)
    src["KNeighbors(k=5)"] = "vd.KNeighbors(k=5)"
    src["Trend(3)"] = "vd.Trend(3)"
    reps = 1 if tier == "quick" else 4
    probe = (np.array([0.5, 2.25, 4.0, 5.75, 7.5, 9.25]), np.array([-4.5, -2.0, 0.25, 1.5, 3.0, 4.5]))
    region = (0.0, 10.0, -5.0, 5.0)

    def lit(a):
        return "np.array(%r)" % (np.asarray(a).tolist(),)

    def args_src(ds, vector, weighted=False):
        if vector:
            return "(%s, %s), (%s, 2.0 - %s), None" % (lit(ds[0]), lit(ds[1]), lit(ds[2]), lit(ds[2]))
        return "(%s, %s), %s, None" % (lit(ds[0]), lit(ds[1]), lit(ds[2]))

    def boolcase(inp, out, holds, repro, kind, nontrivial=True):
        cases.append(Case(inp, out, "mk_verdict true %s" % cbool(holds), repro, kind, nontrivial=nontrivial))

    with warnings.catch_warnings():
        warnings.simplefilter("ignore")
        for name, (mk, vector) in ests.items():
            allow = ("force_coords",) if name == "VectorSpline2D" else ()      # documented write-once parameter
            for rep in range(reps):
                # ---- (a) parameters unchanged by every call, tiny and normal data sets
                for size in ("tiny", "normal"):
                    n = rnd.choice([3, 4]) if size == "tiny" else rnd.choice([14, 18])
                    ds = _lattice_dataset(rnd, n)
                    est = mk()
                    before = _params(est)
                    calls = [("fit", lambda: est.fit(*_fitargs(ds, vector, False)))]
                    if size == "normal":
                        calls += [("predict", lambda: est.predict(probe)),
                                  ("grid", lambda: est.grid(region=region, shape=(3, 4))),
                                  ("scatter", lambda: est.scatter(region=region, size=5, random_state=0)),
                                  ("profile", lambda: est.profile((1.0, -3.0), (8.0, 3.0), size=5)),
                                  ("score", lambda: est.score(*_fitargs(ds, vector, False))),
                                  ("filter", lambda: est.filter(*_fitargs(ds, vector, False)))]
                    for cname, fn in calls:
                        try:
                            fn()
                            err = None
                        except Exception as exc:      # noqa
                            err = "%s: %s" % (type(exc).__name__, str(exc)[:100])
                        if err is not None and cname == "fit":
                            break                       # this estimator does not accept so few points: not applicable
                        after = _params(est)
                        changed = _params_diff(before, after, allow)
                        raw = est.get_params(deep=True)
                        boolcase({"estimator": name, "call": cname, "data_set": size, "n_points": n,
                                  "easting": ds[0].tolist(), "northing": ds[1].tolist(), "data": ds[2].tolist()},
                                 {"changed_parameters": {k: repr(raw.get(k))[:80] for k in changed}, "error": err}, not changed,
                                 "import warnings; warnings.simplefilter('ignore'); import numpy as np, verde as vd; est = %s; p0 = {k: repr(v) for k, v in est.get_params().items()}; "
                                 "est.fit(%s); p1 = {k: repr(v) for k, v in est.get_params().items()}; print({k: (p0[k], p1[k]) for k in p0 if p0[k] != p1[k]})  # call under test: %s"
                                 % (src[name].replace(", force_coords=FC", ""), args_src(ds, vector), cname), "params-unchanged")
                        if name == "VectorSpline2D":
                            before = after if cname == "fit" else before      # after the first fit force_coords must stay put as well
                            allow = () if cname == "fit" else allow
                    allow = ("force_coords",) if name == "VectorSpline2D" else ()
                # ---- (b) tiny first data set, then a normal one, vs fresh;  (c) clone of the fitted estimator vs fresh
                tiny = _lattice_dataset(rnd, rnd.choice([3, 4]))
                big = _lattice_dataset(rnd, rnd.choice([14, 18]))
                est = mk()
                try:
                    est.fit(*_fitargs(tiny, vector, False))
                    applicable = True
                except Exception:      # noqa
                    applicable = False
                if applicable:
                    if name == "VectorSpline2D":
                        fc = tuple(np.ravel(x).copy() for x in tiny[:2])
                        mkfresh = lambda: vd.VectorSpline2D(poisson=0.4, mindist=2.0, damping=1e-3, force_coords=fc)
                    else:
                        mkfresh = mk
                    fresh_src = src[name].replace("FC", "(%s, %s)" % (lit(tiny[0]), lit(tiny[1])))
                    for kind, build in (("refit-tiny-first", lambda: est), ("clone-after-fit", lambda: clone(est))):
                        try:
                            obj = build()
                            same_params = _params_diff({k: _noid(v) for k, v in _params(obj).items()},
                                                       {k: _noid(v) for k, v in _params(mkfresh()).items()}) == [] \
                                if kind == "clone-after-fit" else True
                            obj.fit(*_fitargs(big, vector, False))
                            fresh = mkfresh().fit(*_fitargs(big, vector, False))
                            same = _identical(obj.predict(probe), fresh.predict(probe)) and _identical(obj.predict((big[0], big[1])), fresh.predict((big[0], big[1])))
                            out = {"identical_to_fresh": same, "same_parameters_as_fresh": same_params}
                            holds = same and same_params
                        except Exception as exc:      # noqa
                            holds, out = False, {"error": "%s: %s" % (type(exc).__name__, str(exc)[:160])}
                        repro = ("import warnings; warnings.simplefilter('ignore'); import numpy as np, verde as vd; from sklearn.base import clone; "
                                 "est = %s; est.fit(%s); " % (src[name].replace(", force_coords=FC", ""), args_src(tiny, vector))
                                 + ("est = clone(est); " if kind == "clone-after-fit" else "")
                                 + "print(est.get_params()); est.fit(%s); fresh = %s; fresh.fit(%s); " % (args_src(big, vector), fresh_src, args_src(big, vector))
                                 + "p = (%s, %s); a, b = est.predict(p), fresh.predict(p); print(a); print(b); print('identical:', np.array_equal(np.asarray(a), np.asarray(b), equal_nan=True))"
                                 % (lit(big[0]), lit(big[1])))
                        boolcase({"estimator": name, "first_data_set": {"easting": tiny[0].tolist(), "northing": tiny[1].tolist(), "data": tiny[2].tolist()},
                                  "second_data_set": {"easting": big[0].tolist(), "northing": big[1].tolist(), "data": big[2].tolist()}}, out, holds, repro, kind)
        # ---- (d) composite estimators / SplineCV before fit: fresh and individually pre-fitted components
        ds = _lattice_dataset(rnd, 16)
        c, d = (ds[0], ds[1]), ds[2]

        def comp(fitted):
            t, sp = vd.Trend(1), vd.Spline(damping=1e-3)
            if fitted:
                t.fit(c, d)
                sp.fit(c, d)
            return t, sp
        composites = {}
        for fitted in (False, True):
            tag = "pre-fitted components" if fitted else "fresh components"
            composites["Vector (%s)" % tag] = (lambda fitted=fitted: vd.Vector(list(comp(fitted))), True,
                                               "vd.Vector([vd.Trend(1)%s, vd.Spline(damping=1e-3)%s])" % ((".fit(c, d)",) * 2 if fitted else ("", "")))
            composites["Chain (%s)" % tag] = (lambda fitted=fitted: vd.Chain([("trend", comp(fitted)[0]), ("spline", comp(fitted)[1])]), False,
                                              "vd.Chain([('trend', vd.Trend(1)%s), ('spline', vd.Spline(damping=1e-3)%s)])" % ((".fit(c, d)",) * 2 if fitted else ("", "")))
        composites["SplineCV"] = (lambda: vd.SplineCV(dampings=(1e-4, 1e-2)), False, "vd.SplineCV(dampings=(1e-4, 1e-2))")
        for cname, (mkc, vector, csrc) in composites.items():
            for meth, call, msrc in (
                    ("predict", lambda o: o.predict(probe), "o.predict((np.linspace(0, 9, 5), np.linspace(-4, 4, 5)))"),
                    ("grid", lambda o: o.grid(region=region, shape=(3, 4)), "o.grid(region=(0, 10, -5, 5), shape=(3, 4))"),
                    ("scatter", lambda o: o.scatter(region=region, size=5, random_state=0), "o.scatter(region=(0, 10, -5, 5), size=5)"),
                    ("profile", lambda o: o.profile((1.0, -3.0), (8.0, 3.0), size=5), "o.profile((1, -3), (8, 3), size=5)"),
                    ("score", lambda o: o.score(c, (d, 2.0 - d) if vector else d), "o.score(c, %s)" % ("(d, 2.0 - d)" if vector else "d"))):
                obj = mkc()
                try:
                    call(obj)
                    raised, exn = False, None
                except Exception as exc:      # noqa
                    raised, exn = True, type(exc).__name__
                boolcase({"estimator": cname, "call_before_fit": meth, "component_data": {"easting": ds[0].tolist(), "northing": ds[1].tolist(), "data": ds[2].tolist()}},
                         {"raised": raised, "exception": exn}, raised,
                         "import warnings; warnings.simplefilter('ignore'); import numpy as np, verde as vd; c = (%s, %s); d = %s; o = %s; print(%s)  # must raise: o.fit was never called"
                         % (lit(ds[0]), lit(ds[1]), lit(ds[2]), csrc, msrc), "unfitted-composite")
    return cases


def _calls(vd, rnd):
    """catalogue of public calls: name -> builder() -> (callable, args tuple, kwargs)  (fresh arguments each time)"""
    import xarray as xr

    def ds(n=20, twod=False):
        return _dataset(rnd, n, twod=twod)

    def coords(n=20, twod=False):
        e, no, d, w = ds(n, twod)
        return (e, no)

    def grid_da():
        g = vd.grid_coordinates((0, 5, -2, 2), spacing=1.0)
        return vd.make_xarray_grid(g, np.sin(g[0]) + g[1], data_names="scalars").scalars

    cat = {}
    cat["check_fit_input"] = lambda: (vd.base.check_fit_input, (coords(), ds()[2], ds()[3]), {})
    cat["n_1d_arrays"] = lambda: (vd.base.n_1d_arrays, (coords(12, True), 2), {})
    cat["least_squares(copy_jacobian=True)"] = lambda: (vd.base.least_squares, (np.array([[rnd.uniform(1, 2) for _ in range(3)] for _ in range(8)]),
                                                        ds(8)[2], ds(8)[3]), {"damping": 1e-3, "copy_jacobian": True})
    cat["least_squares"] = lambda: (vd.base.least_squares, (np.array([[rnd.uniform(1, 2) for _ in range(3)] for _ in range(8)]),
                                    ds(8)[2], None), {})
    cat["get_region"] = lambda: (vd.get_region, (coords(),), {})
    cat["pad_region"] = lambda: (vd.pad_region, (np.array([0.0, 5.0, -1.0, 2.0]), np.array([1.0, 2.0])), {})
    cat["inside"] = lambda: (vd.inside, (coords(12, True), np.array([2.0, 8.0, -3.0, 3.0])), {})
    cat["block_split"] = lambda: (vd.block_split, (coords(),), {"spacing": np.array([2.0, 2.5])})
    cat["expanding_window"] = lambda: (vd.expanding_window, (coords(), np.array([5.0, 0.0]), np.array([2.0, 6.0])), {})
    cat["rolling_window"] = lambda: (vd.rolling_window, (coords(30),), {"size": 4.0, "spacing": np.array([2.0, 2.0])})
    cat["grid_coordinates"] = lambda: (vd.grid_coordinates, (np.array([0.0, 5.0, -1.0, 2.0]),), {"spacing": np.array([0.5, 1.0]), "extra_coords": np.array([3.0, 4.0])})
    cat["line_coordinates"] = lambda: (vd.line_coordinates, (np.float64(0.0), np.float64(3.0)), {"spacing": np.float64(0.5)})
    cat["longitude_continuity"] = lambda: (vd.longitude_continuity, ([np.array([350.0, 5.0, 10.0]), np.array([0.0, 1.0, -1.0])], np.array([340.0, 20.0, -5.0, 5.0])), {})
    cat["longitude_continuity(list)"] = lambda: (vd.longitude_continuity, ([np.array([-170.0, 170.0]), np.array([0.0, 1.0])], [160.0, 190.0, -5.0, 5.0]), {})
    cat["profile_coordinates"] = lambda: (vd.profile_coordinates, (np.array([0.0, 1.0]), np.array([4.0, 5.0]), 6), {"extra_coords": np.array([2.0])})
    cat["scatter_points"] = lambda: (vd.scatter_points, (np.array([0.0, 5.0, -1.0, 2.0]), 7), {"random_state": 4, "extra_coords": np.array([1.0])})
    cat["median_distance"] = lambda: (vd.median_distance, (coords(12, True),), {"k_nearest": 2})
    cat["distance_mask"] = lambda: (vd.distance_mask, (coords(),), {"maxdist": 1.5, "coordinates": vd.grid_coordinates((0, 10, -5, 5), spacing=1.0)})
    cat["convexhull_mask"] = lambda: (vd.convexhull_mask, (coords(),), {"coordinates": vd.grid_coordinates((0, 10, -5, 5), spacing=1.0)})
    cat["maxabs"] = lambda: (vd.maxabs, (ds()[2], ds(6)[2] * -3), {})
    cat["variance_to_weights"] = lambda: (vd.variance_to_weights, (np.array([0.0, 2.0, np.nan, 0.2, 1e-20]),), {})
    cat["variance_to_weights(tuple)"] = lambda: (vd.variance_to_weights, ((np.array([np.nan, 2.0, 0.5]), np.array([[4.0, np.inf], [0.0, 1.0]])),), {})
    cat["grid_to_table"] = lambda: (vd.grid_to_table, (grid_da(),), {})
    cat["make_xarray_grid"] = lambda: (lambda c, d: vd.make_xarray_grid(c, d, data_names="dummy", extra_coords_names="upward"), (vd.grid_coordinates((0, 4, 0, 3), spacing=1.0, extra_coords=2.0), np.ones((4, 5))), {})
    cat["project_region"] = lambda: (vd.project_region, (np.array([0.0, 5.0, -1.0, 2.0]), lambda e, n: (e * 2.0, n + 1.0)), {})
    cat["project_grid"] = lambda: (vd.project_grid, (grid_da(), lambda e, n: (e * 2.0, n + 1.0)), {"method": "nearest"})
    cat["train_test_split"] = lambda: (vd.train_test_split, (coords(), ds()[2], ds()[3]), {"random_state": 1})
    cat["train_test_split(blocked)"] = lambda: (vd.train_test_split, (coords(40), ds(40)[2]), {"random_state": 1, "spacing": 2.5})
    cat["cross_val_score"] = lambda: (vd.cross_val_score, (vd.Trend(1), coords(), ds()[2], ds()[3]), {})
    for cvn, cv in {"BlockKFold": lambda: vd.BlockKFold(spacing=2.5, n_splits=3, shuffle=True, random_state=2),
                    "BlockShuffleSplit": lambda: vd.BlockShuffleSplit(spacing=2.5, n_splits=3, random_state=2)}.items():
        cat["%s.split" % cvn] = (lambda cv=cv: (lambda X: [tuple(map(np.asarray, s)) for s in cv().split(X)], (np.c_[coords(40)],), {}))
    ests = _estimators(vd)
    for name, (mk, vector) in ests.items():
        def fitted(mk=mk, vector=vector):
            est = mk()
            data = ds(24)
            est.fit(*_fitargs(data, vector, False))
            return est, data
        for weighted in (False, True):
            tag = "(weights)" if weighted else ""
            cat["%s.fit%s" % (name, tag)] = (lambda mk=mk, vector=vector, weighted=weighted:
                                             (lambda c, d, w: _probe(mk().fit(c, d, w)), _fitargs(ds(22, twod=weighted), vector, weighted), {}))
            cat["%s.filter%s" % (name, tag)] = (lambda mk=mk, vector=vector, weighted=weighted:
                                                (lambda c, d, w: mk().filter(c, d, w), _fitargs(ds(22), vector, weighted), {}))

        def b_predict(fitted=fitted):
            est, _ = fitted()
            return est.predict, (coords(10, True),), {}

        def b_score(fitted=fitted, vector=vector):
            est, data = fitted()
            return est.score, _fitargs(tuple(np.array(x) for x in data), vector, True), {}

        def b_grid(fitted=fitted):
            est, _ = fitted()
            return (lambda region, spacing, extra: est.grid(region=region, spacing=spacing, extra_coords=extra),
                    (np.array([1.0, 9.0, -4.0, 4.0]), np.array([2.0, 2.0]), np.array([1.0])), {})

        def b_gridc(fitted=fitted):
            est, _ = fitted()
            return (lambda c: est.grid(coordinates=c), ((np.linspace(1, 9, 5), np.linspace(-4, 4, 4)),), {})

        def b_profile(fitted=fitted):
            est, _ = fitted()
            return (lambda p1, p2: est.profile(p1, p2, size=6), (np.array([1.0, -3.0]), np.array([8.0, 3.0])), {})

        def b_scatter(fitted=fitted):
            est, _ = fitted()
            return (lambda region: est.scatter(region=region, size=8, random_state=3), (np.array([1.0, 9.0, -4.0, 4.0]),), {})
        cat["%s.predict" % name] = b_predict
        cat["%s.score" % name] = b_score
        cat["%s.grid" % name] = b_grid
        cat["%s.grid(coordinates)" % name] = b_gridc
        cat["%s.profile" % name] = b_profile
        cat["%s.scatter" % name] = b_scatter
    for w in (False, True):
        tag = "(weights)" if w else ""
        cat["BlockReduce.filter%s" % tag] = (lambda w=w: (lambda c, d, ww: vd.BlockReduce(np.average if w else np.median, spacing=2.0, center_coordinates=w).filter(c, d, ww),
                                                          ((ds(30)[0], ds(30)[1], ds(30)[3]), ds(30)[2], ds(30)[3] if w else None), {}))
        cat["BlockMean.filter%s" % tag] = (lambda w=w: (lambda c, d, ww: vd.BlockMean(spacing=2.0, uncertainty=w).filter(c, d, ww),
                                                        (coords(30), (ds(30)[2], ds(30)[2] * 2), (ds(30)[3], ds(30)[3]) if w else None), {}))
    cat["CheckerBoard.predict"] = lambda: (vd.synthetic.CheckerBoard(region=(0, 10, -5, 5)).predict, (coords(12, True),), {})
    cat["CheckerBoard.grid"] = lambda: (lambda s: vd.synthetic.CheckerBoard(region=(0, 10, -5, 5)).grid(spacing=s), (np.array([1.0, 2.0]),), {})
    return cat


def _probe(est):
    p = (np.linspace(0.5, 9.5, 5), np.linspace(-4.5, 4.5, 5))
    return est.predict(p)


def _purity(vd, rnd, tier):
    cases = []
    reps = 1 if tier == "quick" else 5
    seed0 = rnd.randint(0, 10 ** 6)
    for rep in range(reps):
        for mode in ("writable", "readonly", "repeat"):
            r2 = random.Random(seed0 + rep)
            cat = _calls(vd, r2)
            for name in sorted(cat):
                with warnings.catch_warnings():
                    warnings.simplefilter("ignore")
                    st = r2.getstate()
                    fn, args, kwargs = cat[name]()
                    before = _snap((args, kwargs))
                    if mode == "readonly":
                        _set_readonly(args)
                        _set_readonly(kwargs)
                    err = None
                    res = res2 = None
                    try:
                        res = _snap(fn(*args, **kwargs))
                        if mode == "repeat":
                            res2 = _snap(fn(*args, **kwargs))
                    except Exception as exc:      # noqa
                        err = "%s: %s" % (type(exc).__name__, str(exc)[:120])
                    after = _snap((args, kwargs))
                unchanged = before == after
                if mode == "repeat":
                    holds = err is None and res == res2
                    out = {"identical_results": res == res2, "error": err}
                    kind = "repeat"
                else:
                    holds = unchanged and err is None
                    out = {"arguments_unchanged": unchanged, "error": err}
                    kind = "purity" if mode == "writable" else "purity-readonly"
                inp = {"call": name, "mode": mode, "rep": rep, "generator_seed": seed0 + rep}
                cases.append(Case(inp, out, "mk_verdict true %s" % cbool(holds),
                                  "# harness.c20._calls(verde, random.Random(%d))[%r]() gives (callable, args, kwargs); compare harness.c20._snap(args) before/after"
                                  % (seed0 + rep, name), kind, nontrivial=True))
    return cases


def generate(tier, seed):
    import verde as vd
    rnd = random.Random(seed)
    cases = _static_cases()
    cases += _malformed(vd, rnd, tier)
    from . import c20_positions
    cases += c20_positions.generate(vd, rnd, tier, _extra)
    cases += _history(vd, rnd, tier)
    cases += _history_same_bbox(vd, rnd, tier)
    cases += _history_params(vd, rnd, tier)
    from . import c20_repeat
    cases += c20_repeat.random_state_cases(vd, rnd, tier)
    cases += c20_repeat.no_trace_cases(vd, rnd, tier, _extra)
    cases += c20_repeat.clone_param_cases(vd, rnd, tier)
    cases += _purity(vd, rnd, tier)
    return cases


def search(disagreeing, tier, seed):
    """an obligation broke (or a model disagreed) without a failing input in the default run: look harder with
    the dynamic history / purity streams at thorough size and other seeds"""
    import verde as vd
    out = []
    for k in (1, 2):
        rnd = random.Random(seed + k)
        if k == 1:
            from . import c20_positions
            out += c20_positions.generate(vd, rnd, "thorough", {})
            out += _malformed(vd, rnd, "thorough")
            from . import c20_repeat
            out += c20_repeat.random_state_cases(vd, rnd, "thorough")
            out += c20_repeat.no_trace_cases(vd, rnd, "thorough", {})
            out += c20_repeat.clone_param_cases(vd, rnd, "thorough")
        out += _history_same_bbox(vd, rnd, "thorough")
        out += _history_params(vd, rnd, "thorough")
        out += _history(vd, rnd, "thorough")
        out += _purity(vd, rnd, "quick")
    return out


def finding_key(case):
    inp = case.inp
    if isinstance(inp, dict):
        if inp.get("finding"):
            return inp["finding"]
        if inp.get("call") == "least_squares":
            return "F8-least_squares-copy_jacobian"
    return None
