"""C15 nearest-neighbour based results agree with brute-force distances:
KNeighbors.predict, median_distance, distance_mask (array and grid forms)."""
import random
import numpy as np
from . import core
from .core import Case, cD, cN, clist, cbool

ID = "C15"
PROPS_FILE = "Props/C15.v"
IMPORTS = "From Verde Require Import Model.Neighbors Model.NeighborCases."
SHARD = 40
RULE = ("KNeighbors: clouds of 3..30 points (jittered 1/8 lattice, uniform doubles, pure lattice with exact ties) with 1..12 query "
        "points including data points themselves and midpoints of data pairs (near ties), 1-D/2-D query and data arrays, extra "
        "coordinate arrays, every k = 1..n, reductions mean/median/min/max; a query whose k-th and (k+1)-th squared distances are "
        "within 2^-30 (relative) is excluded inside Coq. median_distance: clouds of 2..30 points incl. lattices and duplicates, "
        "every k = 1..n-1, 1-D/2-D, with projections. distance_mask: integer and 1/8 lattices with maxdist exactly attained "
        "(3-4-5, 5-12-13, 8-15-17 triangles, 0, negative), uniform doubles, affine projections evaluated by the model and arbitrary "
        "projections applied by the harness, 1-D/2-D/3-D query arrays, scalar data points; the grid form on non-square and square "
        "xarray Datasets (several dimension names, two data variables), compared cell by cell with the model and with the array "
        "form of the implementation on np.meshgrid(easting, northing). Non-trivial = at least one query not excluded; distinct = "
        "distinct argument tuples.")
ASSUMPTIONS = [
    "scipy.spatial.cKDTree.query is modelled by its brute-force specification (sort by squared distance, then index); "
    "queries with two candidate distances within 2^-30 relative are excluded, exact ties included",
    "predictions compared with tolerance 2^-40 x max|data|; median distances through their squares with tolerance 2^-40 relative; "
    "masks compared exactly outside a 2^-30 relative band around maxdist^2 (exact equality IS compared: lattice inputs are exact in floats)",
    "projections are deterministic: the harness applies the same callable to the same arrays to obtain the projected coordinates "
    "(or the model applies an affine projection whose float evaluation is exact on the lattice inputs used)",
    "xarray.Dataset.where keeps values where the mask is True and writes NaN elsewhere (observed, compared cell by cell)",
]
TRUSTED = ["harness/c15.py (generators, shape comparison, NaN pattern extraction from the masked Dataset)"]

RED = {"RMean": np.mean, "RMedian": np.median, "RMin": np.min, "RMax": np.max}


def dl(xs):
    return clist([cD(float(x)) for x in np.ravel(xs)])


def bl(xs):
    return clist([cbool(bool(b)) for b in np.ravel(xs)])


def fl(a):
    return np.asarray(a, dtype=float).tolist()


# ---------------------------------------------------------------------------
# clouds
# ---------------------------------------------------------------------------
def cloud(rnd, n, mode):
    if mode == "lattice":          # exact ties are frequent: exercises the exclusion
        e = [rnd.randint(-16, 16) / 8 for _ in range(n)]
        nn = [rnd.randint(-16, 16) / 8 for _ in range(n)]
    elif mode == "jitter":         # 1/8 lattice plus a random double: general position
        e = [rnd.randint(-16, 16) / 8 + rnd.uniform(-1, 1) / 32 for _ in range(n)]
        nn = [rnd.randint(-16, 16) / 8 + rnd.uniform(-1, 1) / 32 for _ in range(n)]
    elif mode == "int":            # integer-valued: also passed with integer / float32 dtypes
        e = [float(rnd.randint(-40, 40)) for _ in range(n)]
        nn = [float(rnd.randint(-40, 40)) for _ in range(n)]
    elif mode == "far":            # large offsets: differences small relative to the coordinates
        e = [1000.0 + rnd.uniform(-2, 2) for _ in range(n)]
        nn = [-2000.0 + rnd.uniform(-2, 2) for _ in range(n)]
    else:
        e = [rnd.uniform(-2, 2) for _ in range(n)]
        nn = [rnd.uniform(-2, 2) for _ in range(n)]
    return np.array(e), np.array(nn)


def queries(rnd, e, n, m, mode):
    qe, qn = [], []
    lo_e, hi_e, lo_n, hi_n = e.min() - 0.5, e.max() + 0.5, n.min() - 0.5, n.max() + 0.5
    for _ in range(m):
        t = rnd.random()
        if t < 0.2:                  # a data point itself
            i = rnd.randrange(len(e))
            qe.append(e[i]); qn.append(n[i])
        elif t < 0.3 and len(e) >= 2:  # midpoint of two data points: (near) tie between them
            i, j = rnd.sample(range(len(e)), 2)
            qe.append((e[i] + e[j]) / 2); qn.append((n[i] + n[j]) / 2)
        elif mode == "lattice" and t < 0.6:
            qe.append(rnd.randint(-18, 18) / 8 + 1 / 16); qn.append(rnd.randint(-18, 18) / 8 + 1 / 32)
        else:
            qe.append(rnd.uniform(lo_e, hi_e)); qn.append(rnd.uniform(lo_n, hi_n))
    return np.array(qe), np.array(qn)


def reshape2(rnd, *arrs):
    """reshape equally sized 1-D arrays to a random 2-D (or 3-D) shape with the same size"""
    m = arrs[0].size
    shapes = [(a, m // a) for a in range(1, m + 1) if m % a == 0]
    if m % 4 == 0 and m >= 8:
        shapes.append((2, 2, m // 4))
    shp = rnd.choice(shapes)
    return tuple(a.reshape(shp) for a in arrs)


# ---------------------------------------------------------------------------
# presentations: the same logical values in another container / dtype / memory layout.
# The model always receives the logical values (C order, as float64); results must not
# depend on the presentation.
# ---------------------------------------------------------------------------
class _Fix:
    def __init__(self, k):
        self.k = k

    def randrange(self, n):
        return self.k % n


def mk(values, tag):
    """build the argument actually passed to verde from the logical values and a presentation tag:
    'nd' | 'layout:<k>' | 'series:<index list>' | 'list' | 'tuple', optionally prefixed by a dtype 'int64+', 'int32+', 'float32+'"""
    import pandas as pd
    a = np.asarray(values, dtype=float)
    if "+" in tag:
        dt, tag = tag.split("+", 1)
        a = a.astype(dt)
    if tag == "nd":
        return a
    if tag.startswith("layout:"):
        return core.relayout(a, _Fix(int(tag[7:])))
    if tag.startswith("series:"):
        return pd.Series(a, index=[int(x) for x in tag[7:].split(",")])
    if tag == "list":
        return a.tolist()
    if tag == "tuple":
        return tuple(a.tolist()) if a.ndim == 1 else tuple(tuple(r) for r in a.tolist())
    raise ValueError(tag)


def present(rnd, values, allow):
    """choose a presentation allowed for this argument; returns (object, tag).
    allow: subset of {'layout', 'series', 'list', 'dtype'}"""
    a = np.asarray(values, dtype=float)
    opts = ["nd"]
    if "layout" in allow and a.ndim >= 1 and a.size > 1:
        opts += ["layout"] * (3 if a.ndim >= 2 else 1)
    if "series" in allow and a.ndim == 1:
        opts += ["series-perm", "series-perm", "series-shift"]
    if "list" in allow:
        opts += ["list", "tuple"]
    ch = rnd.choice(opts)
    if ch == "layout":
        tag = "layout:%d" % rnd.randrange(4)
    elif ch == "series-perm":       # integer labels 0..n-1 in another order: a label lookup would read other rows
        idx = list(range(a.size)); rnd.shuffle(idx)
        tag = "series:" + ",".join(map(str, idx))
    elif ch == "series-shift":      # integer labels that are not positions at all
        off = rnd.choice([1, 5, -3, 100])
        tag = "series:" + ",".join(str(i + off) for i in range(a.size))
    else:
        tag = ch
    if "dtype" in allow and a.size and rnd.random() < 0.6:
        dts = []
        if np.all(a == np.round(a)) and np.all(np.abs(a) < 2 ** 30):
            dts += ["int64", "int32"]
        if np.all(a.astype(np.float32).astype(float) == a) and "nofloat32" not in allow:
            dts += ["float32"]
        if dts:
            tag = rnd.choice(dts) + "+" + tag
    return mk(a, tag), tag


def presentall(rnd, arrays, allow):
    objs, tags = [], []
    for a in arrays:
        o, t = present(rnd, a, allow)
        objs.append(o); tags.append(t)
    return objs, tags


def rav(x):
    """what verde's n_1d_arrays makes of an argument: 1-D, logical (C) order, dtype kept"""
    return np.ravel(np.atleast_1d(x))


# ---------------------------------------------------------------------------
# KNeighbors
# ---------------------------------------------------------------------------
def guarded_case(f):
    """an exception escaping a case constructor becomes a violating case that carries the arguments
    (core.guarded), never a harness abort"""
    import functools

    @functools.wraps(f)
    def w(vd, *a, **k):
        kind = next((x for x in a if isinstance(x, str) and x.split("-")[0] in ("knn", "mask", "median_distance")), f.__name__)
        inp = {"fn": f.__name__,
               "args": [np.asarray(x, dtype=float).tolist() if isinstance(x, np.ndarray) else repr(x)[:300] for x in a],
               "kwargs": {n: repr(v)[:300] for n, v in k.items() if n != "rnd"}}
        return core.guarded(lambda: f(vd, *a, **k), inp, kind)
    return w


def extras(shape, salt):
    """extra coordinate arrays (vertical; for odd salt also time) of the given shape: non-constant and large
    compared with the horizontal distances.  Only easting and northing may be used by the C15 entry points."""
    size = int(np.prod(shape)) if len(np.shape(np.zeros(shape))) else 1
    up = (((np.arange(size) * 7 + salt * 3) % 13) - 6) * 25.0 + salt
    out = (up.reshape(shape),)
    if salt % 2:
        out += ((((np.arange(size) * 5 + salt) % 7) * 1000.0 - 17.0).reshape(shape),)
    return out


def clobber_arrays(how, arrays):
    """the caller reuses its own arrays in place after fit"""
    for a in arrays:
        if how == "zeros":
            a[...] = 0.0
        elif how == "shift":
            a -= a.mean()
            a += 1.0
        elif how == "permute":
            a[...] = np.roll(a.ravel(), 1).reshape(a.shape)
        else:
            raise ValueError(how)


@guarded_case
def knn_case(vd, de, dn, dv, qe, qn, combos, kind, extra=False, rnd=None, reuse=False, prefit=None, clobber=None):
    """one cloud, one query set, several (reduction, k).  With [rnd]: the arguments are passed in random
    containers / dtypes / layouts.  With [reuse]: one instance is first fitted on other data and used, then
    refitted, and predict is called twice - must equal a fresh instance (the model)."""
    tags = {}
    pde, pdn, pdv, pqe, pqn = de, dn, dv, qe, qn
    if rnd is not None:
        (pde, pdn), tf2 = presentall(rnd, (de, dn), ("layout", "series", "dtype"))
        # float32 data values would make numpy reduce in float32 (2^-24 accuracy): integer dtypes only
        (pdv,), tf1 = presentall(rnd, (dv,), ("layout", "series", "dtype", "nofloat32"))
        tags["fit"] = tf2 + tf1
        (pqe, pqn), tags["predict"] = presentall(rnd, (qe, qn), ("layout", "series", "list", "dtype"))
    coords = (pde, pdn) + (extras(np.shape(de), 1) if extra else ())
    qcoords = (pqe, pqn) + (extras(np.shape(qe), 4) if extra else ())
    shape_ok, obs, entries = True, [], []
    try:
        for red, k in combos:
            g = vd.KNeighbors(k=k, reduction=RED[red]) if red != "RMean" or k % 2 else vd.KNeighbors(k=k)
            if prefit is not None:   # the SAME instance is first fitted on the data set A = prefit and used
                g.fit((np.array(prefit[0]), np.array(prefit[1])), np.array(prefit[2]))
                g.predict(([0.0, 1.0], [0.0, 1.0]))
            elif reuse:     # another, larger, data set first
                oe = np.linspace(-50.0, 50.0, np.size(de) + 3)
                g.fit((oe, oe[::-1] * 0.5), np.arange(oe.size) * 1000.0)
                g.predict(([0.0, 1.0], [0.0, 1.0]))
            if clobber is not None:
                # fit on the caller's own float64 C-contiguous arrays (no conversion copy on the way in), which the
                # caller then overwrites in place: predictions must still be those of the data that was fitted
                mine = [np.array(x, dtype=float, order="C") for x in (de, dn, dv)]
                g.fit(tuple(mine[:2]) + tuple(coords[2:]), mine[2])
                clobber_arrays(clobber, mine)
            else:
                g.fit(coords, pdv)
            out = np.asarray(g.predict(qcoords))
            shape_ok = shape_ok and out.shape == np.shape(qe)
            if reuse or prefit is not None:
                again = np.asarray(g.predict(qcoords))
                shape_ok = shape_ok and again.shape == out.shape and bool(np.array_equal(again, out))
            obs.append({"reduction": red, "k": k, "prediction": fl(out.ravel())})
            entries.append("(%s, %s, %s)" % (red, cN(k), dl(out)))
        cobs = "(Some %s)" % clist(entries)
    except Exception as ex:  # noqa
        shape_ok, obs, cobs = False, "%s: %s" % (type(ex).__name__, ex), "None"
    term = "c15_knn %s %s %s %s %s %s %s" % (dl(de), dl(dn), dl(dv), dl(qe), dl(qn), cbool(shape_ok), cobs)
    tf, tp = tags.get("fit", ["nd"] * 3), tags.get("predict", ["nd"] * 2)
    repro = ("import numpy as np, verde; from harness.c15 import mk, extras\n"
             "c=(mk(%r, %r), mk(%r, %r)); d=mk(%r, %r); q=(mk(%r, %r), mk(%r, %r))\n"
             "%s"
             "A=%r  # the same instance is fitted on A first (None: fresh instance)\n"
             "for red, k in %r:\n"
             "    g = verde.KNeighbors(k=k, reduction={'RMean': np.mean, 'RMedian': np.median, 'RMin': np.min, 'RMax': np.max}[red])\n"
             "    if A is not None: g.fit((np.array(A[0]), np.array(A[1])), np.array(A[2]))\n"
             "    g.fit(c, d)\n"
             "    if %r is not None: from harness.c15 import clobber_arrays; clobber_arrays(%r, [c[0], c[1], d])\n"
             "    print(red, k, g.predict(q))"
             % (fl(de), tf[0], fl(dn), tf[1], fl(dv), tf[2], fl(qe), tp[0], fl(qn), tp[1],
                "c += extras(np.shape(c[0]), 1); q += extras(np.shape(q[0]), 4)  # extra (vertical, time) coordinates\n" if extra else "",
                None if prefit is None else [fl(x) for x in prefit], [list(c) for c in combos], clobber, clobber))
    return Case({"fn": "KNeighbors", "combos": [list(c) for c in combos], "easting": fl(de), "northing": fl(dn), "data": fl(dv),
                 "query_easting": fl(qe), "query_northing": fl(qn), "extra_coords": extra, "presentation": tags, "reuse_instance": reuse,
                 "caller_overwrites_its_arrays_after_fit": clobber,
                 "fitted_before_on": None if prefit is None else {"easting": fl(prefit[0]), "northing": fl(prefit[1]), "data": fl(prefit[2])}},
                {"predictions": obs, "shape_ok_and_repeatable": shape_ok}, term, repro, kind)


def f32(a):
    """values with a 24-bit significand (data stored as float32), as doubles"""
    return np.asarray(a, dtype=np.float32).astype(float)


def gen_knn(vd, rnd, tier, cases):
    nclouds = 60 if tier == "quick" else 200
    reds = list(RED)
    for c in range(nclouds):
        mode = ["jitter", "uniform", "int", "lattice", "uniform", "far", "jitter"][c % 7]
        n = rnd.choice([3, 4, 5, 6, 7, 8, 9, 10, 12, 15]) if c % 10 else rnd.choice([20, 30])
        de, dn = cloud(rnd, n, mode)
        if n > 15 or c % 4 == 1:
            de, dn = f32(de), f32(dn)
        dv = np.array([rnd.choice([rnd.uniform(-100, 100), float(rnd.randint(-5, 5)), rnd.uniform(0, 1)]) for _ in range(n)])
        if mode == "int" or c % 8 == 3:
            dv = np.array([float(rnd.randint(-20, 20)) for _ in range(n)])
        m = rnd.randint(1, 12) if n <= 15 else rnd.randint(4, 8)
        qe, qn = queries(rnd, de, dn, m, mode)
        if mode == "int":
            qe, qn = np.round(qe), np.round(qn)
        if n > 15 or c % 4 == 1:
            qe, qn = f32(qe), f32(qn)
        if c % 2:
            qe, qn = reshape2(rnd, qe, qn)
        if c % 3 == 0:
            de, dn, dv = reshape2(rnd, de, dn, dv)
        extra = c % 3 == 0
        # every k = 1..n for each reduction (one case per reduction: the queries' keys are sorted once per case)
        for r in (reds if n <= 15 else [reds[c % 4], reds[(c + 1) % 4]]):
            cases.append(knn_case(vd, de, dn, dv, qe, qn, [(r, k) for k in range(1, n + 1)], "knn-%s-%s" % (mode, r[1:].lower()), extra,
                                  rnd=rnd, reuse=(c % 3 == 1)))
    # the number of queries equals k (a reduction along the wrong axis keeps the shape)
    for n in (3, 5):
        de, dn = cloud(rnd, n, "jitter")
        dv = np.arange(1.0, n + 1)
        qe, qn = queries(rnd, de, dn, n, "uniform")
        for r in reds:
            cases.append(knn_case(vd, de, dn, dv, qe, qn, [(r, n)], "knn-square"))
            cases.append(knn_case(vd, de, dn, dv, qe[:n - 1], qn[:n - 1], [(r, n - 1)], "knn-square"))


def gen_refit(vd, rnd, tier, cases):
    """KNeighbors is stateful: fit the SAME instance on A, then on B; predictions must be those of B alone.
    B = (i) A's points in another order (data permuted along), (ii) other interior points with A's extreme
    points kept (same bounding box, same count), (iii) another count / box (control), (iv) A's points in the
    same order with other data values (control)."""
    nclouds = 10 if tier == "quick" else 40
    reds = list(RED)
    for c in range(nclouds):
        mode = ["jitter", "uniform", "int", "far"][c % 4]
        n = rnd.choice([6, 7, 8, 10, 12])
        ae, an = cloud(rnd, n, mode)
        av = np.array([rnd.uniform(-100, 100) for _ in range(n)])
        ext = sorted({int(np.argmin(ae)), int(np.argmax(ae)), int(np.argmin(an)), int(np.argmax(an))})
        variants = []
        # (i) a permutation of A (not the identity)
        perm = list(range(n))
        while perm == list(range(n)):
            rnd.shuffle(perm)
        bv = np.array([rnd.uniform(-100, 100) for _ in range(n)])
        variants.append(("permuted", ae[perm], an[perm], bv))
        variants.append(("permuted-samedata", ae[perm], an[perm], av[perm]))
        # (ii) same extreme points, same count, other interior points
        w, e_, s_, n_ = ae.min(), ae.max(), an.min(), an.max()
        be, bn = ae.copy(), an.copy()
        for i in range(n):
            if i not in ext:
                if mode == "int":
                    be[i] = float(rnd.randint(int(w) + 1, max(int(w) + 1, int(e_) - 1)))
                    bn[i] = float(rnd.randint(int(s_) + 1, max(int(s_) + 1, int(n_) - 1)))
                else:
                    be[i] = w + (e_ - w) * rnd.uniform(0.05, 0.95)
                    bn[i] = s_ + (n_ - s_) * rnd.uniform(0.05, 0.95)
        order = list(range(n)); rnd.shuffle(order)
        variants.append(("same-box", be[order], bn[order], bv))
        # (iii) control: another count and box
        ce, cn = cloud(rnd, n + 2, mode)
        variants.append(("other-count", ce * 1.5, cn * 1.5, np.array([rnd.uniform(-100, 100) for _ in range(n + 2)])))
        # (iv) control: the same points in the same order, new data
        variants.append(("same-points", ae.copy(), an.copy(), bv))
        for name, be_, bn_, bv_ in variants:
            assert (name in ("other-count",)) or (be_.min(), be_.max(), bn_.min(), bn_.max(), be_.size) == (w, e_, s_, n_, n)
            qe, qn = queries(rnd, be_, bn_, rnd.randint(3, 8), mode)
            if mode == "int":
                qe, qn = np.round(qe), np.round(qn)
            if c % 2:
                qe, qn = reshape2(rnd, qe, qn)
            rs = reds if c % 2 == 0 else [reds[c % 4], reds[(c + 1) % 4]]
            for r in rs:
                cases.append(knn_case(vd, be_, bn_, bv_, qe, qn, [(r, k) for k in (1, 2, 3, 5)], "knn-refit-%s" % name,
                                      rnd=(rnd if c % 3 == 2 else None), prefit=(ae, an, av)))


def gen_clobber(vd, rnd, tier, cases):
    """the caller overwrites its data and coordinate arrays in place after fit (zeros, shifted, permuted):
    the estimator must have kept its own copies - predictions are those of the data that was fitted"""
    nclouds = 8 if tier == "quick" else 32
    reds = list(RED)
    for c in range(nclouds):
        mode = ["jitter", "uniform", "int", "far"][c % 4]
        n = rnd.choice([6, 8, 9, 10, 12])
        de, dn = cloud(rnd, n, mode)
        dv = np.array([rnd.uniform(-100, 100) for _ in range(n)])
        qe, qn = queries(rnd, de, dn, rnd.randint(3, 8), mode)
        if mode == "int":
            qe, qn = np.round(qe), np.round(qn)
        if c % 2:                       # 2-D C-contiguous data (a grid being overwritten)
            de, dn, dv = reshape2(rnd, de, dn, dv)
        for how in ("zeros", "shift", "permute"):
            for r in (reds[(c + i) % 4] for i in range(2)):
                cases.append(knn_case(vd, de, dn, dv, qe, qn, [(r, k) for k in (1, 2, 3, 5)], "knn-clobber-%s" % how, clobber=how))


# ---------------------------------------------------------------------------
# median_distance
# ---------------------------------------------------------------------------
PROJ = {
    "scale": (lambda e, n: (e * 2, n * 0.5)),
    "swap": (lambda e, n: (n, e)),
    "rotate": (lambda e, n: (0.6 * e - 0.8 * n, 0.8 * e + 0.6 * n)),
    "shear+offset": (lambda e, n: (e + 0.25 * n + 3.0, n - 1.5)),
    "nonlinear": (lambda e, n: (e + 0.0001 * n * n, n + 0.001 * e * e + np.arctan(e))),
}


@guarded_case
def meddist_case(vd, e, n, ks, pname, kind, extra=False, rnd=None):
    tags = ["nd", "nd"]
    pe_, pn_ = e, n
    if rnd is not None:
        (pe_, pn_), tags = presentall(rnd, (e, n), ("layout", "series", "list", "dtype"))
    coords = (pe_, pn_) + (extras(np.shape(e), 3 if np.size(e) % 2 else 2) if extra else ())
    proj = PROJ.get(pname)
    shape_ok, obs, entries = True, [], []
    try:
        for k in ks:
            out = np.asarray(vd.median_distance(coords, k_nearest=k, projection=proj))
            shape_ok = shape_ok and out.shape == np.shape(e)
            obs.append({"k_nearest": k, "distances": fl(out.ravel())})
            entries.append("(%s, %s)" % (cN(k), dl(out)))
        cobs = "(Some %s)" % clist(entries)
    except Exception as ex:  # noqa
        shape_ok, obs, cobs = False, "%s: %s" % (type(ex).__name__, ex), "None"
    # the projection sees what n_1d_arrays makes of the arguments (dtype kept): apply it to exactly that
    pe, pn = (rav(e), rav(n)) if proj is None else proj(rav(pe_), rav(pn_))
    term = "c15_meddist %s %s %s %s" % (dl(pe), dl(pn), cbool(shape_ok), cobs)
    repro = ("import numpy as np, verde; from harness.c15 import mk, PROJ, extras\nc=(mk(%r, %r), mk(%r, %r))\n"
             "%s"
             "for k in %r: print(k, verde.median_distance(c, k_nearest=k, projection=PROJ.get(%r)))" % (
                 fl(e), tags[0], fl(n), tags[1],
                 "c += extras(np.shape(c[0]), 3 if np.size(c[0]) % 2 else 2)  # extra (vertical, time) coordinates\n" if extra else "",
                 list(ks), pname))
    return Case({"fn": "median_distance", "k_nearest": list(ks), "easting": fl(e), "northing": fl(n), "projection": pname, "extra_coords": extra,
                 "presentation": tags},
                {"distances": obs, "shape_ok": shape_ok}, term, repro, kind)


def gen_meddist(vd, rnd, tier, cases):
    nclouds = 48 if tier == "quick" else 160
    for c in range(nclouds):
        mode = ["jitter", "lattice", "uniform", "far", "int"][c % 5]
        n = rnd.choice([2, 3, 4, 5, 6, 8, 9, 12, 16]) if c % 12 else rnd.choice([20, 30])
        e, nn = cloud(rnd, n, mode)
        if n > 12 or c % 4 == 2:
            e, nn = f32(e), f32(nn)
        if c % 6 == 1 and n >= 3:      # duplicated points: the "self" column is a zero either way
            e[1], nn[1] = e[0], nn[0]
        if c % 2:
            e, nn = reshape2(rnd, e, nn)
        pname = None if c % 3 else list(PROJ)[(c // 3) % len(PROJ)]
        ks = list(range(1, n))          # every k = 1..n-1
        # one case for the odd k, one for the even k (the keys of every point are sorted once per case)
        for sub, tag in ((ks[0::2], "odd"), (ks[1::2], "even")):
            if sub:
                cases.append(meddist_case(vd, e, nn, sub, pname, "median_distance-%s-%s" % (mode, tag), extra=(c % 3 == 0), rnd=rnd))
    # regular grid of the docstring: corners see [1, 1, sqrt 2, 2]
    g = vd.grid_coordinates((5, 10, -20, -17), spacing=1)
    cases.append(meddist_case(vd, g[0], g[1], [1, 2, 3, 4, 5, 8], None, "median_distance-grid"))


# ---------------------------------------------------------------------------
# distance_mask, array form
# ---------------------------------------------------------------------------
AFF = {   # exact in floats on the lattices used: (ae, be, an, bn)
    "aff-2-half": (2.0, 0.0, 0.5, 0.0),
    "aff-offset": (1.0, 3.0, 1.0, -2.0),
    "aff-neg": (-1.0, 0.5, 4.0, 0.0),
}


def aff_fn(c):
    return lambda e, n: (c[0] * e + c[1], c[2] * n + c[3])


@guarded_case
def mask_case(vd, de, dn, md, qe, qn, pname, kind, extra=False, scalar_data=False, rnd=None, qtags=None):
    tags = {"data": ["nd", "nd"], "query": ["nd", "nd"]}
    ade, adn, aqe, aqn = de, dn, qe, qn
    if qtags is not None:
        tags["query"] = list(qtags)
        aqe, aqn = mk(qe, qtags[0]), mk(qn, qtags[1])
    if rnd is not None:
        (ade, adn), tags["data"] = presentall(rnd, (de, dn), ("layout", "series", "list", "dtype"))
        (aqe, aqn), tags["query"] = presentall(rnd, (qe, qn), ("layout", "series", "dtype"))
    dcoords = (ade, adn) + (extras(np.shape(de), 5) if extra else ())
    qcoords = (aqe, aqn) + (extras(np.shape(qe), 2) if extra else ())
    if scalar_data:
        dcoords = (float(de[0]), float(dn[0]))
    if pname is None:
        proj, cproj = None, "ident"
        pde, pdn, pqe, pqn = de, dn, qe, qn
    elif pname in AFF:
        proj = aff_fn(AFF[pname])
        cproj = "(affine %s %s %s %s)" % tuple(cD(x) for x in AFF[pname])
        pde, pdn, pqe, pqn = de, dn, qe, qn
    else:
        # the projection sees what n_1d_arrays makes of the arguments (dtype kept): apply it to exactly that
        proj, cproj = PROJ[pname], "ident"
        pde, pdn = proj(rav(ade), rav(adn))
        pqe, pqn = proj(rav(aqe), rav(aqn))
    try:
        out = np.asarray(vd.distance_mask(dcoords, md, coordinates=qcoords, projection=proj))
        shape_ok = out.shape == np.shape(qe) and out.dtype == bool
        obs = [bool(b) for b in out.ravel()]
        cobs = "(Some %s)" % bl(out)
    except Exception as ex:  # noqa
        shape_ok, obs, cobs = False, "%s: %s" % (type(ex).__name__, ex), "None"
    term = "c15_mask %s %s %s %s %s %s %s %s" % (cproj, cD(md), dl(pde), dl(pdn), dl(pqe), dl(pqn), cbool(shape_ok), cobs)
    repro = ("import numpy as np, verde; from harness.c15 import mk, PROJ, AFF, aff_fn, extras\n"
             "p=%r; proj=None if p is None else (aff_fn(AFF[p]) if p in AFF else PROJ[p])\n"
             "d=(mk(%r, %r), mk(%r, %r)); q=(mk(%r, %r), mk(%r, %r))\n"
             "if %r: d += extras(np.shape(d[0]), 5); q += extras(np.shape(q[0]), 2)  # extra (vertical, time) coordinates\n"
             "print(verde.distance_mask(d, %r, coordinates=q, projection=proj))" % (
                 pname, fl(de), tags["data"][0], fl(dn), tags["data"][1], fl(qe), tags["query"][0], fl(qn), tags["query"][1], bool(extra), md))
    return Case({"fn": "distance_mask", "maxdist": md, "data_easting": fl(de), "data_northing": fl(dn), "easting": fl(qe), "northing": fl(qn),
                 "projection": pname, "extra_coords": extra, "scalar_data": scalar_data, "presentation": tags},
                {"mask": obs, "shape_ok": shape_ok}, term, repro, kind)


def lattice_mask_inputs(rnd, scale):
    nd = rnd.randint(1, 6)
    de = np.array([rnd.randint(-6, 6) for _ in range(nd)]) * scale
    dn = np.array([rnd.randint(-6, 6) for _ in range(nd)]) * scale
    qe, qn = [], []
    # Pythagorean offsets from data points: distances exactly 5, 10, 13, 17 (x scale), and plain lattice points
    offs = [(3, 4), (4, 3), (-3, 4), (5, 0), (0, -5), (6, 8), (5, 12), (-12, 5), (8, 15), (0, 0), (1, 0), (1, 1), (2, 2), (0, 13)]
    for _ in range(rnd.randint(2, 12)):
        if rnd.random() < 0.7:
            i = rnd.randrange(nd)
            o = rnd.choice(offs)
            qe.append(de[i] + o[0] * scale); qn.append(dn[i] + o[1] * scale)
        else:
            qe.append(rnd.randint(-10, 10) * scale); qn.append(rnd.randint(-10, 10) * scale)
    return de.astype(float), dn.astype(float), np.array(qe, dtype=float), np.array(qn, dtype=float)


def gen_mask(vd, rnd, tier, cases):
    # the 3-4-5 triangle, exactly attained and just around
    de, dn = np.array([0.0]), np.array([0.0])
    qe = np.array([3.0, 4.0, 5.0, 0.0, 3.0, 3.0, 6.0, 0.0])
    qn = np.array([4.0, 3.0, 0.0, -5.0, 4.5, 3.5, 8.0, 0.0])
    for md in (5.0, 4.999, 5.001, 10.0, 0.0, -1.0, 4.5, float(np.nextafter(5.0, 0)), float(np.nextafter(5.0, 9))):
        cases.append(mask_case(vd, de, dn, md, qe, qn, None, "mask-345"))
        cases.append(mask_case(vd, de, dn, md, qe.reshape(2, 4), qn.reshape(2, 4), None, "mask-345", rnd=rnd))
        cases.append(mask_case(vd, de, dn, md, qe.reshape(2, 4), qn.reshape(2, 4), None, "mask-345-layout", qtags=("layout:1", "layout:2")))
    cases.append(mask_case(vd, np.array([2.5]), np.array([-7.5]), 2.0, *vd.grid_coordinates((0, 5, -10, -4), spacing=1), None,
                           "mask-docstring", scalar_data=True))
    nl = 60 if tier == "quick" else 240
    for c in range(nl):
        scale = [1, 1, 0.125, 0.5][c % 4]
        de, dn, qe, qn = lattice_mask_inputs(rnd, scale)
        # maxdist among exactly attained distances (perfect squares), irrational ones (near tie: excluded), others
        d2 = sorted({float((a - b) ** 2 + (c2 - d) ** 2) for a, c2 in zip(qe, qn) for b, d in zip(de, dn)})
        exact = [float(np.sqrt(x)) for x in d2 if float(np.sqrt(x)) ** 2 == x]
        md = rnd.choice(exact + [5.0 * scale, 13.0 * scale]) if c % 5 else rnd.choice([float(np.sqrt(rnd.choice(d2))), 0.0, 2.5 * scale, -scale])
        pname = None if c % 3 else list(AFF)[(c // 3) % len(AFF)]
        if pname is not None:
            # keep attained distances exact: choose maxdist among distances of the PROJECTED lattice
            p = aff_fn(AFF[pname])
            (pe, pn), (qpe, qpn) = p(de, dn), p(qe, qn)
            d2p = sorted({float((a - b) ** 2 + (c2 - d) ** 2) for a, c2 in zip(qpe, qpn) for b, d in zip(pe, pn)})
            exactp = [float(np.sqrt(x)) for x in d2p if float(np.sqrt(x)) ** 2 == x]
            md = rnd.choice(exactp) if exactp else md
        if c % 2 and qe.size > 1:
            qe, qn = reshape2(rnd, qe, qn)
        cases.append(mask_case(vd, de, dn, md, qe, qn, pname, "mask-lattice" + ("" if pname is None else "-affine"), extra=(c % 3 == 1), rnd=rnd))
    nr = 40 if tier == "quick" else 130
    for c in range(nr):
        mode = ["uniform", "jitter", "far"][c % 3]
        n = rnd.randint(1, 10)
        de, dn = cloud(rnd, n, mode)
        qe, qn = queries(rnd, de, dn, rnd.randint(1, 10), mode)
        if c % 4 == 3:
            de, dn, qe, qn = f32(de), f32(dn), f32(qe), f32(qn)
        pname = None if c % 2 else list(PROJ)[(c // 2) % len(PROJ)]
        md = rnd.choice([rnd.uniform(0, 2), rnd.uniform(0, 0.5), 0.0,
                         float(np.hypot(qe[0] - de[0], qn[0] - dn[0]))])      # attained up to rounding: near tie, excluded
        if c % 2 and qe.size > 1:
            qe, qn = reshape2(rnd, qe, qn)
        cases.append(mask_case(vd, de, dn, md, qe, qn, pname, "mask-" + mode + ("" if pname is None else "-proj"), extra=(c % 5 == 0), rnd=rnd))


# ---------------------------------------------------------------------------
# distance_mask, grid form
# ---------------------------------------------------------------------------
def build_grid(how, dims, aeast, anorth, avals, other=None):
    """the same valid (northing, easting) grid built in several ways; in all but the first the Dataset-level
    dimension order (grid.sizes / grid.dims) is easting first while the variables stay (northing, easting)"""
    import xarray as xr
    dn_, de_ = dims
    if how == "dataset":
        data_vars = {"scalars": (list(dims), avals)}
        if other is not None:
            data_vars["other"] = (list(dims), other)
        return xr.Dataset(data_vars, coords={de_: aeast, dn_: anorth})
    if how == "dataarray-east-first":
        grid = xr.DataArray(avals, coords={de_: aeast, dn_: anorth}, dims=(dn_, de_)).to_dataset(name="scalars")
    elif how == "coords-then-assign":
        grid = xr.Dataset(coords={de_: aeast, dn_: anorth})
        grid["scalars"] = ((dn_, de_), avals)
    elif how == "east-first-variable-first":     # a 1-D variable along easting declared before the 2-D one
        grid = xr.Dataset({"scalars": ((dn_, de_), avals)}, coords={de_: aeast, dn_: anorth})
        grid = xr.Dataset(coords={de_: grid[de_]}).merge(grid)
    else:
        raise ValueError(how)
    if other is not None:
        grid["other"] = ((dn_, de_), other)
    return grid


GRID_HOW = ("dataset", "dataarray-east-first", "coords-then-assign", "east-first-variable-first")


def grid_case(vd, de, dn, mds, east, north, pname, dims, kind, twovars=False, rnd=None, how="dataset", vdtype="float", readonly=False):
    """the grid form called once per maxdist in [mds], one after the other, on the SAME Dataset (one Case per call):
    every result must be right and the caller's Dataset must be left as it was.  [vdtype]='int': integer grid
    variables; [readonly]: the variables' arrays are not writeable."""
    nn, ne = len(north), len(east)
    vals = np.arange(1.0, nn * ne + 1).reshape(nn, ne)        # pristine logical values: never handed to verde
    tags = {}
    ade, adn, aeast, anorth, avals = de, dn, east, north, vals.copy()
    mesh = np.meshgrid(east, north)
    if rnd is not None:
        (ade, adn), tags["data"] = presentall(rnd, (de, dn), ("layout", "series", "list", "dtype"))
        (aeast, anorth), tags["grid_coords"] = presentall(rnd, (east, north), ("layout", "dtype"))
        (avals,), tags["grid_values"] = presentall(rnd, (vals.copy(),), ("layout",))
        mesh, tags["array_form_coords"] = presentall(rnd, mesh, ("layout", "dtype"))
    avals = np.array(avals, dtype=(np.int64 if vdtype == "int" else float), order="K")   # own buffer, layout kept
    other = np.array(-vals, dtype=avals.dtype) if twovars else None
    if readonly:
        avals.flags.writeable = False
        if other is not None:
            other.flags.writeable = False
    grid = build_grid(how, dims, aeast, anorth, avals, other)
    if pname is None:
        proj, cproj = None, "ident"
    else:
        proj = aff_fn(AFF[pname])
        cproj = "(affine %s %s %s %s)" % tuple(cD(x) for x in AFF[pname])
    out_cases = []
    for call, md in enumerate(mds):
        try:
            masked = vd.distance_mask((ade, adn), md, grid=grid, projection=proj)
            out = np.asarray(masked.scalars.values, dtype=float)
            shape_ok = out.shape == (nn, ne) and list(masked.scalars.dims) == list(dims)
            if twovars:
                o2 = np.asarray(masked.other.values, dtype=float)
                shape_ok = shape_ok and o2.shape == (nn, ne) and bool(np.array_equal(np.isnan(o2), np.isnan(out))) and \
                    bool(np.array_equal(o2[~np.isnan(o2)], -vals[~np.isnan(o2)]))
            obs = [None if np.isnan(x) else float(x) for x in out.ravel()]
            cgrid = "(Some %s)" % clist(["None" if x is None else "(Some %s)" % cD(x) for x in obs])
        except Exception as ex:  # noqa
            shape_ok, obs, cgrid = False, "%s: %s" % (type(ex).__name__, ex), "None"
        # the caller's Dataset is as it was (values, dtype), whatever happened
        try:
            gv = np.asarray(grid["scalars"].values)
            untouched = gv.dtype == avals.dtype and bool(np.array_equal(gv.astype(float), vals, equal_nan=True))
            if twovars:
                untouched = untouched and bool(np.array_equal(np.asarray(grid["other"].values, dtype=float), -vals, equal_nan=True))
        except Exception:  # noqa
            untouched = False
        try:
            arr = np.asarray(vd.distance_mask((ade, adn), md, coordinates=tuple(mesh), projection=proj))
            shape_ok = shape_ok and arr.shape == (nn, ne)
            oarr = [bool(b) for b in arr.ravel()]
            carr = "(Some %s)" % bl(arr)
        except Exception as ex:  # noqa
            shape_ok, oarr, carr = False, "%s: %s" % (type(ex).__name__, ex), "None"
        term = "c15_grid %s %s %s %s %s %s %s %s %s %s" % (cproj, cD(md), dl(de), dl(dn), dl(east), dl(north), dl(vals),
                                                          cbool(shape_ok and untouched), cgrid, carr)
        repro = ("import verde, numpy as np; from harness.c15 import build_grid, AFF, aff_fn; e=np.array(%r); n=np.array(%r)\n"
                 "v=np.arange(1.0, e.size*n.size+1).reshape(n.size, e.size).astype(%r); v.flags.writeable = %r\n"
                 "g=build_grid(%r, %r, e, n, v); p=%r; proj=None if p is None else aff_fn(AFF[p])\n"
                 "print(dict(g.sizes), g.scalars.dims)\n"
                 "for md in %r:   # calls on the SAME Dataset; the last one is this case\n"
                 "    print(md); print(verde.distance_mask((np.array(%r), np.array(%r)), md, grid=g, projection=proj).scalars.values)\n"
                 "    print(verde.distance_mask((np.array(%r), np.array(%r)), md, coordinates=np.meshgrid(e, n), projection=proj))\n"
                 "print('input grid afterwards:'); print(g.scalars.values)"
                 % (fl(east), fl(north), "int64" if vdtype == "int" else "float64", not readonly, how, tuple(dims), pname,
                    [float(x) for x in mds[:call + 1]], fl(de), fl(dn), fl(de), fl(dn)))
        if tags:
            repro += "\n# presentations (harness.c15.mk): %r; array form called on mk(np.meshgrid(e, n)[i], tag_i)" % (tags,)
        out_cases.append(Case(
            {"fn": "distance_mask(grid=)", "maxdist": md, "data_easting": fl(de), "data_northing": fl(dn), "grid_easting": fl(east),
             "grid_northing": fl(north), "dims": list(dims), "projection": pname, "two_vars": twovars, "presentation": tags,
             "dataset_built_by": how, "grid_values_dtype": vdtype, "grid_values_readonly": readonly,
             "earlier_calls_on_the_same_dataset_with_maxdist": [float(x) for x in mds[:call]]},
            {"grid_values": obs, "array_form": oarr, "shape_ok": shape_ok, "input_dataset_untouched": untouched}, term, repro,
            kind + ("" if call == 0 else "-call%d" % (call + 1))))
    return out_cases


def safe_cases(cases, kind, inp, make):
    """an exception escaping a case constructor (the implementation raised on a valid input, or left something
    the harness cannot even describe) becomes a violating case carrying the input - never a harness abort"""
    res = core.guarded(make, inp, kind)
    cases.extend(res if isinstance(res, list) else [res])


def gen_grid(vd, rnd, tier, cases):
    ng = 40 if tier == "quick" else 160
    dimnames = [("northing", "easting"), ("y", "x"), ("latitude", "longitude"), ("easting", "northing")]
    for c in range(ng):
        scale = [1, 0.125, 1, 0.5][c % 4]
        if c % 4 == 0:                      # square grid, asymmetric data: a transposed mask differs
            nn = ne = rnd.randint(2, 6)
        else:
            nn, ne = rnd.sample(range(1, 8), 2)
        e0, n0 = rnd.randint(-4, 4), rnd.randint(-4, 4)
        if c % 3 == 2:                      # irregular, still increasing, coordinates
            east = np.cumsum([rnd.randint(1, 3) for _ in range(ne)]) * scale + e0 * scale
            north = np.cumsum([rnd.randint(1, 3) for _ in range(nn)]) * scale + n0 * scale
        else:
            east = (e0 + np.arange(ne)) * scale
            north = (n0 + np.arange(nn) * (2 if c % 2 else 1)) * scale
        if c % 10 == 9:                     # random doubles
            east = np.sort(np.array([rnd.uniform(-3, 3) for _ in range(ne)]))
            north = np.sort(np.array([rnd.uniform(-3, 3) for _ in range(nn)]))
        nd = rnd.randint(1, 4)
        de = np.array([float(rnd.choice(list(east)) + rnd.choice([0, 0, 3, -4, 1]) * scale) for _ in range(nd)])
        dn = np.array([float(rnd.choice(list(north)) + rnd.choice([0, 4, -3, 0, 2]) * scale) for _ in range(nd)])
        pname = None if c % 3 else list(AFF)[(c // 3) % len(AFF)]
        md = rnd.choice([1.0, 2.0, 5.0, 1.5, 2.5, 3.0, 0.0]) * scale
        if pname is not None:
            md = md * rnd.choice([1, 2])
        # one call, or three calls on the same Dataset with increasing / decreasing maxdist
        if c % 3 == 0:
            mds = [float(md)]
        else:
            f = 1 if pname is None else 2
            mds = sorted(float(x * scale * f) for x in rnd.sample([0.0, 1.0, 1.5, 2.0, 2.5, 3.0, 5.0], 3))
            if c % 3 == 2:
                mds = mds[::-1]
        vdtype = "int" if c % 5 == 1 else "float"
        readonly = c % 5 == 3 or c % 10 == 6
        kind = ("mask-grid" + ("-square" if nn == ne else "") + ("" if pname is None else "-affine") +
                ("-int" if vdtype == "int" else "") + ("-readonly" if readonly else ""))
        E, N = east.astype(float), north.astype(float)
        dims, two, how = dimnames[c % len(dimnames)], c % 6 == 0, GRID_HOW[(c // 2) % len(GRID_HOW)]
        safe_cases(cases, kind, {"fn": "distance_mask(grid=)", "maxdists": mds, "data_easting": fl(de), "data_northing": fl(dn),
                                 "grid_easting": fl(E), "grid_northing": fl(N), "dims": list(dims), "projection": pname,
                                 "dataset_built_by": how, "grid_values_dtype": vdtype, "grid_values_readonly": readonly},
                   lambda: grid_case(vd, de, dn, mds, E, N, pname, dims, kind, twovars=two, rnd=rnd, how=how, vdtype=vdtype, readonly=readonly))
    # the docstring example, then a smaller and a larger maxdist on the same Dataset
    coords = vd.grid_coordinates((0, 5, -10, -4), spacing=1)
    safe_cases(cases, "mask-grid-docstring", {"fn": "distance_mask(grid=)", "docstring": True},
               lambda: grid_case(vd, np.array([3.5]), np.array([-7.5]), [2.0, 1.0, 3.0], coords[0][0, :], coords[1][:, 0], None,
                                 ("northing", "easting"), "mask-grid-docstring"))


def generate(tier, seed):
    import verde as vd
    rnd = random.Random(seed)
    cases = []
    gen_knn(vd, rnd, tier, cases)
    gen_refit(vd, rnd, tier, cases)
    gen_clobber(vd, rnd, tier, cases)
    gen_meddist(vd, rnd, tier, cases)
    gen_mask(vd, rnd, tier, cases)
    gen_grid(vd, rnd, tier, cases)
    return cases


def search(dis, tier, seed):
    return generate("quick", seed + 1)
