"""C07 regular coordinates: rational lattice of (start, stop, spacing) x adjust x registration,
sizes, grids (per-direction spacing, extra coords, meshgrid on/off), shape_to_spacing, profiles."""
import itertools
import random
import numpy as np
from . import core, pylite_tie
from .core import Case, cZ, cD, clist, cbool, copt

obligations = pylite_tie.c07_obligations   # source-regenerated tie (see harness/pylite_tie.py)
ID = "C07"
PROPS_FILE = "Props/C07.v"
IMPORTS = "From Verde Require Import Model.Coordinates Model.CoordCases."
SHARD = 400
RULE = ("line_coordinates on the rational lattice start,stop in {k/4: -8..12}, spacing in {k/8: 1..40} x both adjust modes x "
        "both registrations (exhaustive in the thorough tier: 36 960 cases; every 11th plus all exact .5 ties in quick), sizes 1..6, "
        "large-offset/tiny/random float regions, invalid argument combinations; grid_coordinates on 2-D sub-lattices with scalar / "
        "per-direction / too many spacings, shapes incl. single row/column, extra coordinates, meshgrid on/off, degenerate and invalid "
        "regions; shape_to_spacing followed by grid_coordinates with the returned spacing; profile_coordinates. Non-trivial = the call "
        "returns coordinates (not an error); distinct = distinct argument tuples. Cases whose exact extent/spacing is within 2^-30 of a "
        "rounding tie without being one exactly are excluded from equality (counted as excluded_near_tie).")
ASSUMPTIONS = [
    "floats are read as the exact rationals they denote; computed nodes are compared with tolerance 2^-40 x scale, bounds that the code passes through (first node, and the last node for adjust='spacing' or a size) bit-exactly",
    "Python round() on the float quotient equals round-half-even of the exact quotient except within 2^-30 of a tie (excluded); exact ties on the dyadic lattice are compared exactly",
    "profile distances are compared through their squares (no sqrt/atan2/cos in the model)",
]
TRUSTED = ["harness/c07.py (generators, observation of numpy arrays as exact dyadics)"]

ADJ = {0: "spacing", 1: "region", 2: "bogus"}


def _arr(a):
    a = np.asarray(a, dtype=float)
    return [float(x) for x in a.ravel()]


def _rows(a):
    a = np.asarray(a, dtype=float)
    if a.ndim == 1:
        return [[float(x) for x in a]]
    return [[float(x) for x in r] for r in a]


def line_case(vd, start, stop, size, spacing, adj, pixel, kind):
    try:
        v = vd.line_coordinates(start, stop, size=size, spacing=spacing, adjust=ADJ[adj], pixel_register=pixel)
        obs = _arr(v)
        cobs = "(Some %s)" % clist([cD(x) for x in obs])
    except ValueError:
        obs = "ValueError"
        cobs = "None"
    term = "c07_line %s %s %s %s %s %s %s" % (cD(start), cD(stop), copt(size, cZ), copt(spacing, cD), cZ(adj), cbool(pixel), cobs)
    repro = "import verde; print(verde.line_coordinates(%r, %r, size=%r, spacing=%r, adjust=%r, pixel_register=%r))" % (
        start, stop, size, spacing, ADJ[adj], pixel)
    return Case({"fn": "line_coordinates", "start": start, "stop": stop, "size": size, "spacing": spacing,
                 "adjust": ADJ[adj], "pixel": pixel}, obs, term, repro, kind, nontrivial=obs != "ValueError")


def grid_case(vd, region, shape, spacing, adj, pixel, extra, mesh, kind):
    try:
        out = vd.grid_coordinates(region, shape=shape, spacing=spacing, adjust=ADJ[adj], pixel_register=pixel,
                                  extra_coords=extra, meshgrid=mesh)
        obs = [_rows(a) for a in out]
        cobs = "(Some %s)" % clist([clist([clist([cD(x) for x in r]) for r in a]) for a in obs])
    except ValueError:
        obs = "ValueError"
        cobs = "None"
    if spacing is None:
        csp = "None"
    else:
        sp = [float(x) for x in np.atleast_1d(spacing)]
        csp = "(Some %s)" % clist([cD(x) for x in sp])
    cshape = "None" if shape is None else "(Some (%s, %s))" % (cZ(shape[0]), cZ(shape[1]))
    cextra = "None" if extra is None else "(Some %s)" % clist([cD(x) for x in np.atleast_1d(extra)])
    term = "c07_grid %s %s %s %s %s %s %s %s" % (clist([cD(x) for x in region]), cshape, csp, cZ(adj), cbool(pixel), cextra, cbool(mesh), cobs)
    repro = "import verde; print(verde.grid_coordinates(%r, shape=%r, spacing=%r, adjust=%r, pixel_register=%r, extra_coords=%r, meshgrid=%r))" % (
        list(region), shape, spacing, ADJ[adj], pixel, extra, mesh)
    return Case({"fn": "grid_coordinates", "region": list(region), "shape": shape, "spacing": spacing, "adjust": ADJ[adj],
                 "pixel": pixel, "extra": extra, "meshgrid": mesh},
                obs if obs == "ValueError" else {"n_arrays": len(obs), "shape": [len(obs[0]), len(obs[0][0])], "first_array": obs[0]},
                term, repro, kind, nontrivial=obs != "ValueError")


_s2sform = [0]


def s2s_case(vd, region, shape, pixel, adj, kind):
    from verde.coordinates import shape_to_spacing
    # the shape (and the region) are handed over as tuple / list / int ndarray / float ndarray in rotation and the SAME
    # objects are used for a second identical call: both answers must be the spacing of the values given
    _s2sform[0] += 1
    f = _s2sform[0] % 3
    sobj = [tuple(shape), list(shape), np.array(shape)][f]
    robj = [tuple(region), np.array(region, dtype="float64"), list(region)][f]
    sp = shape_to_spacing(robj, sobj, pixel_register=pixel)
    sp2 = shape_to_spacing(robj, sobj, pixel_register=pixel)
    if tuple(float(v) for v in sp2) != tuple(float(v) for v in sp):
        sp = sp2      # the second answer is the one judged
    g = vd.grid_coordinates(region, spacing=sp, adjust=ADJ[adj], pixel_register=pixel)
    oshape = g[0].shape
    term = "c07_shape_spacing %s (%s, %s) %s (%s, %s) (%s, %s)" % (
        clist([cD(x) for x in region]), cZ(shape[0]), cZ(shape[1]), cbool(pixel), cD(sp[0]), cD(sp[1]), cZ(oshape[0]), cZ(oshape[1]))
    repro = ("import verde, numpy as np; from verde.coordinates import shape_to_spacing as f; s=%s; f(%r,s,pixel_register=%r); sp=f(%r,s,pixel_register=%r); "
             "print(s, sp, verde.grid_coordinates(%r, spacing=sp, adjust=%r, pixel_register=%r)[0].shape)") % (
        ["tuple(%r)", "list(%r)", "np.array(%r)"][f] % (list(shape),), list(region), pixel, list(region), pixel, list(region), ADJ[adj], pixel)
    return Case({"fn": "shape_to_spacing", "region": list(region), "shape": shape, "shape_given_as": ["tuple", "list", "int ndarray"][f],
                 "called_twice_with_same_objects": True, "pixel": pixel, "adjust": ADJ[adj]},
                {"spacing": [float(sp[0]), float(sp[1])], "grid_shape": list(oshape)}, term, repro, kind)


def profile_case(vd, p1, p2, size, kind):
    (e, n), d = vd.profile_coordinates(p1, p2, size)
    term = "c07_profile %s %s %s %s %s %s %s %s" % (cD(p1[0]), cD(p1[1]), cD(p2[0]), cD(p2[1]), core.cN(size),
                                                    clist([cD(x) for x in e]), clist([cD(x) for x in n]), clist([cD(x) for x in d]))
    repro = "import verde; print(verde.profile_coordinates(%r, %r, %r))" % (p1, p2, size)
    return Case({"fn": "profile_coordinates", "p1": p1, "p2": p2, "size": size},
                {"easting": _arr(e), "northing": _arr(n), "distance": _arr(d)}, term, repro, kind)


def generate(tier, seed):
    import verde as vd
    rnd = random.Random(seed)
    cases = []
    # 1. the rational lattice
    k = 0
    for a in range(-8, 13):
        for b in range(a, 13):
            for s8 in range(1, 41):
                start, stop, sp = a / 4, b / 4, s8 / 8
                q = (stop - start) / sp
                tie = (q * 2) % 2 == 1
                for adj in (0, 1):
                    for pix in (False, True):
                        k += 1
                        if tier == "quick" and not (k % 11 == 0 or (tie and k % 3 == 0)):
                            continue
                        cases.append(core.guarded(lambda: line_case(vd, start, stop, None, sp, adj, pix, "lattice-tie" if tie else "lattice"), {"fn": "line_case"}, "line_case"))
    # 2. sizes
    for a, b in [(0.0, 5.0), (-3.25, 2.5), (1e6, 1e6 + 7.125), (2.0, 2.0), (-1e-3, 1e-3)]:
        for n in range(1, 7):
            for pix in (False, True):
                cases.append(core.guarded(lambda: line_case(vd, a, b, n, None, 0, pix, "size"), {"fn": "line_case"}, "line_case"))
    # 2b. node counts at which a recomputed last node (start + step * (n - 1)) misses the bound by an ulp
    for a, b in [(0.0, 10.0), (0.0, 0.1), (0.0, 360.0), (-3.7, 11.3)]:
        for n in [12, 23, 148, 170, 282, 295] + [rnd.randint(7, 300) for _ in range(4 if tier == "quick" else 40)]:
            for pix in (False, True):
                cases.append(core.guarded(lambda: line_case(vd, a, b, n, None, 0, pix, "size-large"), {"fn": "line_case"}, "line_case"))
    # 3. random floats, offsets, spacing larger than the extent
    nr = 300 if tier == "quick" else 3000
    for i in range(nr):
        off = rnd.choice([0.0, 0.0, 1e3, -1e5, 1e6, 1e6 + 0.125])
        ext = rnd.choice([rnd.uniform(0.1, 50), rnd.uniform(1e-3, 1e-2), rnd.uniform(1e3, 1e4), 0.0])
        start = off + rnd.uniform(-10, 10)
        stop = start + ext
        sp = rnd.choice([rnd.uniform(ext / 40 if ext else 0.1, ext if ext else 1.0) if ext else 1.0,
                         (ext or 1.0) * rnd.choice([1.5, 2.0, 3.0, 10.0]), (ext or 1.0) / rnd.randint(1, 30)])
        cases.append(core.guarded(lambda: line_case(vd, start, stop, None, sp, i % 2, bool((i // 2) % 2), "random"), {"fn": "line_case"}, "line_case"))
    # 4. invalid argument combinations
    for pix in (False, True):
        cases.append(core.guarded(lambda: line_case(vd, 0.0, 5.0, 3, 1.0, 0, pix, "invalid"), {"fn": "line_case"}, "line_case"))
        cases.append(core.guarded(lambda: line_case(vd, 0.0, 5.0, None, None, 0, pix, "invalid"), {"fn": "line_case"}, "line_case"))
        cases.append(core.guarded(lambda: line_case(vd, 0.0, 5.0, None, 1.0, 2, pix, "invalid"), {"fn": "line_case"}, "line_case"))
    # 5. grids
    regions = [(0.0, 5.0, 0.0, 10.0), (-5.0, 0.0, 0.0, 5.0), (-2.5, 1.25, 3.0, 4.75), (1e6, 1e6 + 4.0, -1e6, -1e6 + 3.0),
               (0.0, 0.0, 0.0, 1.0), (-0.5, 0.5, -0.25, 0.25)]
    shapes = [(1, 1), (1, 4), (5, 1), (2, 3), (4, 2), (3, 3)]
    spacings = [2.5, 0.75, (0.5, 1.25), (2.0, 0.4), (7.0, 0.3), [1.0], (1.0, 2.0, 3.0)]
    g = 0
    for reg in regions:
        for shp in shapes:
            for pix in (False, True):
                for extra, mesh in ((None, True), (None, False), ([3.5], True), ((1.0, -2.0), True), ([1.0], False), (0, True), (0.0, True), ([0.0, 2.0], True)):
                    g += 1
                    if tier == "quick" and g % 3:
                        continue
                    cases.append(core.guarded(lambda: grid_case(vd, reg, shp, None, 0, pix, extra, mesh, "grid-shape"), {"fn": "grid_case"}, "grid_case"))
        for sp in spacings:
            for adj in (0, 1):
                for pix in (False, True):
                    for extra, mesh in ((None, True), (None, False), ((2.0,), True)):
                        g += 1
                        if tier == "quick" and g % 3:
                            continue
                        if reg[1] - reg[0] > 0 and (reg[1] - reg[0]) / min(np.atleast_1d(sp)) > 40:
                            continue
                        cases.append(core.guarded(lambda: grid_case(vd, reg, None, sp, adj, pix, extra, mesh, "grid-spacing"), {"fn": "grid_case"}, "grid_case"))
    # regions whose (W, E) bounds are the same numbers as their (S, N) bounds, with per-direction spacings / non-square
    # shapes: the two directions must still be built independently
    for reg in [(0.0, 10.0, 0.0, 10.0), (-3.0, 4.5, -3.0, 4.5)]:
        for sp in [(2.5, 1.0), (1.0, 2.5), (3.0, 4.0), (0.75, 1.5)]:
            for adj in (0, 1):
                for pix in (False, True):
                    cases.append(core.guarded(lambda: grid_case(vd, reg, None, sp, adj, pix, None, bool(adj) or pix, "grid-square-region"),
                                              {"fn": "grid_coordinates", "region": list(reg), "spacing": sp, "adjust": ADJ[adj], "pixel_register": pix}, "grid-square-region"))
        for shp in [(2, 5), (5, 2), (3, 4)]:
            cases.append(core.guarded(lambda: grid_case(vd, reg, shp, None, 0, shp[0] > 2, None, True, "grid-square-region"),
                                      {"fn": "grid_coordinates", "region": list(reg), "shape": list(shp)}, "grid-square-region"))
    for reg in [(5.0, 0.0, 0.0, 1.0), (0.0, 1.0, 2.0, 1.0), (0.0, 1.0, 0.0), (0.0, 1.0, 0.0, 1.0, 2.0)]:
        cases.append(core.guarded(lambda: grid_case(vd, reg, (3, 3), None, 0, False, None, True, "grid-invalid"), {"fn": "grid_case"}, "grid_case"))
    cases.append(core.guarded(lambda: grid_case(vd, (0.0, 1.0, 0.0, 1.0), (3, 3), 0.5, 0, False, None, True, "grid-invalid"), {"fn": "grid_case"}, "grid_case"))
    cases.append(core.guarded(lambda: grid_case(vd, (0.0, 1.0, 0.0, 1.0), None, None, 0, False, None, True, "grid-invalid"), {"fn": "grid_case"}, "grid_case"))
    cases.append(core.guarded(lambda: grid_case(vd, (0.0, 1.0, 0.0, 1.0), None, 0.5, 2, False, None, True, "grid-invalid"), {"fn": "grid_case"}, "grid_case"))
    # 6. shape_to_spacing inverts the shape
    for reg in [(0.0, 10.0, 20.0, 30.0), (-7.5, 0.25, 1.0, 1.5), (1e6, 1e6 + 3.0, 0.0, 7.0), (0.1, 0.7, -0.3, 0.9)]:
        for shp in [(2, 2), (11, 11), (3, 7), (21, 5), (1, 1), (1, 6), (9, 1), (13, 10)]:
            for pix in (False, True):
                if not pix and min(shp) < 2:
                    continue
                for adj in (0, 1):
                    cases.append(core.guarded(lambda: s2s_case(vd, reg, shp, pix, adj, "shape_to_spacing"), {"fn": "s2s_case"}, "s2s_case"))
    nrs = 40 if tier == "quick" else 400
    for i in range(nrs):
        w = rnd.uniform(-100, 100)
        s = rnd.uniform(-100, 100)
        reg = (w, w + rnd.uniform(0.5, 50), s, s + rnd.uniform(0.5, 50))
        shp = (rnd.randint(2, 40), rnd.randint(2, 40))
        cases.append(core.guarded(lambda: s2s_case(vd, reg, shp, bool(i % 2), (i // 2) % 2, "shape_to_spacing-random"), {"fn": "s2s_case"}, "s2s_case"))
    # 7. profiles
    for p1, p2 in [((1.0, 10.0), (1.0, 20.0)), ((1.0, 5.0), (5.0, 5.0)), ((0.0, 0.0), (3.0, 4.0)), ((2.5, -1.0), (-4.0, 7.5)),
                   ((1e5, 1e5), (1e5 + 3.0, 1e5 - 4.0)), ((1.0, 1.0), (-2.0, -3.0)),
                   ((2.0, 3.0), (2.0, 3.0)), ((0.0, 0.0), (0.0, 0.0)), ((-7.5, 1e4), (-7.5, 1e4)),   # incl. coincident end points
                   ((1.0, 20.0), (1.0, 10.0)), ((5.0, 5.0), (1.0, 5.0)), ((-2.0, -3.0), (-2.0, -30.5)), ((0.0, 7.0), (-12.25, 7.0)),  # axis-aligned, running south / west
                   ((4.0, 3.0), (0.0, 0.0)), ((1.0, -1.0), (-3.0, 2.0))]:   # oblique towards the west
        for size in (1, 2, 3, 5, 11):
            cases.append(core.guarded(lambda: profile_case(vd, p1, p2, size, "profile"), {"fn": "profile_case"}, "profile_case"))
    for i in range(20 if tier == "quick" else 200):
        p1 = (rnd.uniform(-50, 50), rnd.uniform(-50, 50))
        p2 = (rnd.uniform(-50, 50), rnd.uniform(-50, 50))
        if i % 4 == 0:
            p2 = (p1[0], p2[1]) if i % 8 else (p2[0], p1[1])     # exactly parallel to an axis, either direction
        cases.append(core.guarded(lambda: profile_case(vd, p1, p2, rnd.randint(1, 12), "profile-random"), {"fn": "profile_case"}, "profile_case"))
    return cases


def search(dis, tier, seed):
    return generate("thorough", seed + 1)
