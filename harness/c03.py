"""C03 predictions evaluate the documented analytic models: kernel certificates (interval arithmetic),
predict = jacobian x parameters, Trend monomials / order, translation invariance, SciPy pass-through,
finiteness at coincident points."""
import math
import os
import random
import re
import subprocess
import time
import warnings
from fractions import Fraction

import numpy as np

from . import core, pylite_tie
from .core import Case, cD, cOD, cN, clist, cbool

obligations = pylite_tie.c03_obligations   # source-regenerated ties (harness/pylite_tie.py): trend_obligations + Trend.predict / Trend.jacobian
ID = "C03"
PROPS_FILE = "Props/C03.v"
IMPORTS = "From Verde Require Import Model.Trend Model.KernelCases."
SHARD = 60
RULE = ("(1) one interval-arithmetic certificate (a Coq lemma |model expression - observed entry| <= 64 x 2^-52 x condition, "
        "proved by coq-interval, compiled by coqc) per sampled entry of Spline.jacobian / VectorSpline2D.jacobian / value of "
        "CheckerBoard.predict: distances 0 (coincident), 1e-12 .. 1e8, 1 - 2^-53, exactly 1, 1 + 2^-52, e, along the axes and "
        "oblique, with offsets, mindist 0 / small / large / tiny, Poisson ratios in [-1, 1] with the documented special values "
        "(-1, 0, 1) in half and mindist = 0 in a fifth of the elastic samples plus all their combinations; CheckerBoard through "
        "predict (points, 2-D arrays) and grid() with the four option combinations (defaults, only w_east, only w_north, both "
        "given) in equal shares on regions away from the origin, and the w_east_/w_north_ properties exactly; in EVERY stream the "
        "estimator receives its options (Linear/Cubic rescale, Spline mindist/damping/force_coords, VectorSpline2D "
        "poisson/mindist/force_coords, Trend degree, CheckerBoard amplitude/region/w_east/w_north) in fixed equal shares through "
        "constructor arguments, set_params after a default or deliberately different construction, sklearn.base.clone of a "
        "configured instance, or attribute assignment - the observed behaviour must follow the options in force at fit/predict time; "
        "jacobian(dtype = default | float64 | float32) of Spline / VectorSpline2D / Trend in equal shares on metre-spaced "
        "coordinates at offsets 0 .. 1e7 spacings (UTM-like): default and float64 bit-equal to the double-precision jacobian of "
        "the coordinates translated to the origin, float32 within 2^-22 of it entry by entry (and certificates against the exact "
        "kernel with + 2^-22 |entry|); in the predict streams the public jacobian is called between fit and predict with other "
        "coordinates / a different number of other force coordinates and with the fitted ones (alternating order): fitted "
        "attributes (force_coords_ / force_coords, force_, coef_, region_) must be unchanged after each call and predict must "
        "equal jacobian(query, fitted forces) x parameters; the query coordinates of every predict stream (Spline, "
        "VectorSpline2D, Trend, CheckerBoard, Linear/Cubic) cycle through full 1-D / 2-D / grid arrays and the broadcastable forms "
        "sparse xy meshgrid (1,N)x(M,1), sparse ij meshgrid (N,1)x(1,M), np.ix_, (N,) with (M,1), scalar with array, array with "
        "scalar, square and non-square: the result must have the broadcast shape and equal the model / SciPy / certificate at "
        "the explicitly broadcast coordinates; (2) predict against jacobian x parameters exactly on dyadics for externally set and fitted parameters and "
        "1-D / 2-D / scalar-broadcast query shapes (Spline, VectorSpline2D, Trend); (3) Trend.jacobian columns against exact "
        "monomials in the documented order for degrees 0..6(8) and polynomial_power_combinations against the model (generator + "
        "stable sort) and the closed form; (4) jacobians of dyadically shifted coordinates bit-equal; (5) Linear/Cubic against "
        "direct SciPy calls for both rescale values (bit-equal, incl. NaN outside the hull); (6) finiteness at coincident "
        "points. Non-trivial = the entry / prediction is not identically zero by construction; distinct = distinct inputs.")
ASSUMPTIONS = [
    "floats are read as the exact rationals they denote; the real-valued kernels (sqrt, ln, exp, sin, cos, pi) are the Coq standard library's, bounded by coq-interval (certificates rely on the stdlib Reals axioms and on coq-interval's proved correctness, checked by the Coq kernel)",
    "a certificate's tolerance is 64 x 2^-52 x (r + r^2 (1 + |ln r|)) + 2^-1074 for the spline kernel (analogous condition numbers for the elastic kernels and the checkerboard): the error budget of the double-precision evaluation, far below any change of formula",
    "predict vs jacobian x parameters: tolerance 2^-40 x sum_j |J_ij p_j|",
    "Linear/Cubic: SciPy's interpolators are the specification (oracle); only pass-through of points, values and the rescale flag is checked",
]
TRUSTED = ["harness/c03.py (generators, certificate statements generated from the observed floats, coqc driver for certificate batches)"]

U = 2.0 ** -52
CERT_HEADER = ("From Coq Require Import Reals.\nFrom Interval Require Import Tactic.\n"
               "From Verde Require Import Model.Kernels Proofs.KernelsProofs.\nOpen Scope R_scope.\n")


# ---------------------------------------------------------------------------
# how an estimator gets its options: the behaviour must follow the options in force at fit / predict time
# ---------------------------------------------------------------------------
MODES = ("constructor", "set_params", "clone", "attribute")
_COUNT = {}
LAST_MODE = {"mode": None}


def conf(cls, options, tag, decoy=None, required=()):
    """an estimator of class cls whose options are `options`, obtained - in fixed equal shares per stream `tag` - through
    constructor arguments, cls(<defaults or deliberately different options>).set_params(**options), sklearn.base.clone of a
    configured instance, or plain attribute assignment after construction.  Returns (estimator, description)."""
    from sklearn.base import clone
    n = _COUNT.get(tag, 0)
    _COUNT[tag] = n + 1
    mode = MODES[(n + n // 4) % 4]
    use_decoy = decoy is not None and (n // 4) % 2 == 1
    desc = mode
    with warnings.catch_warnings():
        warnings.simplefilter("ignore")
        if mode == "constructor":
            g = cls(**options)
        elif mode == "clone":
            g = clone(cls(**options))
        else:
            base = dict(decoy) if use_decoy else {k: decoy[k] for k in required}
            g = cls(**base)
            desc = "%s after %s(%s)" % (mode, cls.__name__, ", ".join("%s=%r" % kv for kv in base.items()))
            if mode == "set_params":
                g.set_params(**options)
            else:
                for k, v in options.items():
                    setattr(g, k, v)
    LAST_MODE["mode"] = desc
    return g, desc


def conf_spline(vd, md, tag, **extra):
    """verde.Spline: the constructor turns mindist=None into 0; pass the number when the option is set later"""
    opts = dict(extra)
    n = _COUNT.get(tag, 0)
    mode = MODES[(n + n // 4) % 4]
    opts["mindist"] = (None if (md == 0 and mode in ("constructor", "clone") and n % 3) else md)
    return conf(vd.Spline, opts, tag, decoy={"mindist": 7.5, "damping": 123.0})


# ---------------------------------------------------------------------------
# real literals
# ---------------------------------------------------------------------------
def fR(x):
    """a finite float as an exact Coq real expression (integer, or odd mantissa / 2^k)"""
    if not math.isfinite(float(x)):
        return "(non_finite_%s)" % ("nan" if math.isnan(float(x)) else "inf")   # no such constant: the certificate cannot compile
    fr = Fraction(float(x))
    n, d = fr.numerator, fr.denominator
    if d == 1:
        return "(%d)" % n
    k = d.bit_length() - 1
    return "(%d / 2^%d)" % (n, k)


def exact_diff(a, b):
    return float(Fraction(float(a)) - Fraction(float(b)))


class Cert:
    __slots__ = ("name", "stmt", "script", "inp", "out", "kind", "repro", "nontrivial", "ok", "log")

    def __init__(self, stmt, script, inp, out, kind, repro, nontrivial=True):
        self.stmt, self.script, self.inp, self.out, self.kind, self.repro = stmt, script, inp, out, kind, repro
        self.nontrivial = nontrivial
        self.ok = None
        self.log = ""
        if isinstance(self.inp, dict):
            self.inp["configured"] = LAST_MODE["mode"]
        if "non_finite" in stmt:
            self.ok = False
            self.log = "observed value or tolerance is not finite"


def spline_cert(e, n, fe, fn, md, obs, kind, extra_tol=0.0, note=None):
    dx, dy = exact_diff(e, fe), exact_diff(n, fn)
    r = math.hypot(dx, dy) + md
    coincident = (e == fe and n == fn and md == 0)
    if coincident:
        tol = 0.0
        script = "rewrite spline_entry_coincident, Rminus_0_r, Rabs_R0. apply Rle_refl."
        mdl = "0"
    else:
        # + one subnormal ulp: the absolute granularity of doubles (results that underflow to 0 for subnormal distances)
        tol = 64 * U * (r + r * r * (1 + abs(math.log(r)))) + 5e-324 + extra_tol
        script = ("unfold spline_entry, spline_kernel. rewrite g_code_eq by (unfold dist; interval with (i_prec 90)). "
                  "unfold dist. interval with (i_prec 90).")
        mdl = fR(md)
    stmt = "Rabs (spline_entry %s %s %s %s %s - %s) <= %s" % (fR(e), fR(n), fR(fe), fR(fn), mdl, fR(obs), fR(tol))
    repro = ("import verde, numpy as np, warnings; warnings.simplefilter('ignore'); "
             "print(repr(verde.Spline(mindist=%r).jacobian((np.array([%r]), np.array([%r])), (np.array([%r]), np.array([%r])))[0, 0]))"
             % (md, e, n, fe, fn))
    return Cert(stmt, script, {"kernel": "spline", "east": e, "north": n, "force_east": fe, "force_north": fn, "mindist": md,
                               "distance": r, "note": note}, {"entry": obs, "tol": tol}, kind, repro, nontrivial=not coincident)


def elastic_cert(which, e, n, fe, fn, md, nu, obs, kind, extra_tol=0.0, note=None):
    dx, dy = exact_diff(e, fe), exact_diff(n, fn)
    d = math.hypot(dx, dy) + md
    q = {"ee": (dy / d) ** 2, "nn": (dx / d) ** 2, "ne": abs((dx / d) * (dy / d))}[which]
    tol = 64 * U * (abs(3 - nu) * (1 + abs(math.log(d))) + abs(1 + nu) * q) + extra_tol
    stmt = "Rabs (g_%s (%s - %s) (%s - %s) %s %s - %s) <= %s" % (
        which, fR(e), fR(fe), fR(n), fR(fn), fR(md), fR(nu), fR(obs), fR(tol))
    script = "unfold g_%s, el_ln, dist. interval with (i_prec 90)." % which
    repro = ("import verde, numpy as np; J = verde.VectorSpline2D(poisson=%r, mindist=%r).jacobian((np.array([%r]), np.array([%r])), "
             "(np.array([%r]), np.array([%r]))); print(repr(J))  # [[ee, ne], [ne, nn]]" % (nu, md, e, n, fe, fn))
    return Cert(stmt, script, {"kernel": "elastic_" + which, "east": e, "north": n, "force_east": fe, "force_north": fn,
                               "mindist": md, "poisson": nu, "distance": d, "note": note}, {"entry": obs, "tol": tol}, kind, repro,
                nontrivial=not (which == "ne" and q == 0))


def _copt(x):
    return "None" if x is None else "(Some %s)" % fR(x)


def checker_cert(amp, region, we, wn, e, n, obs, kind, via="predict", use_default_def=False):
    w_e = we if we is not None else (region[1] - region[0]) / 2
    w_n = wn if wn is not None else (region[3] - region[2]) / 2
    tol = 64 * U * abs(amp) * (1 + abs(2 * math.pi / w_e * e) + abs(2 * math.pi / w_n * n))
    if we is None and wn is None and use_default_def:
        expr = "checker_default %s %s %s %s %s %s %s" % (fR(amp), fR(region[0]), fR(region[1]), fR(region[2]), fR(region[3]), fR(e), fR(n))
        script = "unfold checker_default, checker. interval with (i_prec 90)."
    else:
        expr = "checker_opt %s %s %s %s %s %s %s %s %s" % (fR(amp), fR(region[0]), fR(region[1]), fR(region[2]), fR(region[3]),
                                                         _copt(we), _copt(wn), fR(e), fR(n))
        script = "unfold checker_opt, wavelength, checker. interval with (i_prec 90)."
    stmt = "Rabs (%s - %s) <= %s" % (expr, fR(obs), fR(tol))
    repro = ("import verde, numpy as np; print(repr(verde.synthetic.CheckerBoard(amplitude=%r, region=%r, w_east=%r, w_north=%r)"
             ".predict((np.array([%r]), np.array([%r])))[0]))  # observed through %s" % (amp, tuple(region), we, wn, e, n, via))
    options = {(True, True): "defaults", (False, True): "only-w_east", (True, False): "only-w_north", (False, False): "both-given"}[
        (we is None, wn is None)]
    return Cert(stmt, script, {"kernel": "checkerboard", "options": options, "via": via, "amplitude": amp, "region": list(region),
                               "w_east": we, "w_north": wn, "east": e, "north": n}, {"value": obs, "tol": tol}, kind, repro)


# ---------------------------------------------------------------------------
# compiling certificate batches
# ---------------------------------------------------------------------------
def _coqc(path, timeout):
    p = subprocess.run(["timeout", str(timeout), "coqc", "-R", os.path.join(core.COQ, "theories"), "Verde", "-w", "-all", path],
                       stdout=subprocess.PIPE, stderr=subprocess.STDOUT, text=True, cwd=os.path.dirname(path))
    return p.returncode, p.stdout


def _write_batch(path, certs):
    """returns the line number at which each lemma starts"""
    lines = CERT_HEADER.count("\n")
    starts = []
    with open(path, "w") as f:
        f.write(CERT_HEADER)
        for k, c in enumerate(certs):
            starts.append(lines + 1)
            txt = "Lemma cert_%d : %s.\nProof. %s Qed.\n" % (k, c.stmt, c.script)
            f.write(txt)
            lines += txt.count("\n")
    return starts


def compile_certs(certs, tag, per_cert_timeout=60):
    """compile all certificates in parallel batches; on a failing batch locate the failing
    certificates by recompiling its members one by one.  Sets cert.ok."""
    from concurrent.futures import ThreadPoolExecutor
    d = os.path.join(core.BUILD, ID)
    os.makedirs(d, exist_ok=True)
    for fn in os.listdir(d):
        if fn.startswith("cert_%s_" % tag):
            os.unlink(os.path.join(d, fn))
    certs = [c for c in certs if c.ok is None]
    if not certs:
        return
    nb = max(1, min(core.NPROC, len(certs)))
    per = -(-len(certs) // nb)
    per = min(per, 40)
    batches = [certs[k:k + per] for k in range(0, len(certs), per)]

    def run_batch(arg):
        k, b = arg
        path = os.path.join(d, "cert_%s_%d.v" % (tag, k))
        _write_batch(path, b)
        rc, out = _coqc(path, 60 + per_cert_timeout * len(b))
        return k, b, rc, out

    failed = []
    with ThreadPoolExecutor(max_workers=core.NPROC) as ex:
        for k, b, rc, out in ex.map(run_batch, list(enumerate(batches))):
            if rc == 0:
                for c in b:
                    c.ok = True
            else:
                failed.append((k, b))

    singles = [(k, i, c) for k, b in failed for i, c in enumerate(b)]

    def run_single(arg):
        k, i, c = arg
        path = os.path.join(d, "cert_%s_%d_%d.v" % (tag, k, i))
        _write_batch(path, [c])
        rc, out = _coqc(path, 60 + per_cert_timeout)
        return c, rc, out

    if singles:
        with ThreadPoolExecutor(max_workers=core.NPROC) as ex:
            for c, rc, out in ex.map(run_single, singles):
                c.ok = (rc == 0)
                c.log = out[-600:]


def cert_cases(certs, tag):
    compile_certs(certs, tag)
    cases = []
    for c in certs:
        out = dict(c.out)
        out["certificate"] = c.stmt
        if not c.ok:
            out["coqc"] = c.log
        cases.append(Case(c.inp, out, "c03_flag %s" % cbool(bool(c.ok)), c.repro, c.kind, c.nontrivial))
    return cases


# ---------------------------------------------------------------------------
# certificate samples
# ---------------------------------------------------------------------------
E_DOUBLE = math.e
DISTANCES = [1e-12, 1e-9, 1e-6, 1e-3, 0.03125, 0.3, 0.5, 1 - 2.0 ** -53, 1.0, 1 + 2.0 ** -52, 1.5, E_DOUBLE, 3.0, 10.0,
             150.0, 700.0, 1e3, 1e5, 1e6, 1e8]


# tiny mindist values: squares underflow below ~1.5e-162; around the smallest normal double; subnormals
TINY = [1e-150, 1e-162, 1.5e-162, 1e-200, 1e-300, 2.2250738585072014e-308, 2.2250738585072009e-308, 1e-310, 5e-324]


def _directions(rnd, r):
    """coordinate differences of (float) length ~ r"""
    t = rnd.uniform(0.1, 1.4)
    return [(r, 0.0), (0.0, -r), (-r, 0.0), (r * math.cos(t), r * math.sin(t)), (-r * 0.6, r * 0.8)]


def spline_samples(vd, rnd, tier):
    certs = []
    reps = 1 if tier == "quick" else 5
    offsets = [(0.0, 0.0), (3.5, -2.25), (-1024.0, 512.0)]
    for rep in range(reps):
        for r in DISTANCES:
            dirs = _directions(rnd, r)
            if tier == "quick":
                dirs = [dirs[rnd.randrange(3)], dirs[3 + rnd.randrange(2)]]
            for (dx, dy) in dirs:
                fe, fn = offsets[0] if (r < 1e-3 or rnd.random() < 0.4) else rnd.choice(offsets)
                if rep > 0:
                    s = rnd.uniform(0.5, 2.0)
                    dx, dy = dx * s, dy * s
                    if r in (1.0, E_DOUBLE, 1 - 2.0 ** -53, 1 + 2.0 ** -52) and rnd.random() < 0.5:
                        dx, dy = dx / s, dy / s
                md = rnd.choice([0.0, 0.0, 0.0, 0.25, 1e-3, 10.0, r])
                if 0 < md and rnd.random() < 0.3:
                    # land exactly on the branch switch / the cancellation point through mindist
                    target = rnd.choice([1.0, E_DOUBLE])
                    if math.hypot(dx, dy) < target:
                        md = target - math.hypot(dx, dy)
                e, n = fe + dx, fn + dy
                with warnings.catch_warnings():
                    warnings.simplefilter("ignore")
                    sp, _ = conf_spline(vd, float(md), "cert-spline")
                    J = sp.jacobian((np.array([e]), np.array([n])), (np.array([fe]), np.array([fn])))
                certs.append(spline_cert(e, n, fe, fn, float(md), float(J[0, 0]), "cert-spline"))
    # coincident points
    for (pe, pn) in [(0.0, 0.0), (3.5, -2.25), (1e6 + 0.5, -7e5)]:
        for md in ([0.0, 0.5, 1.0, 1e-12, 1e-300] if tier == "quick" else [0.0, 0.5, 1.0, 1e-12, E_DOUBLE, 1e-3, 7.0, 1e8] + TINY):
            with warnings.catch_warnings():
                warnings.simplefilter("ignore")
                sp, _ = conf_spline(vd, float(md), "cert-spline-coincident")
                J = sp.jacobian((np.array([pe, pe + 1]), np.array([pn, pn])), (np.array([pe]), np.array([pn])))
            certs.append(spline_cert(pe, pn, pe, pn, float(md), float(J[0, 0]), "cert-spline-coincident"))
    return certs


SPECIAL_NU = [-1.0, 0.0, 1.0]


def elastic_samples(vd, rnd, tier):
    certs = []
    reps = 1 if tier == "quick" else 4
    nus = [0.5, -1.0, 1.0, 0.0, 0.25, -0.5, 0.3]
    generic = [0.5, 0.25, -0.5, 0.3, -0.9, 0.99]
    k = 0
    for rep in range(reps):
        for r in [0.0, 1e-12, 1e-6, 1e-3, 0.5, 1.0, E_DOUBLE, 10.0, 1e3, 1e4, 1e6, 1e8]:
            dirs = [(0.0, 0.0)] if r == 0 else _directions(rnd, r)
            if r and tier == "quick":
                dirs = [dirs[rnd.randrange(3)], dirs[3 + rnd.randrange(2)]]
            for (dx, dy) in dirs:
                k += 1
                # fixed shares: every second sample has a documented special Poisson ratio (-1 uncoupled, 0, 1) ...
                if k % 2 == 0:
                    nu = SPECIAL_NU[(k // 2) % 3]
                else:
                    nu = generic[(k // 2) % len(generic)] if rep == 0 else rnd.choice(generic + [round(rnd.uniform(-1, 1), 3)])
                md = rnd.choice([10e3, 1.0, 1e-3, 0.5 * r if r else 2.0])
                if r >= 1e-3 and k % 5 == 0:
                    md = 0.0   # ... and every fifth mindist = 0 ("mindist values >= 0": allowed when the points are apart)
                fe, fn = rnd.choice([(0.0, 0.0), (2.5, -1.0), (-1024.0, 512.0)]) if r >= 1e-3 else (0.0, 0.0)
                e, n = fe + dx, fn + dy
                J = conf(vd.VectorSpline2D, {"poisson": nu, "mindist": md}, "cert-elastic", decoy={"poisson": 0.123, "mindist": 77.0})[0].jacobian((np.array([e]), np.array([n])), (np.array([fe]), np.array([fn])))
                ee, ne, ne2, nn = float(J[0, 0]), float(J[0, 1]), float(J[1, 0]), float(J[1, 1])
                kind = "cert-elastic-coincident" if r == 0 else "cert-elastic"
                certs.append(elastic_cert("ee", e, n, fe, fn, float(md), nu, ee, kind))
                certs.append(elastic_cert("nn", e, n, fe, fn, float(md), nu, nn, kind))
                # the off-diagonal blocks alternate between the two positions of the matrix
                certs.append(elastic_cert("ne", e, n, fe, fn, float(md), nu, ne if k % 2 else ne2, kind))
    # the documented special parameter values, all combinations: poisson in {-1, 0, 1} x mindist in {0, default 10e3, 1}
    for nu in SPECIAL_NU:
        for md in (0.0, 10e3, 1.0):
            rs = [[0.5], [1e4]][(k // 1) % 2] if tier == "quick" else [1e-3, 0.5, 1.0, E_DOUBLE, 30.0, 1e4, 1e6]
            for r in rs:
                k += 1
                dx, dy = _directions(rnd, r * rnd.uniform(0.7, 1.4))[3 + k % 2]
                fe, fn = [(0.0, 0.0), (2.5, -1.0), (-1024.0, 512.0)][k % 3]
                e, n = fe + dx, fn + dy
                J = conf(vd.VectorSpline2D, {"poisson": nu, "mindist": md}, "cert-elastic", decoy={"poisson": 0.123, "mindist": 77.0})[0].jacobian((np.array([e]), np.array([n])), (np.array([fe]), np.array([fn])))
                kind = "cert-elastic-special-poisson%+d-mindist%s" % (int(nu), "0" if md == 0 else "pos")
                certs.append(elastic_cert("ee", e, n, fe, fn, float(md), nu, float(J[0, 0]), kind))
                certs.append(elastic_cert("nn", e, n, fe, fn, float(md), nu, float(J[1, 1]), kind))
                certs.append(elastic_cert("ne", e, n, fe, fn, float(md), nu, float(J[0, 1] if k % 2 else J[1, 0]), kind))
    # tiny positive mindist (mindist**2 underflows / subnormal): coincident points and points apart
    tiny = [1e-162, 1e-300, 2.2250738585072014e-308, 5e-324] if tier == "quick" else TINY
    for md in tiny:
        for (fe, fn, dx, dy) in ([(0.0, 0.0, 0.0, 0.0), (2.5, -1.0, 0.0, 0.0), (0.0, 0.0, 0.375, -1.5)] if tier == "quick" else
                                 [(0.0, 0.0, 0.0, 0.0), (2.5, -1.0, 0.0, 0.0), (-1024.0, 512.0, 0.0, 0.0), (0.0, 0.0, 0.375, -1.5),
                                  (2.5, -1.0, 1e-3, 0.0), (0.0, 0.0, -3e4, 4e4)]):
            k += 1
            nu = nus[k % len(nus)]
            e, n = fe + dx, fn + dy
            J = conf(vd.VectorSpline2D, {"poisson": nu, "mindist": md}, "cert-elastic", decoy={"poisson": 0.123, "mindist": 77.0})[0].jacobian((np.array([e]), np.array([n])), (np.array([fe]), np.array([fn])))
            kind = "cert-elastic-tiny-mindist-coincident" if (dx == 0 and dy == 0) else "cert-elastic-tiny-mindist"
            certs.append(elastic_cert("ee", e, n, fe, fn, float(md), nu, float(J[0, 0]), kind))
            certs.append(elastic_cert("nn", e, n, fe, fn, float(md), nu, float(J[1, 1]), kind))
            certs.append(elastic_cert("ne", e, n, fe, fn, float(md), nu, float(J[0, 1] if k % 2 else J[1, 0]), kind))
    return certs


# regions away from the origin (and the class default); wavelengths that differ from half of every extent
CB_REGIONS = [(1000.0, 5000.0, -8000.0, -6000.0), (100.0, 103.5, -8.0, 56.0), (-10.0, 6.0, 2.0, 3.0), (0.0, 4000.0, 0.0, 2000.0),
              (0.0, 5000.0, -5000.0, 0.0), (-7300.5, -7100.0, 250.25, 900.0)]
CB_WAVES = [(700.0, 300.0), (3.0, 7.0), (1250.0, 400.0), (0.75, 12.5), (100.0, 0.3), (37.5, 5100.0)]
CB_OPTIONS = ["defaults", "only-w_east", "only-w_north", "both-given"]


def _cb_options(k, region, waves):
    """the k-th option combination (fixed shares: every combination a quarter of the samples)"""
    we, wn = waves
    assert we != (region[1] - region[0]) / 2 and wn != (region[3] - region[2]) / 2
    return [(None, None), (we, None), (None, wn), (we, wn)][k % 4]


def checker_samples(vd, rnd, tier):
    certs = []
    quick = tier == "quick"
    # (a) predict on single points / 2-D arrays: all four option combinations in equal shares
    n = 16 if quick else 120
    for i in range(n):
        region = CB_REGIONS[(i // 4) % len(CB_REGIONS)]
        waves = CB_WAVES[(i // 4 + i // 24) % len(CB_WAVES)]
        we, wn = _cb_options(i, region, waves)
        amp = rnd.choice([1000.0, 1.0, -2.5, 37.0])
        cb, _ = conf(vd.synthetic.CheckerBoard, {"amplitude": amp, "region": region, "w_east": we, "w_north": wn}, "cert-checkerboard",
                     decoy={"amplitude": 3.25, "region": (-1.0, 9.0, 5.0, 6.0), "w_east": 11.0, "w_north": 0.7})
        e = rnd.uniform(region[0], region[1]) if i % 3 else region[0] + (region[1] - region[0]) * rnd.choice([0, 0.125, 0.25, 1])
        nn = rnd.uniform(region[2], region[3]) if i % 5 else region[2] + (region[3] - region[2]) * rnd.choice([0, 0.25, 0.5])
        if (i // 4) % 2:
            qe = np.array([[region[0], e], [e, region[1]]]); qn = np.array([[region[2], region[3]], [nn, nn]])
            out = cb.predict((qe, qn))
            assert out.shape == qe.shape
            val, via = float(out[1, 0]), "predict (2-D arrays)"
        else:
            val, via = float(cb.predict((np.array([e]), np.array([nn])))[0]), "predict"
        certs.append(checker_cert(amp, region, we, wn, float(e), float(nn), val, "cert-checkerboard-" + CB_OPTIONS[i % 4], via,
                                  use_default_def=bool((i // 4) % 2)))
    # (a') predict with coordinates in broadcastable forms: result of the broadcast shape, an off-diagonal element certified
    for i in range(9 if quick else 36):
        region = CB_REGIONS[i % len(CB_REGIONS)]
        waves = CB_WAVES[(i + 1) % len(CB_WAVES)]
        we, wn = _cb_options(i, region, waves)
        amp = [1000.0, -2.5, 37.0][i % 3]
        cb, _ = conf(vd.synthetic.CheckerBoard, {"amplitude": amp, "region": region, "w_east": we, "w_north": wn}, "cert-checkerboard-broadcast",
                     decoy={"amplitude": 3.25, "region": (-1.0, 9.0, 5.0, 6.0), "w_east": 11.0, "w_north": 0.7})
        raw, qe, qn, form = _query2(rnd, "cert-checkerboard-broadcast", 0.0, 1.0)
        sc = lambda a, lo, hi: lo + (hi - lo) * a                      # noqa: E731
        raw = (sc(raw[0], region[0], region[1]), sc(raw[1], region[2], region[3]))
        qe, qn = (np.array(a, dtype=float) for a in np.broadcast_arrays(*raw))
        out = np.asarray(cb.predict(raw))
        ok_shape = out.shape == qe.shape
        picks = [(0,) * (qe.ndim - 1) + (qe.shape[-1] - 1,), tuple(d - 1 for d in qe.shape[:-1]) + (0,)] if qe.ndim else [()]
        for pk in picks[:1 if quick else 2]:
            val = float(out[pk]) if ok_shape else float("nan")
            certs.append(checker_cert(amp, region, we, wn, float(qe[pk]), float(qn[pk]), val, "cert-checkerboard-broadcast",
                                      "predict(%s)[%s]" % (form, ", ".join(map(str, pk)))))
    # (b) grid(): nodes of the gridded data set, all four option combinations
    m = 4 if quick else 24
    for i in range(m):
        region = CB_REGIONS[(i // 4 + 1) % len(CB_REGIONS)]
        waves = CB_WAVES[(i // 4 + 2) % len(CB_WAVES)]
        we, wn = _cb_options(i, region, waves)
        amp = rnd.choice([1000.0, 25.0, -2.5])
        cb, _ = conf(vd.synthetic.CheckerBoard, {"amplitude": amp, "region": region, "w_east": we, "w_north": wn}, "cert-checkerboard-grid",
                     decoy={"amplitude": 3.25, "region": (-1.0, 9.0, 5.0, 6.0), "w_east": 11.0, "w_north": 0.7})
        grid = cb.grid(shape=(4, 5))
        vals = np.asarray(grid.scalars.values, dtype=float)
        ge = np.asarray(grid.easting.values, dtype=float); gn = np.asarray(grid.northing.values, dtype=float)
        assert vals.shape == (4, 5)
        for (r, c) in ([(1, 3)] if quick else [(1, 3), (2, 1), (3, 4)]):
            certs.append(checker_cert(amp, region, we, wn, float(ge[c]), float(gn[r]), float(vals[r, c]),
                                      "cert-checkerboard-grid-" + CB_OPTIONS[i % 4], "grid(shape=(4, 5)).scalars[%d, %d]" % (r, c)))
    return certs


# ---------------------------------------------------------------------------
# requested output dtype x coordinate offsets (UTM-like coordinates, metre spacing)
# ---------------------------------------------------------------------------
DTYPES = [None, "float64", "float32"]
# (east offset, north offset) in units of the spacing: 0 .. 1e7
OFFSETS = [(0.0, 0.0), (5e5, 7.5e6), (1e3, -2e3), (-3.2e5, 4.1e6), (1e7, 1e7), (64.0, 1e5)]
F32 = 2.0 ** -22


def _jac(g, coords, forces, dtype):
    """the PUBLIC jacobian with the requested dtype (None = the default)"""
    with warnings.catch_warnings():
        warnings.simplefilter("ignore")
        if forces is None:
            return g.jacobian(coords) if dtype is None else g.jacobian(coords, dtype=dtype)
        return g.jacobian(coords, forces) if dtype is None else g.jacobian(coords, forces, dtype=dtype)


def _utm_points(rnd, k, n, m):
    """n data points and m forces on a metre-like lattice at the k-th offset (dyadic, differences exact in double)"""
    spacing = [1.0, 0.25, 100.0, 1.0][k % 4]
    oe, on = OFFSETS[(k // 3) % len(OFFSETS)]
    pe = np.array([oe * spacing + spacing * rnd.randint(-40, 40) / 4 for _ in range(n)])
    pn = np.array([on * spacing + spacing * rnd.randint(-40, 40) / 4 for _ in range(n)])
    fe = np.array([oe * spacing + spacing * rnd.randint(-40, 40) / 4 for _ in range(m)])
    fn = np.array([on * spacing + spacing * rnd.randint(-40, 40) / 4 for _ in range(m)])
    fe[0], fn[0] = pe[0] + 10.5 * spacing, pn[0] - 3.25 * spacing      # a fixed oblique pair
    return spacing, (oe * spacing, on * spacing), pe, pn, fe, fn


def dtype_samples(vd, rnd, tier):
    """certificates for entries of jacobian(..., dtype=...): for float32 the exact kernel of the DOUBLE coordinates must be met
    within the double-precision budget + 2^-22 |entry| (a few single-precision ulps), never looser"""
    certs = []
    n = 12 if tier == "quick" else 90
    for k in range(n):
        dt = DTYPES[k % 3]
        vector = bool((k // 3) % 2)
        spacing, off, pe, pn, fe, fn = _utm_points(rnd, k // 2, 2, 1)
        note = {"dtype": dt, "offset": list(off), "spacing": spacing}
        if vector:
            nu = [0.5, -1.0, 0.0, 1.0, 0.3][(k // 6) % 5]; md = [10e3, 1.0, 0.0][(k // 6) % 3]
            g, _ = conf(vd.VectorSpline2D, {"poisson": nu, "mindist": md}, "cert-dtype-vector", decoy={"poisson": 0.123, "mindist": 77.0})
            J = _jac(g, (pe, pn), (fe, fn), dt)
            J64 = np.asarray(_jac(g, (pe, pn), (fe, fn), "float64"), dtype=float)
            kind = "cert-dtype-%s-vector" % (dt or "default")
            ok_dt = J.dtype == (np.float32 if dt == "float32" else np.float64)
            for which, (r, c) in (("ee", (0, 0)), ("nn", (2, 1)), ("ne", (0, 1) if k % 2 else (2, 0))):
                obs = float(J[r, c]) if ok_dt else float("nan")
                certs.append(elastic_cert(which, pe[0], pn[0], fe[0], fn[0], float(md), nu, obs, kind,
                                          extra_tol=F32 * abs(J64[r, c]) if dt == "float32" else 0.0, note=note))
        else:
            md = [0.0, 0.0, 0.5][(k // 6) % 3]
            g, _ = conf_spline(vd, md, "cert-dtype-spline")
            J = _jac(g, (pe, pn), (fe, fn), dt)
            J64 = np.asarray(_jac(g, (pe, pn), (fe, fn), "float64"), dtype=float)
            ok_dt = J.dtype == (np.float32 if dt == "float32" else np.float64)
            for r in (0, 1):
                obs = float(J[r, 0]) if ok_dt else float("nan")
                certs.append(spline_cert(pe[r], pn[r], fe[0], fn[0], float(md), obs, "cert-dtype-%s-spline" % (dt or "default"),
                                         extra_tol=F32 * abs(J64[r, 0]) if dt == "float32" else 0.0, note=note))
    return certs


def dtype_case(vd, rnd, which, idx):
    """jacobian(dtype=...) at UTM-like offsets: default / float64 bit-equal to the double reference, float32 within 2^-22 of it
    entry by entry; the same for coordinates and forces translated together (spline matrices)"""
    dt = DTYPES[idx % 3]
    n, m = rnd.randint(2, 5), rnd.randint(1, 4)
    spacing, off, pe, pn, fe, fn = _utm_points(rnd, idx, n, m)
    cases = []
    if which == "trend":
        N = [1, 2, 3, 0][(idx // 3) % 4]
        g, how = conf(vd.Trend, {"degree": N}, "dtype-trend", decoy={"degree": N + 2}, required=("degree",))
        J = _jac(g, (pe, pn), None, dt)
        ref = np.asarray(_jac(vd.Trend(degree=N), (pe, pn), None, "float64"), dtype=float)
        desc = {"gridder": "Trend", "degree": N}
        forces = None
    elif which == "vector":
        nu = [0.5, -1.0, 0.0, 1.0][(idx // 3) % 4]; md = [10e3, 1.0, 25.0][(idx // 3) % 3]
        g, how = conf(vd.VectorSpline2D, {"poisson": nu, "mindist": md}, "dtype-vector", decoy={"poisson": 0.123, "mindist": 77.0})
        J = _jac(g, (pe, pn), (fe, fn), dt)
        ref = np.asarray(_jac(vd.VectorSpline2D(poisson=nu, mindist=md), (pe - off[0], pn - off[1]), (fe - off[0], fn - off[1]), "float64"), dtype=float)
        desc = {"gridder": "VectorSpline2D", "poisson": nu, "mindist": md}
        forces = (fe, fn)
    else:
        md = [0.0, 0.0, 0.5][(idx // 3) % 3]
        g, how = conf_spline(vd, md, "dtype-spline")
        J = _jac(g, (pe, pn), (fe, fn), dt)
        with warnings.catch_warnings():
            warnings.simplefilter("ignore")
            ref = np.asarray(_jac(vd.Spline(mindist=md if md else None), (pe - off[0], pn - off[1]), (fe - off[0], fn - off[1]), "float64"), dtype=float)
        desc = {"gridder": "Spline", "mindist": md}
        forces = (fe, fn)
    # the reference for the spline matrices is the double-precision jacobian of the coordinates translated back to the origin
    # (exact dyadic translation): checks the dtype handling and "depends on coordinate differences only" at once
    want = np.float32 if dt == "float32" else np.float64
    flags = bool(J.dtype == want and J.shape == ref.shape)
    desc.update({"configured": how, "dtype": dt, "offset": list(off), "spacing": spacing, "east": pe.tolist(), "north": pn.tolist(),
                 "force_east": None if forces is None else fe.tolist(), "force_north": None if forces is None else fn.tolist()})
    kind = "jacobian-dtype-%s-%s" % (dt or "default", which)
    J = np.asarray(J)
    if not (_fin(J, ref) and J.shape == ref.shape):
        term = "c03_flag false"
    elif dt == "float32":
        term = "c03_close32 %s %s %s" % (cmat(J), cmat(ref), cbool(flags))
    else:
        term = "c03_same %s %s %s" % (cmat(J), cmat(ref), cbool(flags))
    err = float(np.max(np.abs(J.astype(float) - ref) / np.maximum(np.abs(ref), 1e-300))) if J.shape == ref.shape else None
    repro = ("# %s.jacobian(coordinates%s, dtype=%r) for the listed input against the float64 jacobian of the coordinates minus the offset"
             % (desc["gridder"], "" if forces is None else ", forces", dt))
    cases.append(Case(desc, {"dtype": str(J.dtype), "max_relative_difference_to_float64_kernel": err}, term, repro, kind))
    return cases


# ---------------------------------------------------------------------------
# vm_compute cases
# ---------------------------------------------------------------------------
def _fin(*arrays):
    return all(bool(np.all(np.isfinite(np.asarray(a, dtype=float)))) for a in arrays)


def cmat(A):
    return clist([clist([cD(x) for x in row]) for row in np.asarray(A, dtype=float)])


def cvec(v):
    return clist([cD(x) for x in np.asarray(v, dtype=float).ravel()])


def _dy(rnd, lo, hi, bits=6):
    """a dyadic with few bits in [lo, hi]"""
    s = 2 ** bits
    return rnd.randint(int(lo * s), int(hi * s)) / s


def _query(rnd, shape_kind, lo=-20.0, hi=20.0):
    if shape_kind == "1d":
        n = rnd.randint(1, 9)
        return np.array([rnd.uniform(lo, hi) for _ in range(n)]), np.array([rnd.uniform(lo, hi) for _ in range(n)])
    if shape_kind == "2d":
        a, b = rnd.randint(1, 3), rnd.randint(2, 4)
        return (np.array([[rnd.uniform(lo, hi) for _ in range(b)] for _ in range(a)]),
                np.array([[rnd.uniform(lo, hi) for _ in range(b)] for _ in range(a)]))
    if shape_kind == "grid":
        import verde as vd
        return tuple(vd.grid_coordinates((lo, hi, lo / 2, hi / 2), shape=(3, 4)))
    raise ValueError(shape_kind)


SHAPES = ["1d", "2d", "grid"]
# query coordinates as they are PASSED to predict: full arrays and broadcastable forms, fixed cycle per stream
BSHAPES = ["sparse-ij", "1d", "ix_", "sparse-xy", "2d", "row-col", "scalar-array", "grid", "array-scalar"]


def _query2(rnd, tag, lo=-20.0, hi=20.0, scale=(1.0, 1.0)):
    """returns (raw, qe, qn, form): raw = the two coordinate arguments as passed to predict (sparse xy meshgrid (1,N) x (M,1),
    sparse ij meshgrid (N,1) x (1,M), np.ix_, (N,) with (M,1), scalar with array, or full 1-D / 2-D arrays; square and
    non-square); qe, qn = the explicitly broadcast coordinates (np.broadcast_arrays) the result must correspond to"""
    n = _COUNT.get("shape-" + tag, 0)
    _COUNT["shape-" + tag] = n + 1
    form = BSHAPES[n % len(BSHAPES)]
    square = (n // len(BSHAPES)) % 2 == 1
    if form in SHAPES:
        re, rn = _query(rnd, form, lo, hi)
    else:
        N = rnd.randint(2, 4)
        M = N if square else N + rnd.randint(1, 2)
        e = np.array([rnd.uniform(lo, hi) for _ in range(N)]); nn = np.array([rnd.uniform(lo, hi) for _ in range(M)])
        if form == "sparse-xy":
            re, rn = np.meshgrid(e, nn, sparse=True)
        elif form == "sparse-ij":
            re, rn = np.meshgrid(e, nn, sparse=True, indexing="ij")
        elif form == "ix_":
            re, rn = np.ix_(e, nn)
        elif form == "row-col":
            re, rn = e, nn.reshape(M, 1)
        elif form == "scalar-array":
            re, rn = float(e[0]), nn
        else:
            re, rn = e, float(nn[0])
        form += "-square" if square else "-nonsquare"
    re, rn = re * scale[0], rn * scale[1]
    qe, qn = (np.array(a, dtype=float) for a in np.broadcast_arrays(re, rn))
    return (re, rn), qe, qn, "%s %s x %s" % (form, np.shape(re), np.shape(rn))


def _eq(a, b):
    if isinstance(a, (tuple, list)) or isinstance(b, (tuple, list)):
        return isinstance(a, (tuple, list)) and isinstance(b, (tuple, list)) and len(a) == len(b) and all(_eq(x, y) for x, y in zip(a, b))
    a, b = np.asarray(a), np.asarray(b)
    return bool(a.shape == b.shape and np.array_equal(a, b))


def _snapshot(g, names):
    import copy
    return {k: copy.deepcopy(getattr(g, k)) for k in names}


def _poke_jacobian(g, rnd, names, fitted_forces, idx):
    """call the PUBLIC jacobian between fit and predict - with other coordinates / other force coordinates and with the fitted
    ones, in alternating order - and report whether any fitted attribute changed.  Calling jacobian must not change what
    predict returns."""
    snap = _snapshot(g, names)
    k = rnd.randint(1, 5)
    oe = np.array([rnd.uniform(-30, 30) for _ in range(k)]); on = np.array([rnd.uniform(-30, 30) for _ in range(k)])
    calls = ["other", "fitted"] if idx % 2 == 0 else ["fitted", "other"]
    changed = []
    with warnings.catch_warnings():
        warnings.simplefilter("ignore")
        for c in calls:
            if fitted_forces is None:         # Trend: coordinates only
                g.jacobian((oe, on) if c == "other" else (oe[:1] * 0.5, on[:1] * 0.5))
            elif c == "other":
                mf = len(np.atleast_1d(fitted_forces[0])) + rnd.randint(1, 3)    # a different number of forces
                g.jacobian((oe, on), (np.array([rnd.uniform(-40, 40) for _ in range(mf)]), np.array([rnd.uniform(-40, 40) for _ in range(mf)])))
            else:
                g.jacobian((oe, on), fitted_forces)
            for name in names:
                if not _eq(getattr(g, name), snap[name]):
                    changed.append("%s changed by jacobian(%s ...)" % (name, c))
    return (not changed), " then ".join("jacobian(%s)" % c for c in calls), sorted(set(changed))


def _ls_ok(force, J, data, damping):
    """the fitted forces are least_squares(jacobian, data, None, damping) for the damping IN FORCE at fit time"""
    from verde.base.least_squares import least_squares
    ref = least_squares(np.array(J, dtype=float), np.asarray(data, dtype=float).ravel(), None, damping)
    scale = float(np.max(np.abs(ref))) if ref.size else 0.0
    return bool(force.shape == ref.shape and np.all(np.abs(force - ref) <= 1e-9 * scale + 1e-300))


def predict_spline_case(vd, rnd, fitted, kind, idx=0):
    m = rnd.randint(1, 9)
    fe = np.array([rnd.uniform(-20, 20) for _ in range(m)])
    fn = np.array([rnd.uniform(-20, 20) for _ in range(m)])
    md = rnd.choice([0.0, 0.0, 0.5, 1e-3])
    raw, qe, qn, form = _query2(rnd, "predict-spline")
    if rnd.random() < 0.4 and np.shape(raw[0]) == qe.shape and np.shape(raw[1]) == qe.shape:   # some query points on top of forces
        qe.flat[0] = fe[0]; qn.flat[0] = fn[0]
        raw = (qe, qn)
    # options in force at fit time (fixed cycles): damping, force_coords
    damping = [None, 1e-2, None, 10.0][(idx // 2) % 4] if fitted else None
    use_fc = fitted and (idx // 2) % 3 == 1
    opts_ok = True
    with warnings.catch_warnings():
        warnings.simplefilter("ignore")
        extra = {}
        if fitted:
            extra = {"damping": damping, "force_coords": (fe, fn) if use_fc else None}
        sp, how = conf_spline(vd, float(md), "predict-spline", **extra)
        if fitted:
            if use_fc:
                nd = m + rnd.randint(0, 4)
                de = np.array([rnd.uniform(-20, 20) for _ in range(nd)]); dn = np.array([rnd.uniform(-20, 20) for _ in range(nd)])
            else:
                de, dn = fe, fn
            data = np.array([rnd.uniform(-5, 5) for _ in range(de.size)])
            sp.fit((de, dn), data)
            fc = sp.force_coords_
            opts_ok = (len(fc) == 2 and np.array_equal(fc[0], fe) and np.array_equal(fc[1], fn)
                       and _ls_ok(sp.force_, sp.jacobian((de, dn), (fe, fn)), data, damping))
        else:
            sp.force_coords_ = (fe, fn)
            sp.force_ = np.array([rnd.choice([rnd.uniform(-3, 3), rnd.uniform(-1e3, 1e3), 0.0, 1.0]) for _ in range(m)])
            sp.region_ = (-20, 20, -20, 20)
        fitted_fc = tuple(np.array(a, dtype=float) for a in sp.force_coords_)
        attrs_ok, poked, changed = _poke_jacobian(sp, rnd, ("force_coords_", "force_", "region_"), fitted_fc, idx)
        y = sp.predict(raw)
        J = sp.jacobian((qe, qn), fitted_fc)
        # the kernel must be the one of the mindist in force: a constructor-configured reference instance, bit for bit
        Jref = vd.Spline(mindist=md if md else None).jacobian((qe, qn), (fe, fn))
        opts_ok = bool(opts_ok and J.shape == Jref.shape and np.array_equal(J, Jref, equal_nan=True))
    shape_ok = (y.shape == qe.shape) and J.shape == (qe.size, m) and opts_ok and attrs_ok
    term = ("c03_predict %s %s %s %s" % (cmat(J), cvec(sp.force_), cvec(y), cbool(shape_ok))) if _fin(J, sp.force_, y) else "c03_flag false"
    inp = {"gridder": "Spline", "query_form": form, "configured": how, "between_fit_and_predict": poked, "mindist": md, "damping": damping, "force_coords_option": bool(use_fc), "fitted": fitted,
           "force_east": fe.tolist(), "force_north": fn.tolist(),
           "force": sp.force_.tolist(), "query_east": qe.tolist(), "query_north": qn.tolist()}
    repro = ("import verde, numpy as np, warnings; warnings.simplefilter('ignore'); s = verde.Spline(mindist=%r); "
             "s.force_coords_ = (np.array(%r), np.array(%r)); s.force_ = np.array(%r); q = (np.array(%r), np.array(%r)); "
             "fc = s.force_coords_; s.jacobian((np.array([1., 2.]), np.array([3., 4.])), (np.arange(%d.), np.arange(%d.)))  # a public "
             "jacobian call with other force coordinates must not change predict\n"
             "print(s.predict(q).ravel() - verde.Spline(mindist=%r).jacobian(q, fc) @ s.force_)  # options configured by: %s; sequence: %s"
             % (md if md else None, fe.tolist(), fn.tolist(), sp.force_.tolist(), qe.tolist(), qn.tolist(), m + 2, m + 2,
                md if md else None, how, poked))
    return Case(inp, {"predict": np.asarray(y).ravel().tolist(), "options_honoured": bool(opts_ok),
                      "fitted_attributes_unchanged_by_jacobian": bool(attrs_ok), "changed": changed}, term, repro, kind)


def predict_vector_case(vd, rnd, fitted, kind, idx=0):
    m = rnd.randint(1, 6)
    fe = np.array([rnd.uniform(-20, 20) for _ in range(m)])
    fn = np.array([rnd.uniform(-20, 20) for _ in range(m)])
    md = rnd.choice([10e3, 1.0, 0.5, 1e-2])
    # fixed shares: special Poisson ratios (-1, 0, 1) in half of the cases; mindist = 0 in every third unfitted case
    # (points apart: no query point on a force then)
    nu = [-1.0, 0.5, 0.0, 0.3, 1.0, -0.25][(idx // 2) % 6]
    md0 = (not fitted) and (idx // 2) % 3 == 1
    if md0:
        md = 0.0
    raw, qe, qn, form = _query2(rnd, "predict-vector")
    if rnd.random() < 0.4 and not md0 and np.shape(raw[0]) == qe.shape and np.shape(raw[1]) == qe.shape:
        qe.flat[0] = fe[0]; qn.flat[0] = fn[0]
        raw = (qe, qn)
    use_fc = fitted and (idx // 2) % 3 == 2
    vopts = {"poisson": nu, "mindist": md}
    if use_fc:
        vopts["force_coords"] = (fe, fn)
    vs, how = conf(vd.VectorSpline2D, vopts, "predict-vector", decoy={"poisson": 0.123, "mindist": 77.0})
    opts_ok = True
    if fitted:
        if use_fc:
            nd = m + rnd.randint(0, 3)
            pe = np.array([rnd.uniform(-20, 20) for _ in range(nd)]); pn = np.array([rnd.uniform(-20, 20) for _ in range(nd)])
        else:
            pe, pn = fe, fn
        de = np.array([rnd.uniform(-5, 5) for _ in range(pe.size)])
        dn = np.array([rnd.uniform(-5, 5) for _ in range(pe.size)])
        vs.fit((pe, pn), (de, dn))
        fc = vs.force_coords
        opts_ok = (len(fc) == 2 and np.array_equal(fc[0], fe) and np.array_equal(fc[1], fn)
                   and _ls_ok(vs.force_, vs.jacobian((pe, pn), (fe, fn)), np.concatenate([de, dn]), None))
    else:
        vs.force_coords = (fe, fn)
        vs.force_ = np.array([rnd.choice([rnd.uniform(-3, 3), rnd.uniform(-1e3, 1e3), 0.0, 1.0]) for _ in range(2 * m)])
        vs.region_ = (-20, 20, -20, 20)
    fitted_fc = tuple(np.array(a, dtype=float) for a in vs.force_coords)
    attrs_ok, poked, changed = _poke_jacobian(vs, rnd, ("force_coords", "force_", "region_"), fitted_fc, idx)
    ye, yn = vs.predict(raw)
    J = vs.jacobian((qe, qn), fitted_fc)
    Jref = vd.VectorSpline2D(poisson=nu, mindist=md).jacobian((qe, qn), (fe, fn))   # the kernel of the options in force
    opts_ok = bool(opts_ok and J.shape == Jref.shape and np.array_equal(J, Jref, equal_nan=True))
    shape_ok = (ye.shape == qe.shape) and (yn.shape == qe.shape) and J.shape == (2 * qe.size, 2 * m) and opts_ok and attrs_ok
    term = ("c03_predict2 %s %s %s %s %s" % (cmat(J), cvec(vs.force_), cvec(ye), cvec(yn), cbool(shape_ok))) if _fin(J, vs.force_, ye, yn) else "c03_flag false"
    inp = {"gridder": "VectorSpline2D", "query_form": form, "configured": how, "between_fit_and_predict": poked, "attributes_changed": changed, "force_coords_option": bool(use_fc), "mindist": md, "poisson": nu, "fitted": fitted, "force_east": fe.tolist(),
           "force_north": fn.tolist(), "force": vs.force_.tolist(), "query_east": qe.tolist(), "query_north": qn.tolist()}
    repro = ("import verde, numpy as np; s = verde.VectorSpline2D(poisson=%r, mindist=%r); "
             "s.force_coords = (np.array(%r), np.array(%r)); s.force_ = np.array(%r); q = (np.array(%r), np.array(%r)); "
             "print(np.concatenate([c.ravel() for c in s.predict(q)]) - s.jacobian(q, s.force_coords) @ s.force_)"
             % (nu, md, fe.tolist(), fn.tolist(), vs.force_.tolist(), qe.tolist(), qn.tolist()))
    return Case(inp, {"east": np.asarray(ye).ravel().tolist(), "north": np.asarray(yn).ravel().tolist()}, term, repro, kind)


def combos_case(N):
    from verde.trend import polynomial_power_combinations as ppc
    obs = [tuple(int(x) for x in c) for c in ppc(N)]
    term = "c03_combos %s %s" % (cN(N), clist(["(%s, %s)" % (cN(i), cN(j)) for i, j in obs]))
    return Case({"fn": "polynomial_power_combinations", "degree": N}, {"combinations": [list(c) for c in obs]}, term,
                "from verde.trend import polynomial_power_combinations as f; print(f(%d))" % N, "trend-combinations")


def trend_jac_case(vd, rnd, N, kind):
    n = rnd.randint(1, 6)
    scale = rnd.choice([1.0, 1.0, 0.125, 16.0])
    e = np.array([_dy(rnd, -4, 4, 4) * scale for _ in range(n)])
    nn = np.array([_dy(rnd, -4, 4, 4) * scale for _ in range(n)])
    if n > 1 and rnd.random() < 0.5:
        e[0] = 0.0
    if rnd.random() < 0.3:
        e = e + rnd.uniform(-1, 1)      # non-dyadic: powers are rounded
    tr, how = conf(vd.Trend, {"degree": N}, "trend-jacobian", decoy={"degree": N + 2}, required=("degree",))
    J = tr.jacobian((e, nn))
    term = ("c03_trend_jac %s %s %s %s" % (cN(N), cvec(e), cvec(nn), cmat(J))) if _fin(J) else "c03_flag false"
    return Case({"fn": "Trend.jacobian", "configured": how, "degree": N, "east": e.tolist(), "north": nn.tolist()},
                {"shape": list(J.shape), "first_row": J[0].tolist()}, term,
                "import verde, numpy as np; print(verde.Trend(degree=%d).jacobian((np.array(%r), np.array(%r))))" % (N, e.tolist(), nn.tolist()),
                kind)


def trend_predict_case(vd, rnd, N, fitted, kind, idx=0):
    ncoef = (N + 1) * (N + 2) // 2
    raw, qe, qn, form = _query2(rnd, "trend-predict", -3.0, 3.0)
    tr, how = conf(vd.Trend, {"degree": N}, "trend-predict", decoy={"degree": N + 1}, required=("degree",))
    if fitted:
        k = ncoef + rnd.randint(0, 4)
        de = np.array([rnd.uniform(-3, 3) for _ in range(k)])
        dn = np.array([rnd.uniform(-3, 3) for _ in range(k)])
        tr.fit((de, dn), np.array([rnd.uniform(-10, 10) for _ in range(k)]))
    else:
        tr.coef_ = np.array([rnd.choice([rnd.uniform(-3, 3), 0.0, 1.0, rnd.uniform(-100, 100)]) for _ in range(ncoef)])
        tr.region_ = (-3, 3, -3, 3)
    attrs_ok, poked, changed = _poke_jacobian(tr, rnd, ("coef_", "region_", "degree"), None, idx)
    y = tr.predict(raw)
    shape_ok = y.shape == qe.shape and attrs_ok
    term = ("c03_trend_predict %s %s %s %s %s %s" % (cN(N), cvec(qe), cvec(qn), cvec(tr.coef_), cvec(y), cbool(shape_ok))) if _fin(tr.coef_, y) else "c03_flag false"
    return Case({"fn": "Trend.predict", "query_form": form, "configured": how, "between_fit_and_predict": poked, "attributes_changed": changed, "degree": N, "fitted": fitted, "coef": np.asarray(tr.coef_).tolist(),
                 "east": qe.tolist(), "north": qn.tolist()}, {"predict": np.asarray(y).ravel().tolist()}, term,
                "import verde, numpy as np; t = verde.Trend(degree=%d); t.coef_ = np.array(%r); e, n = np.array(%r), np.array(%r); "
                "print(t.predict((e, n)))  # the coordinates were passed in the form %s (np.broadcast_arrays of them = e, n): the result must be the same"
                % (N, np.asarray(tr.coef_).tolist(), qe.tolist(), qn.tolist(), form), kind)


def translation_case(vd, rnd, vector, kind, idx=0):
    n, m = rnd.randint(2, 6), rnd.randint(1, 5)
    pe = np.array([_dy(rnd, -8, 8) for _ in range(n)]); pn = np.array([_dy(rnd, -8, 8) for _ in range(n)])
    fe = np.array([_dy(rnd, -8, 8) for _ in range(m)]); fn = np.array([_dy(rnd, -8, 8) for _ in range(m)])
    fe[0], fn[0] = pe[0], pn[0]
    a = rnd.choice([1024.0, -4096.5, 3.25, 65536.0, -17.0]); b = rnd.choice([-2048.0, 100.75, 8.0, -65536.0, 0.0])
    with warnings.catch_warnings():
        warnings.simplefilter("ignore")
        if vector:
            g, how = conf(vd.VectorSpline2D, {"poisson": [-1.0, 0.5, 0.0, -0.3, 1.0][(idx // 2) % 5], "mindist": rnd.choice([1.0, 10e3, 0.25])},
                          "translation-vector", decoy={"poisson": 0.123, "mindist": 77.0})
            desc = {"gridder": "VectorSpline2D", "configured": how, "poisson": g.poisson, "mindist": g.mindist}
        else:
            md = rnd.choice([0.0, 0.0, 0.5])
            g, how = conf_spline(vd, float(md), "translation-spline")
            desc = {"gridder": "Spline", "configured": how, "mindist": md}
        J1 = g.jacobian((pe, pn), (fe, fn))
        J2 = g.jacobian((pe + a, pn + b), (fe + a, fn + b))
    exact = all(float(Fraction(x) + Fraction(a)) == x + a for x in list(pe) + list(fe)) and \
        all(float(Fraction(x) + Fraction(b)) == x + b for x in list(pn) + list(fn))
    assert exact
    fin = bool(np.all(np.isfinite(J1)) and np.all(np.isfinite(J2)))
    if fin:
        term = "c03_same %s %s true" % (cmat(J1), cmat(J2))
    else:
        term = "c03_flag false"
    desc.update({"east": pe.tolist(), "north": pn.tolist(), "force_east": fe.tolist(), "force_north": fn.tolist(), "shift": [a, b]})
    return Case(desc, {"max_abs_difference": float(np.max(np.abs(J1 - J2))) if fin else None}, term,
                "# jacobian((e, n), (fe, fn)) vs jacobian((e + a, n + b), (fe + a, fn + b)) for the listed input", kind)


def scipy_case(vd, rnd, cls_name, rescale, kind):
    from scipy.interpolate import CloughTocher2DInterpolator, LinearNDInterpolator
    n = rnd.randint(6, 25)
    # anisotropic coordinates (scales differing by 1e3 .. 1e6) so that the rescale option matters; a few isotropic ones
    sx, sy = rnd.choice([(1e3, 1.0), (1.0, 1e-3), (1e4, 1.0), (1.0, 1e-5), (1e6, 1.0), (2e5, 30.0)]) if rescale or rnd.random() < 0.85 else (1.0, 1.0)
    e = np.array([rnd.uniform(-1, 1) * sx for _ in range(n)]); nn = np.array([rnd.uniform(-1, 1) * sy for _ in range(n)])
    data = np.array([rnd.uniform(-10, 10) for _ in range(n)])
    raw, qe, qn, form = _query2(rnd, kind, -1.2, 1.2, scale=(sx, sy))
    g, how = conf(getattr(vd, cls_name), {"rescale": rescale}, kind, decoy={"rescale": not rescale}, required=("rescale",))
    if how.startswith("set_params") and rnd.random() < 0.5:
        # the option changes between two fits: the second fit must follow the option then in force
        g.set_params(rescale=not rescale).fit((e, nn), data)
        g.set_params(rescale=rescale)
        how += ", refitted after a fit with the other value"
    g.fit((e, nn), data)
    y = np.asarray(g.predict(raw))
    ref_cls = LinearNDInterpolator if cls_name == "Linear" else CloughTocher2DInterpolator
    pts = np.column_stack((e, nn))
    ref = ref_cls(pts, data, rescale=rescale)((qe, qn))
    other = ref_cls(pts, data, rescale=not rescale)((qe, qn))
    same = bool(y.shape == ref.shape and np.array_equal(y, ref, equal_nan=True))
    sensitive = not np.array_equal(ref, other, equal_nan=True)
    return Case({"gridder": cls_name, "query_form": form, "configured": how, "rescale": rescale, "east": e.tolist(), "north": nn.tolist(), "data": data.tolist(),
                 "query_east": qe.tolist(), "query_north": qn.tolist()},
                {"predict": np.asarray(y).ravel().tolist(), "scipy": np.asarray(ref).ravel().tolist(),
                 "rescale_changes_result": bool(sensitive)}, "c03_flag %s" % cbool(same),
                "# verde.%s with rescale=%r (configured by: %s).fit(...).predict(q) vs scipy interpolator(points, data, rescale=%r)(q) for the listed input"
                % (cls_name, rescale, how, rescale), kind, nontrivial=bool(sensitive))


def finite_case(vd, rnd, vector, kind, i_tiny=None, idx=0):
    n = rnd.randint(2, 6)
    pe = np.array([rnd.uniform(-1e3, 1e3) for _ in range(n)]); pn = np.array([rnd.uniform(-1e3, 1e3) for _ in range(n)])
    pe[-1], pn[-1] = pe[0], pn[0]     # a duplicated point as well
    with warnings.catch_warnings():
        warnings.simplefilter("ignore")
        if vector:
            md = rnd.choice([10e3, 1.0, 1e-6] + TINY) if i_tiny is None else TINY[i_tiny % len(TINY)]
            g, how = conf(vd.VectorSpline2D, {"poisson": [-1.0, 0.5, 0.0, 1.0][(idx // 2) % 4], "mindist": md}, "finite-vector",
                          decoy={"poisson": 0.123, "mindist": 77.0})
            J = g.jacobian((pe, pn), (pe, pn))
            g.force_coords = (pe, pn); g.force_ = np.ones(2 * n)
            y = np.concatenate(g.predict((pe, pn)))
            desc = {"gridder": "VectorSpline2D", "configured": how, "poisson": g.poisson, "mindist": md}
        else:
            md = rnd.choice([0.0, 0.0, 1e-3, 1.0, 1e-300, 5e-324])
            g, how = conf_spline(vd, float(md), "finite-spline")
            J = g.jacobian((pe, pn), (pe, pn))
            g.force_coords_ = (pe, pn); g.force_ = np.ones(n)
            y = g.predict((pe, pn))
            desc = {"gridder": "Spline", "configured": how, "mindist": md}
    vals = list(np.asarray(J).ravel()) + list(np.asarray(y).ravel())
    term = "c03_finite %s" % clist([cOD(x) for x in vals])
    desc.update({"east": pe.tolist(), "north": pn.tolist(), "forces_at_data_points": True})
    return Case(desc, {"all_finite": bool(np.all(np.isfinite(vals))), "diagonal": np.diag(J).tolist()}, term,
                "# jacobian and predict with the forces on the (partly duplicated) data points for the listed input", kind)


def half_case(vd, region, k=0, waves=(700.0, 300.0)):
    """the w_east_ / w_north_ properties: the given value bit for bit, or exactly half of the extent"""
    we, wn = _cb_options(k, region, waves)
    cb, how = conf(vd.synthetic.CheckerBoard, {"region": region, "w_east": we, "w_north": wn}, "checkerboard-wavelength",
                   decoy={"region": (-1.0, 9.0, 5.0, 6.0), "w_east": 11.0, "w_north": 0.7})
    cases = []
    for lo, hi, given, w, nm in ((region[0], region[1], we, cb.w_east_, "w_east"), (region[2], region[3], wn, cb.w_north_, "w_north")):
        if given is None:
            term = "c03_half %s %s %s" % (cD(lo), cD(hi), cD(w))
        else:
            term = "c03_same [[%s]] [[%s]] true" % (cD(w), cD(given))
        cases.append(Case({"fn": "CheckerBoard." + nm + "_", "options": CB_OPTIONS[k % 4], "region": list(region), "w_east": we, "w_north": wn,
                           "configured": how}, {nm + "_": float(w)}, term,
                          "import verde; print(verde.synthetic.CheckerBoard(region=%r, w_east=%r, w_north=%r).%s_)" % (tuple(region), we, wn, nm),
                          "checkerboard-wavelength-" + CB_OPTIONS[k % 4]))
    return cases


def _guard(fn, stream, *args, **kw):
    """a generator whose implementation call raises yields a failing case (not a harness crash)"""
    import traceback
    try:
        r = fn(*args, **kw)
        return r if isinstance(r, list) else [r]
    except Exception as exc:      # noqa: BLE001
        return [Case({"stream": stream, "args": repr(args[2:])[:300], "exception": repr(exc)[:300]},
                     {"traceback": traceback.format_exc()[-800:]}, "c03_flag false",
                     "# the implementation raised while observing this stream", stream)]


# ---------------------------------------------------------------------------
def generate(tier, seed):
    import verde as vd
    rnd = random.Random(seed)
    quick = tier == "quick"
    _COUNT.clear()
    certs = spline_samples(vd, rnd, tier) + elastic_samples(vd, rnd, tier) + checker_samples(vd, rnd, tier) + dtype_samples(vd, rnd, tier)
    cases = cert_cases(certs, tier)
    npred = 12 if quick else 120
    for i in range(npred):
        cases += _guard(predict_spline_case, "predict-spline", vd, rnd, fitted=bool(i % 2), kind="predict-spline", idx=i)
        cases += _guard(predict_vector_case, "predict-vector", vd, rnd, fitted=bool(i % 2), kind="predict-vector", idx=i)
    for N in range(0, 9 if quick else 13):
        cases += _guard(combos_case, "trend-combinations", N)
    for rep in range(1 if quick else 8):
        for N in range(0, 7 if quick else 9):
            cases += _guard(trend_jac_case, "trend-jacobian", vd, rnd, N, "trend-jacobian")
            cases += _guard(trend_predict_case, "trend-predict", vd, rnd, N, fitted=bool((N + rep) % 2), kind="trend-predict", idx=N + rep + (N // 2))
    for i in range(18 if quick else 72):
        for which in ("spline", "vector", "trend"):
            cases += _guard(dtype_case, "jacobian-dtype-" + which, vd, rnd, which, i)
    if quick:
        for N in (2, 3, 4):
            cases += _guard(trend_predict_case, "trend-predict", vd, rnd, N, fitted=bool(N % 2), kind="trend-predict", idx=N)
    for i in range(8 if quick else 80):
        k = "translation-vector" if i % 2 else "translation-spline"
        cases += _guard(translation_case, k, vd, rnd, vector=bool(i % 2), kind=k, idx=i)
    for i in range(8 if quick else 80):
        k = "scipy-linear" if i % 2 else "scipy-cubic"
        cases += _guard(scipy_case, k, vd, rnd, "Linear" if i % 2 else "Cubic", bool((i // 2) % 2), k)
    for i in range(6 if quick else 60):
        k = "finite-vector" if i % 2 else "finite-spline"
        cases += _guard(finite_case, k, vd, rnd, vector=bool(i % 2), kind=k, idx=i)
    for i in range(len(TINY)):     # every tiny mindist, forces on the data points
        cases += _guard(finite_case, "finite-vector-tiny-mindist", vd, rnd, vector=True, kind="finite-vector-tiny-mindist", i_tiny=i, idx=2 * i)
    for j, region in enumerate(CB_REGIONS if not quick else CB_REGIONS[:3]):
        for k in range(4):
            cases += _guard(half_case, "checkerboard-wavelength", vd, region, k, CB_WAVES[(j + k) % len(CB_WAVES)])
    return cases


def search(dis, tier, seed):
    """look harder: the quick generator with another seed plus extra fit -> public jacobian (other / fitted force
    coordinates) -> predict sequences for Spline, VectorSpline2D and Trend"""
    import verde as vd
    cases = generate("quick", seed + 1)
    rnd = random.Random(seed + 2)
    for i in range(40):
        cases += _guard(predict_spline_case, "predict-spline", vd, rnd, fitted=bool(i % 2), kind="predict-spline", idx=i)
        cases += _guard(predict_vector_case, "predict-vector", vd, rnd, fitted=bool(i % 2), kind="predict-vector", idx=i)
        cases += _guard(trend_predict_case, "trend-predict", vd, rnd, 1 + i % 5, fitted=bool(i % 2), kind="trend-predict", idx=i // 2)
        k = "scipy-linear" if i % 2 else "scipy-cubic"      # every broadcastable query form for Linear / Cubic as well
        cases += _guard(scipy_case, k, vd, rnd, "Linear" if i % 2 else "Cubic", bool((i // 2) % 2), k)
    return cases
