"""Memory-layout / dtype variants of coordinate arrays with the same logical (C-order) element sequence.
Used by the C08 and C14 generators: the model always receives the logical np.ravel (C order) of each
array, so any dependence of verde on the memory layout shows up as a violation."""
import numpy as np

KINDS = ["C", "F", "TT", "strided", "stridedF", "Tslice"]

# the same source is exec'd here and pasted into every replay, so a replay rebuilds the exact argument objects
MK_SRC = '''
def mk(v, kind="C", dt="float64"):
    import numpy as np
    a = np.array(v, dtype=dt)
    if a.ndim != 2 or kind == "C":
        return a
    r, c = a.shape
    if kind == "F":                      # Fortran-ordered copy
        return np.asfortranarray(a)
    if kind == "TT":                     # transposed view of a transposed copy
        return a.T.copy().T
    if kind == "strided":                # non-contiguous window of a larger C-ordered array
        big = np.full((2 * r + 1, 3 * c + 2), 777, dtype=dt)
        big[1::2, 2::3] = a
        return big[1::2, 2::3]
    if kind == "stridedF":               # non-contiguous window of a larger Fortran-ordered array
        big = np.asfortranarray(np.full((2 * r + 1, 3 * c + 2), 777, dtype=dt))
        big[1::2, 2::3] = a
        return big[1::2, 2::3]
    if kind == "Tslice":                 # slice of a transposed view
        big = np.full((c + 2, r + 1), 777, dtype=dt)
        view = big.T[0:r, 1:c + 1]
        view[...] = a
        return view
    raise ValueError(kind)
'''
exec(MK_SRC)


# in-place modifications of the SAME array objects between two calls (sequence streams); pasted into replays too
OPS_SRC = '''
def apply_ops(c, ops):
    import numpy as np
    for op, k, val in ops:
        a = c[k]
        if op == "shift":
            a -= val
        elif op == "scale":
            a *= val
        elif op == "center":
            a -= np.round(a.mean() * 4) / 4     # the mean rounded to the quarter lattice: the values stay on the lattice
                                                # (off it, float and exact arithmetic may place a point that sits exactly
                                                # on a window / block edge on different sides: not a property matter)
        elif op == "overwrite":
            a[...] = np.array(val, dtype=a.dtype).reshape(a.shape)
        else:
            raise ValueError(op)
'''
exec(OPS_SRC)


def first_call(vd, coords, first):
    """the earlier call of a sequence; its result is not the subject (ValueError tolerated)"""
    name, kw = first
    try:
        getattr(vd, name)(coords, **kw)
    except ValueError:
        pass


def sequence_ops(rnd, spec, lattice=0.25):
    """one to three in-place modifications keeping the values on the lattice / integer for integer dtypes"""
    ops = []
    for _ in range(rnd.randint(1, 3)):
        k = rnd.randrange(min(2, len(spec)))
        v, _, dt = spec[k]
        isint = dt.startswith("int")
        op = rnd.choice(["shift", "shift", "scale", "overwrite"] + ([] if isint else ["center"]))
        if op == "shift":
            val = rnd.choice([1, 2, -3]) if isint else rnd.choice([lattice, 1.0, -2.5, 0.75])
        elif op == "scale":
            val = rnd.choice([2, -1]) if isint else rnd.choice([0.5, 2.0, -1.0])
        elif op == "overwrite":
            flat = np.asarray(v, dtype=float).ravel()
            val = [float(x) for x in rnd.sample(list(flat), len(flat))]      # the same positions, shuffled
            if isint:
                val = [int(x) for x in val]
        else:
            val = None
        ops.append((op, k, val))
    return ops


def repro_sequence(first, ops):
    return OPS_SRC + "import verde\ntry:\n    getattr(verde, %r)(c, **%r)\nexcept ValueError:\n    pass\napply_ops(c, %r)\n" % (first[0], first[1], ops)


def fresh(coords):
    return tuple(np.array(a, copy=True) for a in coords)


def _vals(a, dt):
    v = np.asarray(a, dtype=float)
    return v.astype(dt).tolist() if dt != "float64" else v.tolist()


def arrange(rnd, arrs, dt="float64", p2d=0.55):
    """spec = [(nested list, kind, dtype), ...]: 1-D, or a 2-D reshape (non-square when the size allows) with an
    independently chosen memory layout per array; dt: one dtype for all arrays, or one per array"""
    dts = [dt] * len(arrs) if isinstance(dt, str) else list(dt)
    m = len(arrs[0])
    if m >= 2 and rnd.random() < p2d:
        divs = [d for d in range(2, m) if m % d == 0 and d * d != m] or [d for d in range(1, m + 1) if m % d == 0]
        r = rnd.choice(divs)
        spec = []
        same = rnd.choice(KINDS) if rnd.random() < 0.3 else None
        for a, d in zip(arrs, dts):
            spec.append((_vals(np.asarray(a, dtype=float).reshape(r, m // r), d), same or rnd.choice(KINDS), d))
        return spec
    return [(_vals(a, d), "C", d) for a, d in zip(arrs, dts)]


DTYPES = ["int32", "int64", "float32", "float64"]


def mixed_axes(rnd, m, extent_e, extent_n, spill=0.0):
    """easting / northing / extra values of DIFFERENT dtypes (all ordered pairs of int32, int64, float32, float64) whose values
    need the wider type: integers next to fractions on a 2^-12 grid; float32-exact values next to doubles with a large
    offset and sub-float32 resolution (UTM-like 7.5e6 + fractions).  Returns (arrs, dtypes, base_e, base_n)."""
    de, dn = rnd.sample(DTYPES, 2)
    big = rnd.random() < 0.5 or "float32" in (de, dn)

    def axis(d, base, extent):
        lo, hi = -spill * extent, (1 + spill) * extent
        if d.startswith("int"):
            return [base + rnd.randint(int(np.ceil(lo)), int(hi)) for _ in range(m)]
        if d == "float32":      # multiples of 1/16: exact in float32 up to ~5e5
            return [base + rnd.randint(int(np.ceil(lo * 16)), int(hi * 16)) / 16 for _ in range(m)]
        return [base + rnd.randint(int(np.ceil(lo * 4096)), int(hi * 4096)) / 4096 for _ in range(m)]

    def base(d):
        if not big:
            return 0.0
        return 7.5e6 if d in ("float64", "int64", "int32") else 5.0e5    # 7.5e6 + k/4096 is not a float32

    be, bn = base(de), base(dn)
    dx = rnd.choice(DTYPES)
    arrs = [axis(de, be, extent_e), axis(dn, bn, extent_n), axis(dx, 0.0, 50)]
    return arrs, [de, dn, dx], be, bn


def from_arrays(arrays):
    return [(np.asarray(a).tolist(), "C", str(np.asarray(a).dtype)) for a in arrays]


def build(spec):
    return tuple(mk(v, k, d) for v, k, d in spec)


def logical(a):
    """the logical element sequence handed to the model"""
    return [float(x) for x in np.asarray(a, dtype=float).ravel(order="C")]


def repro_args(spec):
    return MK_SRC + "c = (" + ", ".join("mk(%r, %r, %r)" % s for s in spec) + ",)\n"


def describe(spec):
    return [{"values": v, "layout": k, "dtype": d} for v, k, d in spec]


def snapshot(coords):
    return [np.array(c, copy=True, order="C") for c in coords]


def unchanged(coords, snap):
    return all(c.shape == s.shape and c.dtype == s.dtype and np.array_equal(c, s) for c, s in zip(coords, snap))


# the same values handed over as different kinds of objects (the SAME object is used for both calls of a case)
ARG_KINDS = ["tuple", "list", "f64", "int"]


def arg_obj(kind, values):
    """(object, python expression rebuilding it); 'int' only for integer-valued data, else a float64 ndarray"""
    vals = [float(v) for v in values]
    if kind == "int" and not all(v == int(v) for v in vals):
        kind = "f64"
    if kind == "tuple":
        return tuple(vals), repr(tuple(vals))
    if kind == "list":
        return list(vals), repr(list(vals))
    if kind == "f64":
        return np.array(vals, dtype="float64"), "np.array(%r, dtype='float64')" % (vals,)
    return np.array([int(v) for v in vals]), "np.array(%r)" % ([int(v) for v in vals],)


def same_values(obj, values):
    try:
        return [float(x) for x in np.asarray(obj, dtype=float).ravel()] == [float(v) for v in values]
    except Exception:
        return False
